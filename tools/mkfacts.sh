#!/bin/bash
# usage: mkfacts.sh <out.jsonl> <repo-dir> [cargo feature args...]
# Exports MIR facts of the crate at <repo-dir> (current working tree) with the
# mirfacts driver.  Always uses a fresh target dir (cargo's freshness cache would
# otherwise skip the wrapper) and removes it afterwards.
set -u
OUT="$1"; shift
REPO="$1"; shift
DRV=/verif/driver/target/release/mirfacts
if [ ! -x "$DRV" ]; then
  echo "mkfacts: driver not built (run MANIFEST.setup_cmd)" >&2
  exit 3
fi
OFLOW="${MIRFACTS_OVERFLOW:-on}"
T=$(mktemp -d /tmp/mirfacts.XXXXXX)
trap 'rm -rf "$T"' EXIT
rm -f "$OUT"
SYSROOT=$(rustc +nightly --print sysroot)
LD_LIBRARY_PATH="$SYSROOT/lib" \
RUSTFLAGS="-Zmir-opt-level=0 -Awarnings -Coverflow-checks=$OFLOW" \
RUSTC_WORKSPACE_WRAPPER="$DRV" \
MIRFACTS_OUT="$OUT" \
CARGO_NET_OFFLINE=true \
CARGO_TARGET_DIR="$T/target" \
cargo +nightly check --offline --quiet --manifest-path "$REPO/Cargo.toml" --lib "$@" >"$T/log" 2>&1
RC=$?
if [ $RC -ne 0 ] || [ ! -s "$OUT" ]; then
  echo "mkfacts: cargo check failed (rc=$RC) for args: $*" >&2
  grep -E "^(error|thread|  -->)" "$T/log" | head -20 >&2
  exit 2
fi
exit 0
