#!/bin/bash
# runs the 20 quick checks against /repo (6 at a time) and prints one line per property; exit 1 if any check fails
cd "$(dirname "$0")/.."
seq -w 1 20 | xargs -P 6 -I{} bash -c './check C{} > /tmp/allquick_C{}.out 2>&1; echo "C{} rc=$? $(grep -m1 "^\[C" /tmp/allquick_C{}.out | cut -c1-120)"' | sort | tee /tmp/allquick.summary
! grep -q "rc=[1-9]" /tmp/allquick.summary
