#!/usr/bin/env python3
"""Regenerates /verif/MANIFEST.json from the rule modules' META blocks (CLAIMS below says what is claimed)."""
import importlib
import json
import os
import sys

HERE = os.path.dirname(os.path.dirname(os.path.abspath(__file__)))
sys.path.insert(0, os.path.join(HERE, "analysis"))
sys.path.insert(0, os.path.join(HERE, "analysis", "rules"))

TECH = {
    "C01": "wire-layout automata inclusion (encode vs decode), sort/dominance rules, composition of C08/C10/C14/C15/C16 rule sets over MIR",
    "C02": "panic-site inventory on the decode call graph: interval abstract interpretation with relational loop invariants + dominance over MIR built with overflow checks; partitioned abstract interpretation for the interiors of parse and MessageFrame::new",
    "C03": "abstract interpretation of MessageFrame::new (symbolic bytes and length, partitioned on the payload length class) against the acceptance decision table; fallback: term dataflow + bit provenance + linear guard normal forms; dependency constant-table check",
    "C04": "C03 rule instances + GF(2) generator algebra + scanner skip rule",
    "C05": "CFG return classification by dominating facts, term dataflow over next_msg_frame / MsgFrameIter",
    "C06": "conjunction of statically checked clauses of the chunking lemma (C03/C05/C13 rule instances)",
    "C07": "abstract interpretation of put/parse MIR with trace partitioning on (offset mod 8, width, carrier) - affine cursor domain, constant propagation, Boolean-function domain per bit - compared with the bit-placement specification; same for sign_fix/sign_fix_rev of the 15 carriers; plus dominance / width-interval rules at every call site",
    "C08": "per-field model extraction from MIR + exact rational error-bound obligations",
    "C09": "panic-site inventory on the encode call graph (intervals, dominance; partitioned abstract interpretation for the interior of put), bit provenance of header/CRC bytes",
    "C10": "guard inventory with interval-exact accepted ranges, term templates for mask bits, sort dominance, sibling identity over 49 MSM instances",
    "C11": "round-half-away template matching on extracted field models + exact rational bound",
    "C12": "abstract interpretation of build_message (buffer as a byte map, wipe interpreted, forks on the unknown flag / variant / call outcomes) against the buffer-reuse specification; typestate (clean/dirty buffer) via must-pass-through and dominance as cross-check",
    "C13": "dependence analysis (data + control) of the Ok value on the slice length and on bytes beyond L+6",
    "C14": "exhaustive table extraction from SwitchInt terminators, ADT discriminants and Cargo features",
    "C15": "count-field adequacy from types, static maximum layout sums, guard-before-push dominance",
    "C16": "interval adequacy of count fields, push guards, predicate agreement, table inverses",
    "C17": "region-wise abstract evaluation of the character maps, capacity-guard dominance, UTF-8 validation dominance",
    "C18": "exhaustive table extraction + oracle comparison + finite case analysis of Ord::cmp",
    "C19": "cargo-check feature matrix (rustc type checker) with per-configuration dispatch-table extraction",
    "C20": "type-graph walk over Serialize/Deserialize impls, attribute inventory, buffer-capacity rule on hand-written impls",
}

LEVEL_TEXT = {
    "proof": "finite, exhaustive: every row of the extracted tables / every configuration is an obligation and all are discharged; "
             "the extraction is from the compiler's resolved program, so the proof is about the code that is built",
    "other": "static rule instances over the resolved program (MIR): each instance is a necessary condition of the property on every "
             "path/value (not a sample); holds for all inputs within the stated trusted base; parts not decided are named in level_note",
}


def main():
    props = [json.loads(l) for l in open(os.path.join(HERE, "properties.jsonl"))]
    claims = json.load(open(os.path.join(HERE, "tools", "claims.json")))
    checks = []
    na = []
    for p in props:
        pid = p["id"]
        c = claims.get(pid, {})
        if not c.get("claimed"):
            na.append({"property_id": pid, "reason": c.get("reason", "rule set not completed yet (work in progress)")})
            continue
        mod = importlib.import_module(pid.lower())
        meta = mod.META
        checks.append({
            "property_id": pid,
            "quick_cmd": "./check %s --tier quick" % pid,
            "thorough_cmd": "./check %s --tier thorough" % pid,
            "evidence_file": "/verif/evidence/%s.json" % pid,
            "replay_cmd_template": "./check %s --replay {path}" % pid,
            "engine": "mirfacts+rules",
            "level_claimed": {"category": meta["level"], "text": c.get("level_text") or LEVEL_TEXT[meta["level"]],
                              "design_ref": c.get("design_ref", "DESIGN.md section 5")},
            "level_note": (c.get("not_decided", "") + " Trusted: " + "; ".join(meta.get("trusted_base", [])) + ". "
                           + " ".join(meta.get("assumptions", []))).strip(),
            "technique": TECH[pid],
        })
    m = {
        "version": 1,
        "setup_cmd": "cd /verif/driver && CARGO_NET_OFFLINE=true cargo +nightly build --release --offline",
        "hooks": {"guard": "rtcm_rs_verif",
                  "enable": "no hooks are needed: the rustc_private driver (mirfacts) sees crate-private items; every check "
                            "type-checks /repo's working tree with `cargo +nightly check` under the driver",
                  "baseline_off_cmd": "cd /repo && cargo test --workspace --no-fail-fast --offline",
                  "source_commits": [], "add_only": True},
        "engines": [
            {"name": "mirfacts", "path": "/verif/driver", "serves_properties": [c["property_id"] for c in checks],
             "kind_free_text": "rustc_private driver exporting MIR, ADTs, impls, attributes of the type-checked crate as JSON lines"},
            {"name": "rules", "path": "/verif/analysis", "serves_properties": [c["property_id"] for c in checks],
             "kind_free_text": "Python rule engine: CFG/dominators, SSA-style term dataflow, guards, intervals, bit provenance, linear forms, table extraction"},
        ],
        "checks": checks,
        "not_applicable": na,
        "notes": "Static analysis only: no check executes code of /repo. Known findings: /verif/known_findings.json. Known limitations (behaviour-preserving rewrites that are still reported, fail-closed): DESIGN.md 13.26-13.31 and selftest/expect.json `known_limitations`.",
    }
    with open(os.path.join(HERE, "MANIFEST.json"), "w") as f:
        json.dump(m, f, indent=1)
    print("claimed:", [c["property_id"] for c in checks])
    print("not applicable:", [n["property_id"] for n in na])


if __name__ == "__main__":
    main()
