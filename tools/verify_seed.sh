#!/bin/bash
# usage: verify_seed.sh <worktree> : confirms a seeded change (patch in <wt>/_result/patch.diff, demo in tests/seeded_demo.rs)
#  1. demo fails with the change  2. whole existing suite passes with the change (demo excluded)  3. demo passes without it
set -u
WT="$1"; cd "$WT" || exit 9
LOG="$WT/_result/verify.log"; : > "$LOG"
git stash list >/dev/null
# make sure the tree = HEAD + patch
git checkout -q -- src Cargo.toml 2>/dev/null
git apply _result/patch.diff || { echo "PATCH-DOES-NOT-APPLY" | tee -a "$LOG"; exit 9; }
cp _result/seeded_demo.rs tests/seeded_demo.rs
echo "== demo with change" >> "$LOG"
cargo test --offline --test seeded_demo >> "$LOG" 2>&1; D1=$?
echo "== suite with change (demo excluded)" >> "$LOG"
mv tests/seeded_demo.rs /tmp/seeded_demo_$$.rs
cargo test --offline --no-fail-fast > "$WT/_result/suite.log" 2>&1; S=$?
PASS=$(grep -E "^test result" "$WT/_result/suite.log" | awk '{p+=$4; f+=$6} END {print p" passed "f" failed"}')
echo "suite rc=$S $PASS" >> "$LOG"
mv /tmp/seeded_demo_$$.rs tests/seeded_demo.rs
git checkout -q -- src Cargo.toml
echo "== demo without change" >> "$LOG"
cargo test --offline --test seeded_demo >> "$LOG" 2>&1; D2=$?
echo "RESULT demo_with_change_rc=$D1 suite_rc=$S ($PASS) demo_without_change_rc=$D2" | tee -a "$LOG"
[ $D1 -ne 0 ] && [ $S -eq 0 ] && [ $D2 -eq 0 ] && echo CONFIRMED | tee -a "$LOG"
