#!/usr/bin/env python3
"""mkmutant.py <out.diff> <file> <<< JSON [[old, new], ...]   -- writes a -p1 unified diff against /repo (file is repo-relative).
Several files: pass JSON {"file": [[old,new],...], ...} with <file> = '-'."""
import difflib, json, sys
out, fname = sys.argv[1], sys.argv[2]
spec = json.load(sys.stdin)
if fname != '-':
    spec = {fname: spec}
chunks = []
for fn, reps in spec.items():
    a = open('/repo/' + fn).read()
    b = a
    for old, new in reps:
        if b.count(old) != 1:
            sys.exit("pattern occurs %d times in %s: %r" % (b.count(old), fn, old[:60]))
        b = b.replace(old, new)
    chunks.append(''.join(difflib.unified_diff(a.splitlines(True), b.splitlines(True), 'a/' + fn, 'b/' + fn)))
open(out, 'w').write(''.join(chunks))
print("wrote", out)
