#!/usr/bin/env python3
"""Regenerates oracles/known_functions.json: the function paths of the current /repo (configurations K0 and K3), digits abstracted.
Run by hand when the rules learn a new function by role; never run by a check."""
import sys, os, json
sys.path.insert(0, os.path.join(os.path.dirname(os.path.abspath(__file__)), "..", "analysis"))
os.environ["VERIF_NOINLINE"] = "1"
import engine, inline
paths = set()
for key in ("K0", "K3"):
    ctx = engine.Ctx("C01", "quick")
    prog = ctx.prog(key)
    for p in prog.fns:
        if "{closure#" not in p:
            paths.add(inline.norm_path(p))
out = {"comment": "function paths known to the rules (digits abstracted to N); a crate-local callee outside this list is a helper and is inlined into its callers before the rules run",
       "paths": sorted(paths)}
json.dump(out, open(os.path.join(engine.VERIF, "oracles", "known_functions.json"), "w"), indent=0)
print(len(paths), "paths")
