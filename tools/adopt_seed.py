#!/usr/bin/env python3
"""adopt_seed.py <Sxx> <property> <worktree> <checks,comma> -- after tools/verify_seed.sh confirmed a seeded change, copy it
to /verif/seeded/<Sxx>/ with a meta.json skeleton (fill `change`, `needs_to_manifest`, `checks_that_report_it` by hand)."""
import json, os, shutil, sys
sid, prop, wt, checks = sys.argv[1:5]
v = open(wt + "/_result/verify.log").read()
res = [l for l in v.splitlines() if l.startswith("RESULT")][-1]
if "CONFIRMED" not in v:
    sys.exit("not confirmed: " + res)
d = "/verif/seeded/" + sid
os.makedirs(d, exist_ok=True)
shutil.copy(wt + "/_result/patch.diff", d + "/patch.diff")
shutil.copy(wt + "/_result/seeded_demo.rs", d + "/seeded_demo.rs")
if os.path.exists(wt + "/_result/README.md"):
    shutil.copy(wt + "/_result/README.md", d + "/author_README.md")
meta = {"id": sid, "breaks_property": prop, "change": "", "needs_to_manifest": "",
        "origin": "written by a sub-agent that was given only the property text and its own scratch worktree of /repo (nothing from /verif)",
        "confirmed": {"by": "tools/verify_seed.sh in the scratch worktree (removed afterwards)", "result": res,
                      "commands": ["git apply patch.diff", "cargo test --offline --test seeded_demo   (fails with the change)",
                                   "cargo test --offline --no-fail-fast   (whole existing suite passes with the change)",
                                   "git checkout -- src; cargo test --offline --test seeded_demo   (passes without the change)"]},
        "checks_that_report_it": {c: "" for c in checks.split(",") if c},
        "how_to_replay": "tools/mutant.sh seeded/%s/patch.diff %s" % (sid, checks.replace(",", " "))}
json.dump(meta, open(d + "/meta.json", "w"), indent=1)
e = json.load(open("/verif/selftest/expect.json"))
e.setdefault("seeded", {})[sid] = sorted(c for c in checks.split(",") if c)
json.dump(e, open("/verif/selftest/expect.json", "w"), indent=1)
print("adopted", sid, res)
