#!/usr/bin/env python3
"""Replays the mutation catalogue: every patch in selftest/mutants must make at least the listed checks fail,
every patch in selftest/benign must leave the listed checks silent.  Uses scratch copies of /repo only.
usage: selftest.py [name-substring ...]     (parallel, 8 at a time)"""
import json, os, subprocess, sys, concurrent.futures as cf
HERE = os.path.dirname(os.path.dirname(os.path.abspath(__file__)))
exp = json.load(open(os.path.join(HERE, "selftest", "expect.json")))
sel = sys.argv[1:]


def run(kind, name, checks):
    p = os.path.join(HERE, "selftest", kind, name + ".diff") if kind != "seeded" else os.path.join(HERE, "seeded", name, "patch.diff")
    r = subprocess.run([os.path.join(HERE, "tools", "mutant.sh"), p] + checks, capture_output=True, text=True, env=dict(os.environ, MUT_SHOW="1"))
    got = {}
    for line in r.stdout.splitlines():
        if line.startswith("== "):
            parts = line.split()
            got[parts[2]] = int(parts[3].split("=")[1])
    return kind, name, checks, got, r.stdout


jobs = []
for kind in ("mutants", "benign", "benign_ext", "seeded"):
    for name, checks in sorted(exp.get(kind, {}).items()):
        if sel and not any(s in name for s in sel):
            continue
        jobs.append((kind, name, checks))
bad = 0
with cf.ThreadPoolExecutor(max_workers=6) as ex:
    for kind, name, checks, got, out in ex.map(lambda j: run(*j), jobs):
        want = 0 if kind in ("benign", "benign_ext") else 1
        ok = all(got.get(c) == want for c in checks)
        print("%-8s %-40s %s %s" % (kind, name, "ok " if ok else "FAIL", {c: got.get(c) for c in checks}))
        if not ok:
            bad += 1
            print(out[-600:])
print("selftest:", "all as expected" if not bad else "%d unexpected" % bad)
sys.exit(1 if bad else 0)
