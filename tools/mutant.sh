#!/bin/bash
# usage: mutant.sh <patch.diff> <check id>...      (patch is -p1 relative to the repo root)
# Applies the patch to a scratch copy of /repo (never to /repo itself), runs the given checks against the
# copy with evidence/replay redirected, prints one line per check, and removes the copy.
set -u
PATCH=$(readlink -f "$1"); shift
VDIR=$(cd "$(dirname "$(readlink -f "$0")")/.." && pwd)      # the verif tree this script belongs to (a snapshot copy works too)
D=$(mktemp -d /tmp/vmut.XXXXXX)
trap 'rm -rf "$D"' EXIT
mkdir -p "$D/repo"
rsync -a --exclude target --exclude .git /repo/ "$D/repo/"
if ! (cd "$D/repo" && patch -p1 -s --no-backup-if-mismatch < "$PATCH"); then
  echo "PATCH-FAILED $PATCH"; exit 9
fi
for c in "$@"; do
  OUT=$(cd "$VDIR" && VERIF_REPO="$D/repo" VERIF_OUT_DIR="$D/out" ./check "$c" 2>&1)
  RC=$?
  N=$(echo "$OUT" | grep -c "^  violation:")
  echo "== $(basename $PATCH) $c rc=$RC"
  echo "$OUT" | grep -E "^  violation:|^VIOLATION|^KNOWN" | head -${MUT_SHOW:-6}
done
