// mirfacts: exports the resolved program (MIR + ADTs + impls) of the crate under
// analysis as JSON lines.  Used as RUSTC_WORKSPACE_WRAPPER under `cargo +nightly check`.
//
//   MIRFACTS_OUT   = file to write (one process writes it once, at the end)
//   MIRFACTS_CRATE = crate name to export (default rtcm_rs); other crates are compiled normally
//
// Nothing of the analysed crate is executed; rustc's own const evaluation of
// literal constants is the only evaluation involved.
#![feature(rustc_private)]
#![allow(clippy::all)]

extern crate rustc_abi;
extern crate rustc_ast;
extern crate rustc_ast_pretty;
extern crate rustc_driver;
extern crate rustc_hir;
extern crate rustc_interface;
extern crate rustc_middle;
extern crate rustc_span;

use rustc_driver::Compilation;
use rustc_hir::def::DefKind;
use rustc_hir::def_id::{DefId, LOCAL_CRATE};
use rustc_interface::interface::Compiler;
use rustc_middle::mir::{
    AggregateKind, AssertKind, BasicBlockData, BinOp, Body, BorrowKind, CastKind, Const as MirConst,
    ConstOperand, Operand, Place, ProjectionElem, Rvalue, StatementKind, TerminatorKind, UnOp,
};
use rustc_middle::ty::{self, GenericArgKind, Instance, Ty, TyCtxt, TypingEnv};
use std::fmt::Write as _;

fn esc(s: &str) -> String {
    let mut o = String::with_capacity(s.len() + 2);
    o.push('"');
    for c in s.chars() {
        match c {
            '"' => o.push_str("\\\""),
            '\\' => o.push_str("\\\\"),
            '\n' => o.push_str("\\n"),
            '\r' => o.push_str("\\r"),
            '\t' => o.push_str("\\t"),
            c if (c as u32) < 0x20 => {
                let _ = write!(o, "\\u{:04x}", c as u32);
            }
            c => o.push(c),
        }
    }
    o.push('"');
    o
}

struct Cx<'tcx> {
    tcx: TyCtxt<'tcx>,
}

impl<'tcx> Cx<'tcx> {
    fn path(&self, did: DefId) -> String {
        // crate-qualified def path, stable across line edits
        self.tcx.def_path_str(did)
    }

    fn ty(&self, t: Ty<'tcx>) -> String {
        let tcx = self.tcx;
        match t.kind() {
            ty::Bool => "{\"k\":\"bool\"}".into(),
            ty::Char => "{\"k\":\"char\"}".into(),
            ty::Int(i) => {
                let bits = i.bit_width().unwrap_or(64);
                format!("{{\"k\":\"int\",\"bits\":{},\"name\":{}}}", bits, esc(i.name_str()))
            }
            ty::Uint(u) => {
                let bits = u.bit_width().unwrap_or(64);
                format!("{{\"k\":\"uint\",\"bits\":{},\"name\":{}}}", bits, esc(u.name_str()))
            }
            ty::Float(f) => format!("{{\"k\":\"float\",\"bits\":{}}}", f.bit_width()),
            ty::Ref(_, inner, m) => format!(
                "{{\"k\":\"ref\",\"mut\":{},\"to\":{}}}",
                m.is_mut(),
                self.ty(*inner)
            ),
            ty::RawPtr(inner, m) => format!(
                "{{\"k\":\"ptr\",\"mut\":{},\"to\":{}}}",
                m.is_mut(),
                self.ty(*inner)
            ),
            ty::Slice(e) => format!("{{\"k\":\"slice\",\"elem\":{}}}", self.ty(*e)),
            ty::Str => "{\"k\":\"str\"}".into(),
            ty::Array(e, n) => {
                let len = n.try_to_target_usize(tcx);
                format!(
                    "{{\"k\":\"array\",\"elem\":{},\"len\":{}}}",
                    self.ty(*e),
                    match len {
                        Some(v) => v.to_string(),
                        None => esc(&format!("{}", n)),
                    }
                )
            }
            ty::Tuple(ts) => {
                let v: Vec<String> = ts.iter().map(|t| self.ty(t)).collect();
                format!("{{\"k\":\"tuple\",\"elems\":[{}]}}", v.join(","))
            }
            ty::Adt(def, args) => format!(
                "{{\"k\":\"adt\",\"path\":{},\"args\":{},\"s\":{}}}",
                esc(&self.path(def.did())),
                self.gargs(args),
                esc(&format!("{}", t))
            ),
            ty::FnDef(did, args) => format!(
                "{{\"k\":\"fndef\",\"path\":{},\"args\":{}}}",
                esc(&self.path(*did)),
                self.gargs(args)
            ),
            ty::Closure(did, _) => format!("{{\"k\":\"closure\",\"path\":{}}}", esc(&self.path(*did))),
            ty::Param(p) => format!("{{\"k\":\"param\",\"name\":{}}}", esc(p.name.as_str())),
            ty::Never => "{\"k\":\"never\"}".into(),
            _ => format!("{{\"k\":\"other\",\"s\":{}}}", esc(&format!("{}", t))),
        }
    }

    fn gargs(&self, args: ty::GenericArgsRef<'tcx>) -> String {
        let mut v = Vec::new();
        for a in args.iter() {
            match a.kind() {
                GenericArgKind::Type(t) => v.push(self.ty(t)),
                GenericArgKind::Const(c) => {
                    let s = match c.try_to_target_usize(self.tcx) {
                        Some(n) => format!("{{\"k\":\"const\",\"val\":{}}}", n),
                        None => format!("{{\"k\":\"const\",\"s\":{}}}", esc(&format!("{}", c))),
                    };
                    v.push(s)
                }
                GenericArgKind::Lifetime(_) => {}
            }
        }
        format!("[{}]", v.join(","))
    }

    fn place(&self, p: &Place<'tcx>) -> String {
        let mut proj = Vec::new();
        for e in p.projection.iter() {
            let s = match e {
                ProjectionElem::Deref => "{\"k\":\"deref\"}".to_string(),
                ProjectionElem::Field(f, t) => {
                    format!("{{\"k\":\"field\",\"i\":{},\"ty\":{}}}", f.as_usize(), self.ty(t))
                }
                ProjectionElem::Index(l) => format!("{{\"k\":\"index\",\"local\":{}}}", l.as_usize()),
                ProjectionElem::ConstantIndex { offset, min_length, from_end } => format!(
                    "{{\"k\":\"constindex\",\"offset\":{},\"min_length\":{},\"from_end\":{}}}",
                    offset, min_length, from_end
                ),
                ProjectionElem::Subslice { from, to, from_end } => format!(
                    "{{\"k\":\"subslice\",\"from\":{},\"to\":{},\"from_end\":{}}}",
                    from, to, from_end
                ),
                ProjectionElem::Downcast(name, v) => format!(
                    "{{\"k\":\"downcast\",\"variant\":{},\"name\":{}}}",
                    v.as_usize(),
                    match name {
                        Some(n) => esc(n.as_str()),
                        None => "null".into(),
                    }
                ),
                ProjectionElem::OpaqueCast(_) => "{\"k\":\"opaquecast\"}".to_string(),
                ProjectionElem::UnwrapUnsafeBinder(_) => "{\"k\":\"unwrapbinder\"}".to_string(),
            };
            proj.push(s);
        }
        format!("{{\"local\":{},\"proj\":[{}]}}", p.local.as_usize(), proj.join(","))
    }

    fn constant(&self, c: &ConstOperand<'tcx>, env: TypingEnv<'tcx>) -> String {
        let tcx = self.tcx;
        let t = c.const_.ty();
        let tys = self.ty(t);
        if let ty::FnDef(did, args) = t.kind() {
            return format!(
                "{{\"k\":\"const\",\"ty\":{},\"fn\":{},\"fnargs\":{}}}",
                tys,
                esc(&self.path(*did)),
                self.gargs(args)
            );
        }
        let scalar_ok = matches!(t.kind(), ty::Bool | ty::Char | ty::Int(_) | ty::Uint(_) | ty::Float(_));
        if scalar_ok {
            if let Some(si) = c.const_.try_eval_scalar_int(tcx, env) {
                let bits = si.to_bits_unchecked();
                let size = si.size().bytes();
                // signed interpretation for ints
                let sval: String = match t.kind() {
                    ty::Int(_) => {
                        let b = size * 8;
                        let v = if b >= 128 {
                            bits as i128
                        } else {
                            let sh = 128 - b as u32;
                            ((bits << sh) as i128) >> sh
                        };
                        v.to_string()
                    }
                    _ => bits.to_string(),
                };
                return format!(
                    "{{\"k\":\"const\",\"ty\":{},\"bits\":{},\"val\":{},\"size\":{}}}",
                    tys, bits, sval, size
                );
            }
        }
        let kind = match c.const_ {
            MirConst::Ty(..) => "ty",
            MirConst::Unevaluated(u, _) => {
                if u.promoted.is_some() {
                    "promoted"
                } else {
                    "uneval"
                }
            }
            MirConst::Val(..) => "val",
        };
        let mut extra = String::new();
        if let MirConst::Unevaluated(u, _) = c.const_ {
            let _ = write!(extra, ",\"def\":{}", esc(&self.path(u.def)));
            if let Some(p) = u.promoted {
                let _ = write!(extra, ",\"promoted\":{}", p.as_usize());
            }
        }
        format!(
            "{{\"k\":\"const\",\"ty\":{},\"ck\":{},\"s\":{}{}}}",
            tys,
            esc(kind),
            esc(&format!("{}", c.const_)),
            extra
        )
    }

    fn operand(&self, o: &Operand<'tcx>, env: TypingEnv<'tcx>) -> String {
        match o {
            Operand::Copy(p) => format!("{{\"k\":\"copy\",\"place\":{}}}", self.place(p)),
            Operand::Move(p) => format!("{{\"k\":\"move\",\"place\":{}}}", self.place(p)),
            Operand::Constant(c) => self.constant(c, env),
            #[allow(unreachable_patterns)]
            _ => format!("{{\"k\":\"otherop\",\"s\":{}}}", esc(&format!("{:?}", o))),
        }
    }

    fn binop(op: BinOp) -> &'static str {
        match op {
            BinOp::Add => "Add",
            BinOp::AddUnchecked => "AddUnchecked",
            BinOp::AddWithOverflow => "AddWithOverflow",
            BinOp::Sub => "Sub",
            BinOp::SubUnchecked => "SubUnchecked",
            BinOp::SubWithOverflow => "SubWithOverflow",
            BinOp::Mul => "Mul",
            BinOp::MulUnchecked => "MulUnchecked",
            BinOp::MulWithOverflow => "MulWithOverflow",
            BinOp::Div => "Div",
            BinOp::Rem => "Rem",
            BinOp::BitXor => "BitXor",
            BinOp::BitAnd => "BitAnd",
            BinOp::BitOr => "BitOr",
            BinOp::Shl => "Shl",
            BinOp::ShlUnchecked => "ShlUnchecked",
            BinOp::Shr => "Shr",
            BinOp::ShrUnchecked => "ShrUnchecked",
            BinOp::Eq => "Eq",
            BinOp::Lt => "Lt",
            BinOp::Le => "Le",
            BinOp::Ne => "Ne",
            BinOp::Ge => "Ge",
            BinOp::Gt => "Gt",
            BinOp::Cmp => "Cmp",
            BinOp::Offset => "Offset",
        }
    }

    fn rvalue(&self, rv: &Rvalue<'tcx>, env: TypingEnv<'tcx>) -> String {
        match rv {
            Rvalue::Use(op, _) => format!("{{\"k\":\"use\",\"op\":{}}}", self.operand(op, env)),
            Rvalue::Repeat(op, n) => format!(
                "{{\"k\":\"repeat\",\"op\":{},\"count\":{}}}",
                self.operand(op, env),
                match n.try_to_target_usize(self.tcx) {
                    Some(v) => v.to_string(),
                    None => esc(&format!("{}", n)),
                }
            ),
            Rvalue::Ref(_, bk, p) => format!(
                "{{\"k\":\"ref\",\"mut\":{},\"place\":{}}}",
                matches!(bk, BorrowKind::Mut { .. }),
                self.place(p)
            ),
            Rvalue::RawPtr(_, p) => format!("{{\"k\":\"rawptr\",\"place\":{}}}", self.place(p)),
            Rvalue::Cast(kind, op, t) => {
                let ks = match kind {
                    CastKind::IntToInt => "IntToInt".to_string(),
                    CastKind::FloatToInt => "FloatToInt".to_string(),
                    CastKind::FloatToFloat => "FloatToFloat".to_string(),
                    CastKind::IntToFloat => "IntToFloat".to_string(),
                    CastKind::PtrToPtr => "PtrToPtr".to_string(),
                    CastKind::Transmute => "Transmute".to_string(),
                    CastKind::PointerCoercion(pc, _) => format!("PointerCoercion:{:?}", pc),
                    other => format!("{:?}", other),
                };
                format!(
                    "{{\"k\":\"cast\",\"kind\":{},\"op\":{},\"ty\":{}}}",
                    esc(&ks),
                    self.operand(op, env),
                    self.ty(*t)
                )
            }
            Rvalue::BinaryOp(op, ab) => format!(
                "{{\"k\":\"binop\",\"op\":{},\"a\":{},\"b\":{}}}",
                esc(Self::binop(*op)),
                self.operand(&ab.0, env),
                self.operand(&ab.1, env)
            ),
            Rvalue::UnaryOp(op, a) => format!(
                "{{\"k\":\"unop\",\"op\":{},\"a\":{}}}",
                esc(match op {
                    UnOp::Not => "Not",
                    UnOp::Neg => "Neg",
                    UnOp::PtrMetadata => "PtrMetadata",
                }),
                self.operand(a, env)
            ),
            Rvalue::Discriminant(p) => format!("{{\"k\":\"discr\",\"place\":{}}}", self.place(p)),
            Rvalue::Aggregate(kind, ops) => {
                let opss: Vec<String> = ops.iter().map(|o| self.operand(o, env)).collect();
                let ks = match &**kind {
                    AggregateKind::Array(t) => format!("\"agg\":\"array\",\"elem\":{}", self.ty(*t)),
                    AggregateKind::Tuple => "\"agg\":\"tuple\"".to_string(),
                    AggregateKind::Adt(did, variant, args, _, _) => {
                        let adt = self.tcx.adt_def(*did);
                        let v = adt.variant(*variant);
                        format!(
                            "\"agg\":\"adt\",\"path\":{},\"variant\":{},\"vname\":{},\"args\":{},\"is_enum\":{}",
                            esc(&self.path(*did)),
                            variant.as_usize(),
                            esc(v.name.as_str()),
                            self.gargs(args),
                            adt.is_enum()
                        )
                    }
                    AggregateKind::Closure(did, _) => {
                        format!("\"agg\":\"closure\",\"path\":{}", esc(&self.path(*did)))
                    }
                    AggregateKind::RawPtr(..) => "\"agg\":\"rawptr\"".to_string(),
                    _ => "\"agg\":\"other\"".to_string(),
                };
                format!("{{\"k\":\"aggregate\",{},\"ops\":[{}]}}", ks, opss.join(","))
            }
            Rvalue::CopyForDeref(p) => format!("{{\"k\":\"use\",\"op\":{{\"k\":\"copy\",\"place\":{}}}}}", self.place(p)),
            other => format!("{{\"k\":\"other\",\"s\":{}}}", esc(&format!("{:?}", other))),
        }
    }

    fn loc(&self, span: rustc_span::Span) -> String {
        let sm = self.tcx.sess.source_map();
        let lo = sm.lookup_char_pos(span.lo());
        let file = format!("{}", lo.file.name.prefer_local_unconditionally());
        format!(
            "{{\"file\":{},\"line\":{},\"exp\":{}}}",
            esc(&file),
            lo.line,
            span.from_expansion()
        )
    }

    fn callsite_loc(&self, span: rustc_span::Span) -> String {
        // location of the outermost macro call site (where the user wrote it)
        let cs = span.source_callsite();
        self.loc(cs)
    }

    fn block(&self, body: &Body<'tcx>, bb: &BasicBlockData<'tcx>, env: TypingEnv<'tcx>) -> String {
        let tcx = self.tcx;
        let mut stmts = Vec::new();
        for s in &bb.statements {
            match &s.kind {
                StatementKind::Assign(b) => {
                    let (p, rv) = &**b;
                    stmts.push(format!(
                        "{{\"k\":\"assign\",\"place\":{},\"rv\":{},\"line\":{}}}",
                        self.place(p),
                        self.rvalue(rv, env),
                        tcx.sess.source_map().lookup_char_pos(s.source_info.span.lo()).line
                    ));
                }
                StatementKind::SetDiscriminant { place, variant_index } => {
                    stmts.push(format!(
                        "{{\"k\":\"setdiscr\",\"place\":{},\"variant\":{}}}",
                        self.place(place),
                        variant_index.as_usize()
                    ));
                }
                StatementKind::Intrinsic(i) => {
                    stmts.push(format!("{{\"k\":\"intrinsic\",\"s\":{}}}", esc(&format!("{:?}", i))));
                }
                _ => {}
            }
        }
        let term = bb.terminator();
        let tl = tcx.sess.source_map().lookup_char_pos(term.source_info.span.lo()).line;
        let texp = term.source_info.span.from_expansion();
        let t = match &term.kind {
            TerminatorKind::Goto { target } => format!("{{\"k\":\"goto\",\"target\":{}}}", target.as_usize()),
            TerminatorKind::SwitchInt { discr, targets } => {
                let mut arms = Vec::new();
                for (v, b) in targets.iter() {
                    arms.push(format!("[{},{}]", v, b.as_usize()));
                }
                let dty = discr.ty(&body.local_decls, tcx);
                format!(
                    "{{\"k\":\"switch\",\"discr\":{},\"dty\":{},\"arms\":[{}],\"otherwise\":{},\"line\":{}}}",
                    self.operand(discr, env),
                    self.ty(dty),
                    arms.join(","),
                    targets.otherwise().as_usize(),
                    tl
                )
            }
            TerminatorKind::Return => "{\"k\":\"return\"}".to_string(),
            TerminatorKind::Unreachable => "{\"k\":\"unreachable\"}".to_string(),
            TerminatorKind::UnwindResume => "{\"k\":\"resume\"}".to_string(),
            TerminatorKind::UnwindTerminate(_) => "{\"k\":\"terminate\"}".to_string(),
            TerminatorKind::Drop { place, target, .. } => format!(
                "{{\"k\":\"drop\",\"place\":{},\"target\":{}}}",
                self.place(place),
                target.as_usize()
            ),
            TerminatorKind::Assert { cond, expected, msg, target, .. } => {
                let (kind, ops): (String, Vec<String>) = match &**msg {
                    AssertKind::BoundsCheck { len, index } => (
                        "BoundsCheck".into(),
                        vec![self.operand(len, env), self.operand(index, env)],
                    ),
                    AssertKind::Overflow(op, a, b) => (
                        format!("Overflow:{}", Self::binop(*op)),
                        vec![self.operand(a, env), self.operand(b, env)],
                    ),
                    AssertKind::OverflowNeg(a) => ("OverflowNeg".into(), vec![self.operand(a, env)]),
                    AssertKind::DivisionByZero(a) => ("DivisionByZero".into(), vec![self.operand(a, env)]),
                    AssertKind::RemainderByZero(a) => ("RemainderByZero".into(), vec![self.operand(a, env)]),
                    other => (format!("{:?}", other), vec![]),
                };
                format!(
                    "{{\"k\":\"assert\",\"cond\":{},\"expected\":{},\"kind\":{},\"ops\":[{}],\"target\":{},\"line\":{},\"exp\":{}}}",
                    self.operand(cond, env),
                    expected,
                    esc(&kind),
                    ops.join(","),
                    target.as_usize(),
                    tl,
                    texp
                )
            }
            TerminatorKind::Call { func, args, destination, target, fn_span, .. } => {
                let fty = func.ty(&body.local_decls, tcx);
                let mut callee = "null".to_string();
                let mut cargs = "[]".to_string();
                let mut resolved = "null".to_string();
                let mut rargs = "[]".to_string();
                let mut rkind = "null".to_string();
                if let ty::FnDef(did, gargs) = fty.kind() {
                    callee = esc(&self.path(*did));
                    cargs = self.gargs(gargs);
                    if let Ok(Some(inst)) = Instance::try_resolve(tcx, env, *did, gargs) {
                        let rd = inst.def_id();
                        resolved = esc(&self.path(rd));
                        rargs = self.gargs(inst.args);
                        rkind = esc(match inst.def {
                            ty::InstanceKind::Item(_) => "item",
                            ty::InstanceKind::Intrinsic(_) => "intrinsic",
                            ty::InstanceKind::Virtual(..) => "virtual",
                            ty::InstanceKind::ClosureOnceShim { .. } => "closure_once_shim",
                            ty::InstanceKind::FnPtrShim(..) => "fnptr_shim",
                            ty::InstanceKind::DropGlue(..) => "drop_glue",
                            ty::InstanceKind::CloneShim(..) => "clone_shim",
                            _ => "othershim",
                        });
                    }
                }
                let a: Vec<String> = args.iter().map(|a| self.operand(&a.node, env)).collect();
                format!(
                    "{{\"k\":\"call\",\"callee\":{},\"cargs\":{},\"resolved\":{},\"rargs\":{},\"rkind\":{},\"fnop\":{},\"args\":[{}],\"dest\":{},\"target\":{},\"line\":{},\"exp\":{},\"site\":{}}}",
                    callee,
                    cargs,
                    resolved,
                    rargs,
                    rkind,
                    self.operand(func, env),
                    a.join(","),
                    self.place(destination),
                    match target {
                        Some(t) => t.as_usize().to_string(),
                        None => "null".into(),
                    },
                    tl,
                    texp,
                    self.callsite_loc(*fn_span)
                )
            }
            TerminatorKind::FalseEdge { real_target, .. } => {
                format!("{{\"k\":\"goto\",\"target\":{}}}", real_target.as_usize())
            }
            TerminatorKind::FalseUnwind { real_target, .. } => {
                format!("{{\"k\":\"goto\",\"target\":{}}}", real_target.as_usize())
            }
            other => format!("{{\"k\":\"otherterm\",\"s\":{}}}", esc(&format!("{:?}", other))),
        };
        format!(
            "{{\"stmts\":[{}],\"term\":{},\"cleanup\":{}}}",
            stmts.join(","),
            t,
            bb.is_cleanup
        )
    }

    fn function(&self, did: DefId, out: &mut String) {
        let tcx = self.tcx;
        let body = tcx.optimized_mir(did);
        let env = TypingEnv::post_analysis(tcx, did);
        let span = tcx.def_span(did);
        let mut locals = Vec::new();
        for d in body.local_decls.iter() {
            locals.push(self.ty(d.ty));
        }
        let mut dbg = Vec::new();
        for v in &body.var_debug_info {
            if let rustc_middle::mir::VarDebugInfoContents::Place(p) = &v.value {
                dbg.push(format!("[{},{}]", esc(v.name.as_str()), self.place(p)));
            }
        }
        let blocks: Vec<String> = body
            .basic_blocks
            .iter()
            .map(|bb| self.block(body, bb, env))
            .collect();
        let generics = tcx.generics_of(did);
        let mut gnames = Vec::new();
        for i in 0..generics.count() {
            let p = generics.param_at(i, tcx);
            gnames.push(esc(p.name.as_str()));
        }
        // the impl this fn belongs to (trait + self type), if any
        let mut implinfo = "null".to_string();
        if matches!(tcx.def_kind(did), DefKind::AssocFn) {
            let parent = tcx.parent(did);
            if let DefKind::Impl { of_trait } = tcx.def_kind(parent) {
                let selfty = tcx.type_of(parent).instantiate_identity().skip_norm_wip();
                let tr = if of_trait {
                    let tref = tcx.impl_trait_ref(parent).instantiate_identity().skip_norm_wip();
                    esc(&self.path(tref.def_id))
                } else {
                    "null".into()
                };
                implinfo = format!(
                    "{{\"trait\":{},\"self\":{},\"impl\":{}}}",
                    tr,
                    self.ty(selfty),
                    esc(&self.path(parent))
                );
            }
        }
        let vis_pub = match tcx.def_kind(did) {
            DefKind::Fn | DefKind::AssocFn => tcx.visibility(did).is_public(),
            _ => false,
        };
        let _ = writeln!(
            out,
            "{{\"rec\":\"fn\",\"path\":{},\"kind\":{},\"loc\":{},\"site\":{},\"argc\":{},\"generics\":[{}],\"impl\":{},\"pub\":{},\"locals\":[{}],\"debug\":[{}],\"blocks\":[{}]}}",
            esc(&self.path(did)),
            esc(&format!("{:?}", tcx.def_kind(did))),
            self.loc(span),
            self.callsite_loc(span),
            body.arg_count,
            gnames.join(","),
            implinfo,
            vis_pub,
            locals.join(","),
            dbg.join(","),
            blocks.join(",")
        );
        // promoted constants of this body (e.g. `&(1..=64)`): small bodies that build the referenced value
        let promoted = tcx.promoted_mir(did);
        for (pi, pbody) in promoted.iter_enumerated() {
            if pbody.basic_blocks.len() > 8 {
                continue;
            }
            let mut plocals = Vec::new();
            for d in pbody.local_decls.iter() {
                plocals.push(self.ty(d.ty));
            }
            let pblocks: Vec<String> = pbody
                .basic_blocks
                .iter()
                .map(|bb| self.block(pbody, bb, env))
                .collect();
            let _ = writeln!(
                out,
                "{{\"rec\":\"promoted\",\"path\":{},\"def\":{},\"index\":{},\"locals\":[{}],\"blocks\":[{}]}}",
                esc(&format!("{}::promoted[{}]", self.path(did), pi.as_usize())),
                esc(&self.path(did)),
                pi.as_usize(),
                plocals.join(","),
                pblocks.join(",")
            );
        }
    }

    fn adts_and_impls(&self, out: &mut String) {
        let tcx = self.tcx;
        let items = tcx.hir_crate_items(());
        for id in items.definitions() {
            let did = id.to_def_id();
            match tcx.def_kind(did) {
                DefKind::Struct | DefKind::Enum | DefKind::Union => {
                    let adt = tcx.adt_def(did);
                    let mut vs = Vec::new();
                    for (vi, v) in adt.variants().iter_enumerated() {
                        let discr = if adt.is_enum() {
                            adt.discriminant_for_variant(tcx, vi).val.to_string()
                        } else {
                            "null".to_string()
                        };
                        let mut fs = Vec::new();
                        for f in &v.fields {
                            let fty = tcx.type_of(f.did).instantiate_identity().skip_norm_wip();
                            fs.push(format!(
                                "{{\"name\":{},\"ty\":{},\"pub\":{},\"attrs\":[{}]}}",
                                esc(f.name.as_str()),
                                self.ty(fty),
                                f.vis.is_public(),
                                self.attr_strings(f.did).join(",")
                            ));
                        }
                        vs.push(format!(
                            "{{\"name\":{},\"idx\":{},\"discr\":{},\"fields\":[{}],\"attrs\":[{}]}}",
                            esc(v.name.as_str()),
                            vi.as_usize(),
                            discr,
                            fs.join(","),
                            if adt.is_enum() { self.attr_strings(v.def_id).join(",") } else { String::new() }
                        ));
                    }
                    let attrs = self.attr_strings(did);
                    let _ = writeln!(
                        out,
                        "{{\"rec\":\"adt\",\"path\":{},\"kind\":{},\"repr\":{},\"loc\":{},\"variants\":[{}],\"attrs\":[{}]}}",
                        esc(&self.path(did)),
                        esc(&format!("{:?}", tcx.def_kind(did))),
                        esc(&format!("{:?}", adt.repr().int)),
                        self.loc(tcx.def_span(did)),
                        vs.join(","),
                        attrs.join(",")
                    );
                }
                DefKind::Impl { of_trait } => {
                    let selfty = tcx.type_of(did).instantiate_identity().skip_norm_wip();
                    let tr = if of_trait {
                        let tref = tcx.impl_trait_ref(did).instantiate_identity().skip_norm_wip();
                        esc(&self.path(tref.def_id))
                    } else {
                        "null".into()
                    };
                    let derived = tcx.is_automatically_derived(did);
                    let mut methods = Vec::new();
                    for &m in tcx.associated_item_def_ids(did) {
                        methods.push(esc(&self.path(m)));
                    }
                    let _ = writeln!(
                        out,
                        "{{\"rec\":\"impl\",\"path\":{},\"trait\":{},\"self\":{},\"derived\":{},\"loc\":{},\"items\":[{}]}}",
                        esc(&self.path(did)),
                        tr,
                        self.ty(selfty),
                        derived,
                        self.loc(tcx.def_span(did)),
                        methods.join(",")
                    );
                }
                DefKind::Const { .. } => {
                    // named constants with integer value (capacities)
                    let t = tcx.type_of(did).instantiate_identity().skip_norm_wip();
                    if !matches!(t.kind(), ty::Uint(_) | ty::Int(_)) && tcx.generics_of(did).count() == 0 && did.is_local() && tcx.is_mir_available(did) {
                        // aggregate constants (e.g. a named Range): export the small body that builds them
                        let cbody = tcx.mir_for_ctfe(did);
                        if cbody.basic_blocks.len() <= 4096 {
                            let env = TypingEnv::post_analysis(tcx, did);
                            let mut plocals = Vec::new();
                            for d in cbody.local_decls.iter() {
                                plocals.push(self.ty(d.ty));
                            }
                            let pblocks: Vec<String> = cbody.basic_blocks.iter().map(|bb| self.block(cbody, bb, env)).collect();
                            let _ = writeln!(
                                out,
                                "{{\"rec\":\"constbody\",\"path\":{},\"ty\":{},\"locals\":[{}],\"blocks\":[{}]}}",
                                esc(&self.path(did)),
                                self.ty(t),
                                plocals.join(","),
                                pblocks.join(",")
                            );
                            // the constant's own promoted values (e.g. the array behind a `&[..]` table)
                            let promoted = tcx.promoted_mir(did);
                            for (pi, pbody) in promoted.iter_enumerated() {
                                if pbody.basic_blocks.len() > 8 {
                                    continue;
                                }
                                let mut ql = Vec::new();
                                for d in pbody.local_decls.iter() {
                                    ql.push(self.ty(d.ty));
                                }
                                let qb: Vec<String> = pbody.basic_blocks.iter().map(|bb| self.block(pbody, bb, env)).collect();
                                let _ = writeln!(
                                    out,
                                    "{{\"rec\":\"promoted\",\"path\":{},\"def\":{},\"index\":{},\"locals\":[{}],\"blocks\":[{}]}}",
                                    esc(&format!("{}::promoted[{}]", self.path(did), pi.as_usize())),
                                    esc(&self.path(did)),
                                    pi.as_usize(),
                                    ql.join(","),
                                    qb.join(",")
                                );
                            }
                        }
                    }
                    if matches!(t.kind(), ty::Uint(_) | ty::Int(_)) && tcx.generics_of(did).count() == 0 {
                        if let Ok(v) = tcx.const_eval_poly(did) {
                            if let Some(s) = v.try_to_scalar_int() {
                                let _ = writeln!(
                                    out,
                                    "{{\"rec\":\"const\",\"path\":{},\"ty\":{},\"bits\":{}}}",
                                    esc(&self.path(did)),
                                    self.ty(t),
                                    s.to_bits_unchecked()
                                );
                            }
                        }
                    }
                }
                _ => {}
            }
        }
    }

    fn attr_strings(&self, did: DefId) -> Vec<String> {
        // raw text of the unparsed (tool / derive-helper) attributes of an item; serde's live here
        let tcx = self.tcx;
        let mut v = Vec::new();
        if let Some(ldid) = did.as_local() {
            let hid = tcx.local_def_id_to_hir_id(ldid);
            for a in tcx.hir_attrs(hid) {
                if let rustc_hir::Attribute::Unparsed(u) = a {
                    match tcx.sess.source_map().span_to_snippet(u.span) {
                        Ok(s) => v.push(esc(&s)),
                        Err(_) => {
                            let segs: Vec<String> = u.path.segments.iter().map(|s| s.to_string()).collect();
                            v.push(esc(&format!("#[{}..]", segs.join("::"))))
                        }
                    }
                }
            }
        }
        v
    }
}

struct Cb {
    out: String,
    helper: Vec<String>,
}

/// Walks the expanded AST and records derive-helper attributes (`#[serde(..)]`), which do not survive to HIR.
struct AttrWalk {
    path: Vec<String>,
    out: Vec<String>,
}

impl AttrWalk {
    fn attrs(&mut self, what: &str, name: &str, attrs: &[rustc_ast::Attribute]) {
        for a in attrs {
            if let rustc_ast::AttrKind::Normal(n) = &a.kind {
                let segs: Vec<String> = n.item.path.segments.iter().map(|s| s.ident.name.to_string()).collect();
                if segs.len() == 1 && segs[0] == "serde" {
                    let txt = rustc_ast_pretty::pprust::attribute_to_string(a);
                    self.out.push(format!(
                        "{{\"rec\":\"helper_attr\",\"item\":{},\"on\":{},\"name\":{},\"text\":{}}}",
                        esc(&self.path.join("::")),
                        esc(what),
                        esc(name),
                        esc(&txt)
                    ));
                }
            }
        }
    }
    fn variant_data(&mut self, vd: &rustc_ast::VariantData) {
        for (i, f) in vd.fields().iter().enumerate() {
            let n = f.ident.map(|x| x.name.to_string()).unwrap_or_else(|| i.to_string());
            self.attrs("field", &n, &f.attrs);
        }
    }
    fn item(&mut self, it: &rustc_ast::Item) {
        use rustc_ast::ItemKind;
        match &it.kind {
            ItemKind::Mod(_, ident, rustc_ast::ModKind::Loaded(items, ..)) => {
                self.path.push(ident.name.to_string());
                for i in items {
                    self.item(i);
                }
                self.path.pop();
            }
            ItemKind::Struct(ident, _, vd) | ItemKind::Union(ident, _, vd) => {
                self.path.push(ident.name.to_string());
                self.attrs("item", "", &it.attrs);
                self.variant_data(vd);
                self.path.pop();
            }
            ItemKind::Enum(ident, _, def) => {
                self.path.push(ident.name.to_string());
                self.attrs("item", "", &it.attrs);
                for v in &def.variants {
                    self.attrs("variant", &v.ident.name.to_string(), &v.attrs);
                    self.path.push(v.ident.name.to_string());
                    self.variant_data(&v.data);
                    self.path.pop();
                }
                self.path.pop();
            }
            _ => {}
        }
    }
}

impl rustc_driver::Callbacks for Cb {
    fn after_expansion<'tcx>(&mut self, _c: &Compiler, tcx: TyCtxt<'tcx>) -> Compilation {
        let steal = tcx.resolver_for_lowering();
        let guard = steal.borrow();
        let krate = &guard.1;
        let mut w = AttrWalk { path: Vec::new(), out: Vec::new() };
        for it in &krate.items {
            w.item(it);
        }
        self.helper = w.out;
        Compilation::Continue
    }

    fn after_analysis<'tcx>(&mut self, _c: &Compiler, tcx: TyCtxt<'tcx>) -> Compilation {
        let cx = Cx { tcx };
        let mut out = String::new();
        let cname = tcx.crate_name(LOCAL_CRATE);
        let _ = writeln!(
            out,
            "{{\"rec\":\"crate\",\"name\":{},\"overflow_checks\":{},\"extern_crates\":[{}],\"features\":[{}]}}",
            esc(cname.as_str()),
            tcx.sess.overflow_checks(),
            {
                let mut v: Vec<String> = tcx.crates(()).iter().map(|c| esc(tcx.crate_name(*c).as_str())).collect();
                v.sort();
                v.join(",")
            },
            {
                let mut f: Vec<String> = tcx
                    .sess
                    .config
                    .iter()
                    .filter_map(|(k, v)| {
                        if k.as_str() == "feature" {
                            v.map(|v| esc(v.as_str()))
                        } else {
                            None
                        }
                    })
                    .collect();
                f.sort();
                f.join(",")
            }
        );
        for h in &self.helper {
            let _ = writeln!(out, "{}", h);
        }
        cx.adts_and_impls(&mut out);
        let mut n = 0usize;
        for &ldid in tcx.mir_keys(()) {
            let did = ldid.to_def_id();
            match tcx.def_kind(did) {
                DefKind::Fn | DefKind::AssocFn | DefKind::Closure => {}
                _ => continue,
            }
            // skip test-generation machinery (not in any property's scope)
            let p = cx.path(did);
            let last = p.rsplit("::").next().unwrap_or("");
            if last == "generate" || last == "to_source" || p.contains("val_gen") || p.contains("source_repr") {
                // keep build_generated_message (C12 twin) - it is not named `generate`
                continue;
            }
            if !tcx.is_mir_available(did) {
                continue;
            }
            cx.function(did, &mut out);
            n += 1;
        }
        let _ = writeln!(out, "{{\"rec\":\"end\",\"functions\":{}}}", n);
        self.out = out;
        Compilation::Continue
    }
}

fn main() {
    let mut args: Vec<String> = std::env::args().collect();
    // RUSTC_WORKSPACE_WRAPPER: argv[1] is the real rustc path
    if args.len() > 1 && (args[1].ends_with("rustc") || args[1].contains("/rustc")) {
        args.remove(1);
    }
    let want = std::env::var("MIRFACTS_CRATE").unwrap_or_else(|_| "rtcm_rs".to_string());
    let mut crate_name = String::new();
    let mut i = 0;
    while i < args.len() {
        if args[i] == "--crate-name" && i + 1 < args.len() {
            crate_name = args[i + 1].clone();
        }
        i += 1;
    }
    let is_target = crate_name == want && std::env::var("MIRFACTS_OUT").is_ok();
    if !is_target {
        struct Nop;
        impl rustc_driver::Callbacks for Nop {}
        rustc_driver::run_compiler(&args, &mut Nop);
        return;
    }
    let mut cb = Cb { out: String::new(), helper: Vec::new() };
    rustc_driver::run_compiler(&args, &mut cb);
    if !cb.out.is_empty() {
        let path = std::env::var("MIRFACTS_OUT").unwrap();
        std::fs::write(&path, cb.out).expect("write facts");
    }
}
