"""Evaluation of Message::from_message_frame per scenario (engine T-sem, used where the dispatch template of dispatch.py does not match).

The function may look at the frame only through message_number() and data(), at the number only by matching it against literals (or
moving it into MsgNotSupported), and at a decoder's result only through Ok / Err.  Under that discipline - anything else makes the run
undecided - its result is a function of  (number: None | one of the literals | anything else,  decoder outcome: Ok | Err), and running the
body once per combination decides the dispatch table:

    number None                  -> Message::Empty, no decoder called
    number n with an arm, Ok(v)  -> the variant of n carrying exactly v, v = the result of the one decoder called, given the parser built
                                    from data() at bit 12
    number n with an arm, Err    -> Message::Corrupt (same single decoder call)
    any other number m           -> Message::MsgNotSupported { message_number: m }, no decoder called
"""
import bitsem
from bitsem import State, BV, Ref, Adt, Tup, Opaque, Undecided, Panic, Closure
from guardsem import TabInterp

MSG = "msg::message::Message"
OTHER = -1


class NumV(int):
    """the frame's message number: may be matched against literals and moved, nothing else"""
    pass


class DispInterp(TabInterp):
    def __init__(self, prog, f, num, ok, concrete=False):
        TabInterp.__init__(self, prog, f, 64)
        self.choices = {"full": False}
        self.num, self.ok = num, ok
        self.concrete = concrete        # the number is a plain integer: arithmetic, comparisons and table lookups on it are evaluated
        self.decodes = []
        self.parsers = 0
        self.parser_ok = True

    def binop(self, st, op, x, y, tya, dest_ty):
        if isinstance(x, NumV) or isinstance(y, NumV):
            raise Undecided("arithmetic or comparison (%s) on the message number" % op)
        return TabInterp.binop(self, st, op, x, y, tya, dest_ty)

    def compare(self, op, x, y):
        if isinstance(x, NumV) or isinstance(y, NumV):
            raise Undecided("comparison of the message number outside a match")
        return TabInterp.compare(self, op, x, y)

    def cast(self, v, src_ty, dst_ty):
        if isinstance(v, NumV):
            raise Undecided("cast of the message number")
        return TabInterp.cast(self, v, src_ty, dst_ty)

    def _deref(self, st, v):
        for _ in range(4):
            if isinstance(v, Ref) and v.loc[0] == "local":
                v = self._get(st, v.loc)
            else:
                break
        return v

    def call(self, st, t):
        c = t.get("resolved") or t["callee"]
        short = c.rsplit("::", 1)[-1]
        if c == "message_frame::MessageFrame::message_number":
            fr = self._deref(st, self.operand(st, t["args"][0]))
            if not (isinstance(fr, Opaque) and fr.tag == "frame"):
                raise Undecided("message_number() of something that is not the frame argument")
            if self.num is None:
                return Adt("core::option::Option", 0, "None", [])
            return Adt("core::option::Option", 1, "Some", [int(self.num) if self.concrete else NumV(self.num)])
        if c == "message_frame::MessageFrame::data":
            fr = self._deref(st, self.operand(st, t["args"][0]))
            if not (isinstance(fr, Opaque) and fr.tag == "frame"):
                raise Undecided("data() of something that is not the frame argument")
            st.locals[-30] = Opaque("data", ())
            return Ref(("local", -30, (), st.frame))          # a reference to the payload bytes
        if c.startswith("message_frame::MessageFrame::"):
            raise Undecided("from_message_frame reads MessageFrame::%s" % short)
        if c == "df::parser::Parser::new":
            args = [self.operand(st, a) for a in t["args"]]
            src = self._deref(st, args[0])
            off = args[1].concrete() if isinstance(args[1], BV) else args[1]
            self.parsers += 1
            if not (isinstance(src, Opaque) and src.tag == "data" and off == 12):
                self.parser_ok = False
            return Opaque("parser", (self.parsers,))
        if c.startswith("msg::") and short == "decode":
            a = self.operand(st, t["args"][0])
            p = self._deref(st, a)
            if not (isinstance(p, Opaque) and p.tag == "parser"):
                raise Undecided("a decoder is given something other than the parser")
            self.decodes.append(c)
            if self.ok:
                return Adt("core::result::Result", 0, "Ok", [Opaque("decoded", (c, len(self.decodes)))])
            return Adt("core::result::Result", 1, "Err", [Opaque("err", ())])
        if c in ("<core::option::Option<T> as core::ops::Try>::branch",):
            o = self.operand(st, t["args"][0])
            if isinstance(o, Adt) and o.vname == "Some":
                return Adt("core::ops::ControlFlow", 0, "Continue", [o.fields[0]])
            if isinstance(o, Adt) and o.vname == "None":
                return Adt("core::ops::ControlFlow", 1, "Break", [Adt("core::option::Option", 0, "None", [])])
            raise Undecided("`?` on an unknown option")
        if c.endswith("FromResidual<core::option::Option<core::convert::Infallible>>>::from_residual") or \
                (short == "from_residual" and "option::Option" in c):
            return Adt("core::option::Option", 0, "None", [])
        if c in ("core::option::Option::<T>::map_or", "core::option::Option::<T>::unwrap_or", "core::result::Result::<T, E>::unwrap_or",
                 "core::result::Result::<T, E>::map", "core::option::Option::<T>::map", "core::result::Result::<T, E>::map_or",
                 "core::option::Option::<T>::unwrap_or_else", "core::result::Result::<T, E>::unwrap_or_else", "core::result::Result::<T, E>::ok",
                 "core::option::Option::<T>::map_or_else", "core::result::Result::<T, E>::map_or_else", "core::option::Option::<T>::and_then",
                 "core::result::Result::<T, E>::and_then"):
            args = [self.operand(st, a) for a in t["args"]]
            v = args[0]
            if not isinstance(v, Adt):
                raise Undecided("%s of an unknown value" % short)
            has = v.vname in ("Some", "Ok")

            def app(fn, xs):
                if isinstance(fn, Closure):
                    return self.exec_closure(st, fn, xs)
                if isinstance(fn, tuple) and fn and fn[0] == "fn":
                    return self.apply_fn_item(st, fn[1], xs, t)
                raise Undecided("%s with an unmodelled function argument" % short)
            if short == "unwrap_or":
                return v.fields[0] if has else args[1]
            if short == "unwrap_or_else":
                return v.fields[0] if has else app(args[1], [] if v.vname == "None" else [v.fields[0]])
            if short == "map":
                return Adt(v.path, v.variant, v.vname, [app(args[1], [v.fields[0]])]) if has else v
            if short == "map_or":
                return app(args[2], [v.fields[0]]) if has else args[1]
            if short == "map_or_else":
                return app(args[2], [v.fields[0]]) if has else app(args[1], [] if v.vname == "None" else [v.fields[0]])
            if short == "and_then":
                return app(args[1], [v.fields[0]]) if has else v
            if short == "ok":
                return Adt("core::option::Option", 1, "Some", [v.fields[0]]) if has else Adt("core::option::Option", 0, "None", [])
        return TabInterp.call(self, st, t)

    def apply_fn_item(self, st, path, xs, t):
        """a function item passed as a value: a variant constructor (`Message::Msg1005`) or a crate function"""
        adt = self.prog.adts.get(MSG)
        if adt and path.startswith(MSG + "::"):
            vn = path.rsplit("::", 1)[1]
            for v in adt["variants"]:
                if v["name"] == vn:
                    return Adt(MSG, int(v.get("idx", 0)), vn, list(xs))
        f = self.prog.fns.get(path)
        if f is not None:
            return self.exec_fn(st, f, xs)
        raise Undecided("call of the function value %s" % path)


def run(prog, f, num, ok, concrete=False):
    it = DispInterp(prog, f, num, ok, concrete)
    st = State()
    st.locals[-10] = Opaque("frame", ())
    st.locals[1] = Ref(("local", -10, (), st.frame))
    try:
        r = it.run_fn(st)
    except (Undecided, Panic):
        raise
    except Exception as e:
        raise Undecided("internal: %r" % (e,))
    return it, r


def check(prog, path, numbers):
    """-> {'table': {n: {'variant','callee','corrupt_callee'}}, 'problems': [text]}; raises Undecided.
    First under the symbolic discipline (the number only matched against literals).  Where the function computes with the number (a range
    pre-filter, a lookup table indexed by n - 1001), every one of the 4096 values a 12-bit message number can take (N-pres) is evaluated as a
    concrete integer instead - the frame contents and the decoder outcomes stay abstract."""
    try:
        return _check(prog, path, numbers, False)
    except Undecided as e:
        if "message number" not in str(e):
            raise
    return _check(prog, path, numbers, True)


def _check(prog, path, numbers, concrete):
    f = prog.fn(path)
    problems = []
    table = {}
    it, r = run(prog, f, None, True, concrete)
    if not (isinstance(r, Adt) and r.path == MSG and r.vname == "Empty") or it.decodes:
        problems.append("a frame without a message number gives %s (decoders called: %d), expected Message::Empty" % (getattr(r, "vname", r), len(it.decodes)))
    others = [OTHER] if not concrete else [m for m in range(4096) if m not in numbers]
    bad_others = 0
    for m in others:
        it, r = run(prog, f, m, True, concrete)
        okd = isinstance(r, Adt) and r.path == MSG and r.vname == "MsgNotSupported" and r.fields and isinstance(r.fields[0], Adt) and r.fields[0].fields \
            and isinstance(r.fields[0].fields[0], int) and int(r.fields[0].fields[0]) == m and not it.decodes
        if not okd:
            bad_others += 1
            if bad_others <= 3:
                problems.append("a number without an arm%s gives %s, expected MsgNotSupported carrying that number" % (
                    "" if not concrete else " (%d)" % m, getattr(r, "vname", r),))
    for n in sorted(numbers):
        e = {}
        it, r = run(prog, f, n, True, concrete)
        if isinstance(r, Adt) and r.path == MSG and r.vname == "MsgNotSupported":
            problems.append("number %d has no arm" % n)
            continue
        okv = isinstance(r, Adt) and r.path == MSG and r.vname not in ("Empty", "Corrupt", "MsgNotSupported") and len(it.decodes) == 1 and it.parser_ok and it.parsers == 1 \
            and r.fields and isinstance(r.fields[0], Opaque) and r.fields[0].tag == "decoded" and r.fields[0].args[0] == it.decodes[0]
        if not okv:
            problems.append("number %d with a decodable body gives %s (decoder calls %s, parser from data() at bit 12: %s)" % (
                n, getattr(r, "vname", r), it.decodes, it.parser_ok and it.parsers == 1))
            continue
        e["variant"], e["callee"] = r.vname, it.decodes[0]
        it2, r2 = run(prog, f, n, False, concrete)
        if not (isinstance(r2, Adt) and r2.path == MSG and r2.vname == "Corrupt" and it2.decodes == [e["callee"]]):
            problems.append("number %d with an undecodable body gives %s (decoder calls %s), expected Message::Corrupt" % (n, getattr(r2, "vname", r2), it2.decodes))
        else:
            e["corrupt_callee"] = e["callee"]
        table[n] = e
    return {"table": table, "problems": problems}
