"""Inductive abstract interpretation of the frame scanner next_msg_frame(data) (engine S-sem for C05 / C06).

Specification (the `first valid frame` clause): with LEN = data.len(),
    let k be the least position with data[k] == 0xD3 and MessageFrame::new(&data[k..]) != Err(NotValid);
        new(&data[k..]) == Ok(m)            ->  (k + m.frame_len(), Some(m))
        new(&data[k..]) == Err(Incomplete)  ->  (k, None)
    no such k                               ->  (LEN, None)

Proof scheme, independent of how the loop is written (iterator + enumerate, index loop, shrinking suffix slice, ..):
  phase 0  run from the entry to the loop head: state S0                          (returns on the way are judged with K = 0)
  phase 1  run one iteration from S0, take a state S1 that comes back to the loop head and GENERALISE the pair: every component that
           moved from 0 to 1 (an index, the start of a suffix slice, the position and counter of an iterator) becomes the symbolic
           position K, components that did not move stay, anything else is forgotten (reading it later makes the run undecided)
  phase 2  run the loop body once from the generalised state G(K) under the invariant  `0 <= K <= LEN, every position < K is dismissed`:
             - each path back to the loop head must arrive in G(K+1), must know K < LEN, and must have dismissed position K:
               either the byte there is known to differ from 0xD3, or new(&data[K..]) was called and answered Err(NotValid)
             - each return is judged against the table above with k = K
             - no panic on any path (indexing, arithmetic, unreachable!())
           G(0) must equal S0 (base case).  K grows by one per iteration and is bounded by LEN, so the loop terminates.
The guess of phase 1 is not trusted: phase 2 checks it.  MessageFrame::new is summarised by its three outcomes (its error set is closed: A-err
/ S-closed), frame_len() by an opaque length that cannot exceed LEN - K (A-out / D-len: frame_data = data[K .. K+L+6] and L+6 <= LEN - K).
"""
import bitsem
from bitsem import (Interp, State, BV, Lin, Sym, UBool, Ref, Adt, Tup, Opaque, Undecided, Panic, It, Closure, lin_parts, mklin, add, sub, lin_range)
import framesem
from framesem import FrameInterp, FrameState, byte_bv, bv_const

SCAN = "next_msg_frame"
NEW = "message_frame::MessageFrame::new"
FRAME_LEN = "message_frame::MessageFrame::frame_len"
ERR = "rtcm_error::RtcmError"
POISON = ("poison",)


class FiltIt(object):
    """data[..].iter()[.enumerate()].filter(pred): the inner cursor and the predicate closure"""

    def __init__(self, inner, pred):
        self.inner, self.pred = inner, pred

    def copy_val(self, memo, cp):
        return FiltIt(cp(self.inner, memo), self.pred)

    def gen_with(self, o):
        if isinstance(o, FiltIt) and o.pred.path == self.pred.path:
            g = _gen(self.inner, o.inner)
            return POISON if g is POISON else FiltIt(g, self.pred)
        return POISON

    def shifted(self, d):
        return FiltIt(_shift(self.inner, d), self.pred)

    def at_zero(self):
        return FiltIt(_at_zero(self.inner), self.pred)

    def same(self, o):
        return isinstance(o, FiltIt) and o.pred.path == self.pred.path and _same(self.inner, o.inner)

    def __repr__(self):
        return "filter(%s)" % _show(self.inner)


class SplitIt(object):
    """data[lo..].split_inclusive(|b| b == 0xD3): the position where the next chunk starts (chunks end right behind a preamble byte)"""
    inner = None

    def __init__(self, idx, pred, done=False):
        self.idx, self.pred, self.done = idx, pred, done

    def copy_val(self, memo, cp):
        return SplitIt(cp(self.idx, memo), self.pred, self.done)

    def gen_with(self, o):
        if isinstance(o, SplitIt) and o.pred.path == self.pred.path and o.done == self.done:
            g = _gen(self.idx, o.idx)
            return POISON if g is POISON else SplitIt(g, self.pred, self.done)
        return POISON

    def shifted(self, d):
        return SplitIt(_shift(self.idx, d), self.pred, self.done)

    def at_zero(self):
        return SplitIt(_at_zero(self.idx), self.pred, self.done)

    def same(self, o):
        return isinstance(o, SplitIt) and o.pred.path == self.pred.path and o.done == self.done and _same(self.idx, o.idx)

    def __repr__(self):
        return "split_inclusive(at %s%s)" % (self.idx, ", done" if self.done else "")


class ScanState(FrameState):
    def __init__(self):
        FrameState.__init__(self)
        self.scan_calls = []     # [(position (a, c), outcome)]
        self.head_visits = 0


class ScanInterp(FrameInterp):
    def __init__(self, prog, f, header):
        FrameInterp.__init__(self, prog, f)
        self.header = header
        self.arrivals = []
        adt = prog.adts.get(ERR) or {"variants": []}
        self.err_idx = {v["name"]: v["idx"] for v in adt["variants"]}

    def stop_at(self, st, b):
        if b == self.header:
            self.arrivals.append(st)
            return True
        return False

    def decide(self, st, d):
        r = FrameInterp.decide(self, st, d)
        if r is None:
            pr = lin_parts(d.lin)
            if pr is not None and pr[0] % d.k == 0 and lin_range(d.lin)[1] <= 0:
                return not d.neg            # k*LEN >= (something <= 0) always holds
        return r

    def to_int(self, v):
        if isinstance(v, BV):
            c = v.concrete()
            if c is not None:
                return c
        return v

    # ---- lengths of suffix slices:  data[lo..].len() = LEN - lo
    def slice_len(self, v):
        if isinstance(v, Ref) and v.loc[0] == "slice":
            lo, hi = v.loc[1], v.loc[2]
            if isinstance(lo, Opaque) and lo.tag == "stalelo" and lin_parts(hi) == (1, 1):
                # the chunk a split found: from where the search started up to and including the byte found: off + 1 bytes
                return Opaque("off", (lo.args[0], lo.args[1], 1))
            if hi is None:
                if lin_parts(lo) == (0, 0):
                    return Sym(1)
                return Sym(1, sub(0, lo))
            return sub(hi, lo)
        return Interp.slice_len(self, v)

    def binop(self, st, op, x, y, tya, dest_ty):
        wo = op.endswith("WithOverflow")
        base = op[:-12] if wo else op
        if base == "Add" and ((isinstance(x, Opaque) and x.tag == "off") or (isinstance(y, Opaque) and y.tag == "off")):
            off, oth = (x, y) if (isinstance(x, Opaque) and x.tag == "off") else (y, x)
            pa_, pc_ = off.args[0], off.args[1]
            k_ = off.args[2] if len(off.args) > 2 else 0          # the value is off + k_ (a chunk length: k_ = 1)
            r = None
            if isinstance(oth, Opaque) and oth.tag == "stale" and pa_ == 1 and oth.args[0] == 1 and oth.args[1] is not None:
                r = mklin(1, oth.args[1] + k_)      # (old position + c) + off = new position + (c - search start)
            elif isinstance(oth, int) and not isinstance(oth, bool) and pa_ == 0:
                r = mklin(1, oth - pc_ + k_)        # the search started at the constant pc_
            if r is None:
                raise Undecided("the offset found by the search is added to something other than the position the search started from")
            # no overflow: the byte found exists, so start + off < LEN
            return Tup([r, 0]) if wo else r
        if base == "Add" and (isinstance(x, Opaque) or isinstance(y, Opaque)):
            o, l = (x, y) if isinstance(x, Opaque) else (y, x)
            if o.tag == "frame_len" and lin_parts(l) is not None:
                # position + frame_len <= LEN: new() only accepts a frame that lies inside the slice it was given
                r = Opaque("end", (lin_parts(l), o.args[0]))
                return Tup([r, 0]) if wo else r
            raise Undecided("arithmetic on the frame or its length")
        if isinstance(x, Sym) or isinstance(y, Sym):
            xs, ys = isinstance(x, Sym), isinstance(y, Sym)
            r = None
            if base == "Sub" and xs and ys and x.k == y.k:
                r = sub(x.c, y.c)
                lo, hi = lin_range(r)
                if lo < 0:
                    raise Undecided("difference of two lengths may wrap")
            elif base == "Sub" and xs and isinstance(y, Lin):
                nonneg = UBool(x.k, sub(y, x.c), False)
                if self.decide(st, nonneg) is not True:
                    raise Undecided("subtraction from the buffer length may wrap on this path")
                r = Sym(x.k, sub(x.c, y))
            elif base == "Add" and xs and isinstance(y, Lin):
                r = Sym(x.k, add(x.c, y))
            elif base == "Add" and ys and isinstance(x, Lin):
                r = Sym(y.k, add(y.c, x))
            if r is not None:
                return Tup([r, 0]) if wo else r
        return FrameInterp.binop(self, st, op, x, y, tya, dest_ty)

    def compare(self, op, x, y):
        if isinstance(x, Sym) and isinstance(y, Sym) and x.k == y.k:
            return Interp.compare(self, op, x.c if x.c else 0, y.c if y.c else 0)
        if isinstance(x, Sym) and not isinstance(x.c, int) and lin_parts(y) is not None:
            # k*LEN + c  op  y   <=>   k*LEN  op  y - c
            return FrameInterp.compare(self, op, Sym(x.k), sub(y, x.c))
        if isinstance(y, Sym) and not isinstance(y.c, int) and lin_parts(x) is not None:
            return FrameInterp.compare(self, op, sub(x, y.c), Sym(y.k))
        return FrameInterp.compare(self, op, x, y)

    def _deref(self, st, v):
        for _ in range(4):
            if isinstance(v, Ref) and v.loc[0] in ("local", "self"):
                v = self._get(st, v.loc)
            else:
                break
        return v

    def call(self, st, t):
        c = t.get("resolved") or t["callee"]
        short = c.rsplit("::", 1)[-1]
        if c == NEW:
            a = self.operand(st, t["args"][0])
            if not (isinstance(a, Ref) and a.loc[0] == "slice" and a.loc[2] is None and lin_parts(a.loc[1]) is not None):
                raise Undecided("MessageFrame::new is given something other than a suffix data[i..] of the input")
            pos = lin_parts(a.loc[1])
            # the suffix must exist: i <= LEN
            cnd = self.compare("Ge", Sym(1), a.loc[1])
            if isinstance(cnd, UBool):
                cnd = self.decide(st, cnd)
            if cnd is not True and cnd != 1:
                raise Undecided("data[%s..] is not covered by a length test on this path" % (a.loc[1],))
            outs = []

            def mk_out(name):
                def fn(s2):
                    s2.scan_calls.append((pos, name))
                    if name == "Ok":
                        return Adt("core::result::Result", 0, "Ok", [Opaque("frame", (pos,))])
                    return Adt("core::result::Result", 1, "Err", [Adt(ERR, self.err_idx[name], name, [])])
                return fn
            for name in ("Ok", "Incomplete", "NotValid"):
                if name != "Ok" and name not in self.err_idx:
                    raise Undecided("RtcmError has no variant " + name)
                outs.append(mk_out(name))
            return ("fork-fn", outs)
        if c == FRAME_LEN:
            m = self._deref(st, self.operand(st, t["args"][0]))
            if isinstance(m, Opaque) and m.tag == "frame":
                return Opaque("frame_len", (m.args[0],))
            raise Undecided("frame_len of something that is not the frame just built")
        if short == "next" and "Iterator" in c:
            r = self.operand(st, t["args"][0])
            if isinstance(r, Ref):
                obj = self._get(st, r.loc)
                if isinstance(obj, It) and obj.take is None and obj.skip is None:
                    ok = self.in_bounds(st, obj.idx, obj.end)
                    if ok is None and obj.end is None:
                        loc, idx = r.loc, obj.idx

                        def some(s2):
                            self.learn(s2, 1, add(idx, 1), True)
                            return Interp.it_next(self, s2, self._get(s2, loc))

                        def none(s2):
                            self.learn(s2, 1, add(idx, 1), False)
                            return Adt("core::option::Option", 0, "None", [])
                        return ("fork-fn", [some, none])
        if c == "core::slice::<impl [T]>::split_inclusive" and len(t["args"]) == 2:
            base = self.operand(st, t["args"][0])
            clo = self.operand(st, t["args"][1])
            if isinstance(base, Ref) and base.loc[0] == "slice" and base.loc[2] is None and lin_parts(base.loc[1]) is not None and isinstance(clo, Closure):
                return SplitIt(base.loc[1], clo)
            raise Undecided("split_inclusive over something that is not a suffix of the input")
        if c == "<core::slice::SplitInclusive<'a, T, P> as core::iter::Iterator>::next":
            r = self.operand(st, t["args"][0])
            obj = self._get(st, r.loc) if isinstance(r, Ref) else None
            if isinstance(obj, SplitIt):
                return self.split_next(st, r.loc, obj)
            raise Undecided("SplitInclusive::next on an unmodelled iterator")
        if c == "core::slice::<impl [T]>::last" and len(t["args"]) == 1:
            base = self.operand(st, t["args"][0])
            if isinstance(base, Ref) and base.loc[0] == "slice":
                lo, hi = base.loc[1], base.loc[2]
                if isinstance(lo, Opaque) and lo.tag == "stalelo" and lin_parts(hi) == (1, 1):
                    return Adt("core::option::Option", 1, "Some", [Ref(("byte", Lin(1, 0)))])       # the byte the split found
                if hi is None and getattr(st, "tail_chunk", None) is not None and lin_parts(lo) == st.tail_chunk:
                    return Adt("core::option::Option", 1, "Some", [Opaque("tailbyte", ())])          # non-empty rest without any 0xD3
            raise Undecided("last() of something other than a chunk of the split")
        if c in ("core::cmp::PartialEq::ne", "core::cmp::PartialEq::eq") and len(t["args"]) == 2 and \
                all((x.get("k") == "adt" and x.get("path") == "core::option::Option") for x in (t.get("cargs") or [{}])[:1]):
            # Option<&u8> against Some(&0xD3): decided from what the path knows about that byte
            a0 = self._deref(st, self.operand(st, t["args"][0]))
            a1 = self._deref(st, self.operand(st, t["args"][1]))
            res_ = self.option_byte_eq(st, a0, a1)
            if res_ is None:
                res_ = self.option_byte_eq(st, a1, a0)
            if res_ is None:
                raise Undecided("comparison of two options that is not `chunk.last() == Some(&0xD3)`")
            return (1 if res_ else 0) if c.endswith("::eq") else (0 if res_ else 1)
        if c == "core::iter::Iterator::filter" and len(t["args"]) == 2:
            a0 = self.operand(st, t["args"][0])
            clo = self.operand(st, t["args"][1])
            if isinstance(a0, It) and isinstance(clo, Closure):
                return FiltIt(a0, clo)
            raise Undecided("filter over something that is not the input's byte iterator")
        if short == "into_iter" and len(t["args"]) == 1:
            a0 = self.operand(st, t["args"][0])
            if isinstance(a0, (FiltIt, SplitIt)):
                return a0
        if c == "<core::iter::Filter<I, P> as core::iter::Iterator>::next":
            r = self.operand(st, t["args"][0])
            obj = self._get(st, r.loc) if isinstance(r, Ref) else None
            if isinstance(obj, FiltIt):
                return self.filter_next(st, r.loc, obj)
            raise Undecided("Filter::next on an unmodelled iterator")
        if short == "position" and "Iterator" in c and len(t["args"]) == 2:
            r = self.operand(st, t["args"][0])
            clo = self.operand(st, t["args"][1])
            obj = self._get(st, r.loc) if isinstance(r, Ref) else r
            if isinstance(obj, It) and obj.take is None and obj.skip is None and obj.enum is None and obj.end is None and isinstance(clo, Closure) \
                    and lin_parts(obj.idx) is not None:
                return self.position_search(st, obj.idx, clo)
            raise Undecided("position() on something other than data[start..].iter()")
        if c in ("core::slice::<impl [T]>::split_first", "core::slice::<impl [T]>::first"):
            base = self.operand(st, t["args"][0])
            if isinstance(base, Ref) and base.loc[0] == "slice":
                lo, hi = base.loc[1], base.loc[2]
                cond = self.compare("Gt", Sym(1), lo) if hi is None else self.compare("Lt", lo, hi)
                first = Ref(("byte", lo))
                some = Tup([first, Ref(("slice", add(lo, 1), hi))]) if short == "split_first" else first
                return ("fork-option", cond, some)
        if c in ("core::slice::index::<impl core::ops::Index<I> for [T]>::index",) and len(t["args"]) == 2:
            args = [self.operand(st, a) for a in t["args"]]
            base, rg = args
            if isinstance(base, Ref) and base.loc[0] == "slice" and base.loc[2] is None and isinstance(rg, Adt) and (rg.path or "").endswith("RangeFrom"):
                lo = add(base.loc[1], self.to_int(rg.fields[0]))
                cnd = self.compare("Ge", Sym(1), lo)
                if isinstance(cnd, UBool):
                    cnd = self.decide(st, cnd)
                if cnd is None:
                    raise Undecided("data[%s..] is not covered by a length test on this path" % (lo,))
                if not cnd:
                    raise Panic("slice start %s beyond the end" % (lo,))
                return Ref(("slice", lo, None))
        if c.startswith("core::panicking::") or c.startswith("core::panic"):
            raise Panic("call of %s" % c)
        return FrameInterp.call(self, st, t)


    # ---- data[start..].iter().position(|&b| b == 0xD3)
    def position_search(self, st, start, clo):
        """Some(off): bytes start .. start+off-1 differ from 0xD3 and byte start+off is 0xD3; None: no 0xD3 from start on.
        With every position below `start` dismissed (the loop invariant), Some(off) lets the invariant advance to start+off: the scan position
        is re-based there (Q := start + off), values computed from the old position become stale and only `stale + off` is meaningful."""
        pa, pc = lin_parts(start)
        return self.search(st, start, clo, lambda pos: Ref(("byte", pos)), False, lambda s2: Opaque("off", (pa, pc)), None)

    def option_byte_eq(self, st, x, y):
        """x == y for x = Some(a byte of the input / the last byte of the preamble-free rest) and y = Some(&0xD3); None when not of that shape"""
        if not (isinstance(x, Adt) and isinstance(y, Adt) and x.vname in ("Some", "None") and y.vname in ("Some", "None")):
            return None
        if x.vname != y.vname:
            return False
        if x.vname == "None":
            return True
        yv = self._deref(st, y.fields[0])
        if isinstance(yv, BV):
            yv = yv.concrete()
        if yv != 0xD3:
            return None
        xv = x.fields[0]
        if isinstance(xv, Opaque) and xv.tag == "tailbyte":
            return False
        if isinstance(xv, Ref) and xv.loc[0] == "byte" and lin_parts(xv.loc[1]) is not None:
            stt = _byte_status(st, lin_parts(xv.loc[1]))
            if stt == "d3":
                return True
            if stt == "not":
                return False
        return None

    def split_next(self, st, floc, sp):
        """<SplitInclusive as Iterator>::next with the predicate `byte == 0xD3`: the chunk up to and including the next preamble byte (the same
        search as position(), re-based on the byte found); without a further preamble byte the non-empty rest as one last chunk, then None"""
        if sp.done:
            return Adt("core::option::Option", 0, "None", [])
        start = sp.idx
        pa, pc = lin_parts(start)

        def found(s2):
            o2 = self._get(s2, floc)
            o2.idx = Lin(1, 1)
            return Ref(("slice", Opaque("stalelo", (pa, pc)), Lin(1, 1)))

        def tail(s2):
            self.learn(s2, 1, add(start, 1), True)
            s2.all_dismissed = True
            s2.tail_chunk = (pa, pc)
            self._get(s2, floc).done = True
            return Adt("core::option::Option", 1, "Some", [Ref(("slice", start, None))])

        def none(s2):
            self.learn(s2, 1, add(start, 1), False)
            s2.all_dismissed = True
            return Adt("core::option::Option", 0, "None", [])
        return self.search(st, start, sp.pred, lambda pos: Ref(("byte", pos)), False, found, floc, none_fns=[tail, none])

    def filter_next(self, st, floc, filt):
        """<Filter<..> as Iterator>::next: the first item from the cursor on that satisfies the predicate - the same search"""
        inner = filt.inner
        if inner.take is not None or inner.skip is not None or inner.end is not None:
            raise Undecided("filter over a bounded iterator")
        d = None
        if inner.enum is not None:
            d = lin_parts(sub(inner.enum, inner.idx))
            if d is None or d[0] != 0:
                raise Undecided("enumerate counter not in step with the cursor")
            d = d[1]

        def item(pos):
            return Tup([add(pos, d), Ref(("byte", pos))]) if d is not None else Ref(("byte", pos))

        def found(s2):
            f2 = self._get(s2, floc)
            f2.inner.idx = Lin(1, 1)
            if d is not None:
                f2.inner.enum = Lin(1, 1 + d)
            return item(Lin(1, 0))
        return self.search(st, inner.idx, filt.pred, item, True, found, floc)

    def search(self, st, start, clo, item, by_ref, result, keep, none_fns=None):
        pa, pc = lin_parts(start)
        if st.scan_calls:
            raise Undecided("a search after a frame was tried in the same iteration")
        # the predicate, evaluated on the item at `start` in a scratch state that knows the byte exists
        probe = st.clone()
        self.learn(probe, 1, add(start, 1), True)
        arg = item(start)
        if by_ref:
            probe.locals[-78] = arg
            arg = Ref(("local", -78, (), probe.frame))
        pr = self.exec_closure(probe, clo, [arg])
        bb = byte_bv(pa, pc).bits
        d3 = bv_const(0xD3, 8).bits
        okp = isinstance(pr, framesem.BPred) and not pr.neg and any(
            tuple(x[:8]) == bb and all(b == 0 for b in x[8:]) and tuple(y[:8]) == d3 and all(b == 0 for b in y[8:])
            for x, y in ((pr.lhs.bits, pr.rhs.bits), (pr.rhs.bits, pr.lhs.bits)))
        if not okp:
            raise Undecided("the search predicate is not `byte == 0xD3`")

        def some(s2):
            # re-base: forget everything expressed in the old position
            kept = self._get(s2, keep) if keep is not None else None
            seen_frames = set()
            for frame in list(s2.frames.values()) + [s2.locals]:
                if id(frame) in seen_frames:
                    continue
                seen_frames.add(id(frame))
                for k in list(frame.keys()):
                    v = frame[k]
                    if kept is not None and (v is kept or v is kept.inner):
                        continue          # the searching iterator itself (and moved-from copies of it): its cursor is re-set by `result`
                    if isinstance(v, Lin):
                        frame[k] = Opaque("stale", (v.a, v.c - pc if pa == 1 else None, pa))
                    elif _mentions_q(v):
                        del frame[k]
            s2.bfacts = []
            s2.vfacts = [(byte_bv(1, 0).bits, "eq", 0xD3)]
            s2.len_lb, s2.len_lb2, s2.len_ub = Lin(1, 1), None, None
            s2.rebased = getattr(s2, "rebased", 0) + 1
            return Adt("core::option::Option", 1, "Some", [result(s2)])

        def none(s2):
            s2.all_dismissed = True
            return Adt("core::option::Option", 0, "None", [])
        return ("fork-fn", [some] + (list(none_fns) if none_fns else [none]))


def _mentions_q(v, depth=0):
    if depth > 6:
        return True
    if isinstance(v, Lin):
        return True
    if isinstance(v, Sym):
        return not isinstance(v.c, int)
    if isinstance(v, Ref):
        return any(_mentions_q(x, depth + 1) for x in v.loc[1:] if not isinstance(x, (str, tuple)) or isinstance(x, Lin))
    if isinstance(v, It):
        return any(_mentions_q(x, depth + 1) for x in (v.idx, v.end, v.enum))
    if isinstance(v, FiltIt):
        return _mentions_q(v.inner, depth + 1)
    if isinstance(v, SplitIt):
        return _mentions_q(v.idx, depth + 1)
    if isinstance(v, (Tup, Adt, Closure)):
        return any(_mentions_q(x, depth + 1) for x in v.fields)
    if isinstance(v, list):
        return any(_mentions_q(x, depth + 1) for x in v)
    return False


# ------------------------------------------------------------------ generalisation and comparison of loop-head states
_GEN_MEMO = {}


def _gen(a, b):
    """the common shape of a (position 0) and b (position 1) with the parts that moved 0 -> 1 replaced by K"""
    if hasattr(a, "gen_with"):
        if (id(a), id(b)) in _GEN_MEMO:
            return _GEN_MEMO[(id(a), id(b))]
        r = a.gen_with(b)
        _GEN_MEMO[(id(a), id(b))] = r
        return r
    if isinstance(a, bool) or isinstance(b, bool):
        return a if a == b else POISON
    if isinstance(a, int) and isinstance(b, int):
        if a == b:
            return a
        if b > a:
            return Lin(1, a)          # a guess (the position, possibly advanced by more than one): phase 2 verifies it
        return POISON
    if isinstance(a, int) and isinstance(b, Lin) and b.a == 1:
        return Lin(1, a)          # 0 -> (position found) + 1: the resume offset of a search loop
    if isinstance(a, Lin) or isinstance(b, Lin):
        return a if a == b else POISON
    if isinstance(a, Ref) and isinstance(b, Ref):
        if a.loc == b.loc:
            return a
        la, lb = a.loc, b.loc
        if la[0] == lb[0] == "slice":
            lo = _gen(la[1], lb[1])
            hi = None if (la[2] is None and lb[2] is None) else (_gen(la[2], lb[2]) if la[2] is not None and lb[2] is not None else POISON)
            if lo is POISON or hi is POISON:
                return POISON
            return Ref(("slice", lo, hi))
        if la[0] == lb[0] == "byte":
            i = _gen(la[1], lb[1])
            return POISON if i is POISON else Ref(("byte", i))
        return POISON
    if isinstance(a, It) and isinstance(b, It):
        if (id(a), id(b)) in _GEN_MEMO:
            return _GEN_MEMO[(id(a), id(b))]          # moved-from copies of one iterator stay one object
        if a.mut != b.mut or a.skip != b.skip or a.take != b.take or (a.enum is None) != (b.enum is None):
            return POISON
        idx = _gen(a.idx, b.idx)
        end = None if (a.end is None and b.end is None) else (_gen(a.end, b.end) if a.end is not None and b.end is not None else POISON)
        en = None if a.enum is None else _gen(a.enum, b.enum)
        if POISON in (idx, end, en):
            return POISON
        n = a.clone()
        n.idx, n.end, n.enum = idx, end, en
        _GEN_MEMO[(id(a), id(b))] = n
        return n
    if isinstance(a, Tup) and isinstance(b, Tup) and len(a.fields) == len(b.fields):
        return Tup([_gen(x, y) for x, y in zip(a.fields, b.fields)])
    if isinstance(a, Adt) and isinstance(b, Adt) and (a.path, a.variant, len(a.fields)) == (b.path, b.variant, len(b.fields)):
        return Adt(a.path, a.variant, a.vname, [_gen(x, y) for x, y in zip(a.fields, b.fields)])
    if isinstance(a, Closure) and isinstance(b, Closure) and a.path == b.path and len(a.fields) == len(b.fields):
        return Closure(a.path, [_gen(x, y) for x, y in zip(a.fields, b.fields)])
    if isinstance(a, list) and isinstance(b, list) and len(a) == len(b):
        return [_gen(x, y) for x, y in zip(a, b)]
    if isinstance(a, BV) and isinstance(b, BV):
        return a if a.bits == b.bits else POISON
    if isinstance(a, Sym) and isinstance(b, Sym):
        return a if (a.k, a.c) == (b.k, b.c) else POISON
    if a is None and b is None:
        return None
    return POISON


def _has_poison(v, depth=0):
    if v is POISON:
        return True
    if depth > 6:
        return False
    if isinstance(v, (Tup, Adt, Closure)):
        return any(_has_poison(x, depth + 1) for x in v.fields)
    if isinstance(v, list):
        return any(_has_poison(x, depth + 1) for x in v)
    return False


def _shift(v, d):
    """v with K replaced by K + d (d may be -K.. only via subst0)"""
    if hasattr(v, "shifted"):
        return v.shifted(d)
    if isinstance(v, Lin):
        return mklin(v.a, v.c + v.a * d)
    if isinstance(v, Sym):
        return Sym(v.k, _shift(v.c, d)) if not isinstance(v.c, int) else v
    if isinstance(v, Ref):
        l = v.loc
        if l[0] == "slice":
            return Ref(("slice", _shift(l[1], d), None if l[2] is None else _shift(l[2], d)))
        if l[0] == "byte":
            return Ref(("byte", _shift(l[1], d)))
        return v
    if isinstance(v, It):
        n = v.clone()
        n.idx = _shift(v.idx, d)
        n.end = None if v.end is None else _shift(v.end, d)
        n.enum = None if v.enum is None else _shift(v.enum, d)
        return n
    if isinstance(v, Tup):
        return Tup([_shift(x, d) for x in v.fields])
    if isinstance(v, Adt):
        return Adt(v.path, v.variant, v.vname, [_shift(x, d) for x in v.fields])
    if isinstance(v, Closure):
        return Closure(v.path, [_shift(x, d) for x in v.fields])
    if isinstance(v, list):
        return [_shift(x, d) for x in v]
    return v


def _at_zero(v):
    """v with K = 0"""
    if hasattr(v, "at_zero"):
        return v.at_zero()
    if isinstance(v, Lin):
        return v.c
    if isinstance(v, Sym):
        return Sym(v.k, _at_zero(v.c)) if not isinstance(v.c, int) else v
    if isinstance(v, Ref):
        l = v.loc
        if l[0] == "slice":
            return Ref(("slice", _at_zero(l[1]), None if l[2] is None else _at_zero(l[2])))
        if l[0] == "byte":
            return Ref(("byte", _at_zero(l[1])))
        return v
    if isinstance(v, It):
        n = v.clone()
        n.idx = _at_zero(v.idx)
        n.end = None if v.end is None else _at_zero(v.end)
        n.enum = None if v.enum is None else _at_zero(v.enum)
        return n
    if isinstance(v, Tup):
        return Tup([_at_zero(x) for x in v.fields])
    if isinstance(v, Adt):
        return Adt(v.path, v.variant, v.vname, [_at_zero(x) for x in v.fields])
    if isinstance(v, Closure):
        return Closure(v.path, [_at_zero(x) for x in v.fields])
    if isinstance(v, list):
        return [_at_zero(x) for x in v]
    return v


def _same(a, b, depth=0):
    if depth > 8:
        return False
    if hasattr(a, "same"):
        return a.same(b)
    if isinstance(a, (int, Lin)) and isinstance(b, (int, Lin)) and not isinstance(a, bool) and not isinstance(b, bool):
        return lin_parts(a) == lin_parts(b)
    if type(a) is not type(b):
        return False
    if isinstance(a, Ref):
        la, lb = a.loc, b.loc
        if la[0] != lb[0]:
            return False
        if la[0] == "slice":
            return _same(la[1], lb[1]) and ((la[2] is None and lb[2] is None) or (la[2] is not None and lb[2] is not None and _same(la[2], lb[2])))
        if la[0] == "byte":
            return _same(la[1], lb[1])
        return la == lb
    if isinstance(a, It):
        return a.mut == b.mut and a.skip == b.skip and a.take == b.take and _same(a.idx, b.idx) and \
            ((a.end is None and b.end is None) or (a.end is not None and b.end is not None and _same(a.end, b.end))) and \
            ((a.enum is None and b.enum is None) or (a.enum is not None and b.enum is not None and _same(a.enum, b.enum)))
    if isinstance(a, (Tup, Closure)):
        return len(a.fields) == len(b.fields) and all(_same(x, y, depth + 1) for x, y in zip(a.fields, b.fields))
    if isinstance(a, Adt):
        return (a.path, a.variant) == (b.path, b.variant) and len(a.fields) == len(b.fields) and all(_same(x, y, depth + 1) for x, y in zip(a.fields, b.fields))
    if isinstance(a, list):
        return len(a) == len(b) and all(_same(x, y, depth + 1) for x, y in zip(a, b))
    if isinstance(a, BV):
        return a.bits == b.bits
    if isinstance(a, Sym):
        return a.k == b.k and _same(a.c, b.c)
    if isinstance(a, Opaque):
        return a.tag == b.tag and a.args == b.args
    return a == b


def _byte_status(st, pos):
    """'d3' / 'not' / None: what the path knows about the input byte at position pos = (a, c)"""
    bb = byte_bv(pos[0], pos[1]).bits
    d3 = bv_const(0xD3, 8).bits
    for l, r, truth in st.bfacts:
        for x, y in ((l, r), (r, l)):
            if tuple(x[:8]) == bb and all(b == 0 for b in x[8:]) and tuple(y[:8]) == d3 and all(b == 0 for b in y[8:]):
                return "d3" if truth else "not"
    for bits, kind, v in st.vfacts:
        if tuple(bits[:8]) == bb and all(b == 0 for b in bits[8:]):
            if kind == "eq":
                return "d3" if v == 0xD3 else "not"
            if kind == "ne" and 0xD3 in v:
                return "not"
    return None


def _knows_more(it, st, pos):
    """the path knows LEN >= pos + 1"""
    return it.decide(st, UBool(1, mklin(pos[0], pos[1] + 1), False)) is True


def _knows_end(it, st, pos):
    """the path knows LEN <= pos  (LEN >= pos + 1 is false)"""
    return it.decide(st, UBool(1, mklin(pos[0], pos[1] + 1), False)) is False


def _judge_return(it, st, ret, pos, problems, where):
    """one finished path against the decision table, scan position pos = (a, c)"""
    calls = st.scan_calls
    if not (isinstance(ret, Tup) and len(ret.fields) == 2):
        problems.append(("shape", "%s: the return value is not a (consumed, frame) pair" % where))
        return
    cons, fr = ret.fields
    if isinstance(cons, BV) and cons.concrete() is not None:
        cons = cons.concrete()
    if len(calls) > 1:
        problems.append(("cand", "%s: MessageFrame::new is called %d times for one position" % (where, len(calls))))
        return
    if not calls:
        # nothing tried at this position: only the end of the data may return
        gone = getattr(st, "all_dismissed", False)
        if not gone and not _knows_end(it, st, pos):
            problems.append(("end", "%s: returns without trying a frame although position %s may lie inside the data" % (where, mklin(*pos))))
            return
        ok_cons = (isinstance(cons, Sym) and cons.k == 1 and (cons.c == 0)) or (not gone and lin_parts(cons) == pos)
        if not ok_cons or not (isinstance(fr, Adt) and fr.vname == "None"):
            problems.append(("end", "%s: at the end of the data the scanner returns (%s, %s), expected (data.len(), None)" % (where, cons, getattr(fr, "vname", fr))))
        return
    cpos, outcome = calls[0]
    if cpos != pos:
        problems.append(("cand", "%s: new() is given data[%s..], expected data[%s..]" % (where, mklin(*cpos), mklin(*pos))))
        return
    if outcome == "Ok":
        okc = isinstance(cons, Opaque) and cons.tag == "end" and cons.args == (pos, pos)
        okf = isinstance(fr, Adt) and fr.vname == "Some" and isinstance(fr.fields[0], Opaque) and fr.fields[0].tag == "frame" and fr.fields[0].args == (pos,)
        if not (okc and okf):
            problems.append(("ok", "%s: on Ok(m) the scanner returns (%s, %s), expected (i + m.frame_len(), Some(m))" % (where, _show(cons), _show(fr))))
    elif outcome == "Incomplete":
        if not (lin_parts(cons) == pos and isinstance(fr, Adt) and fr.vname == "None"):
            problems.append(("inc", "%s: on Err(Incomplete) the scanner returns (%s, %s), expected (i, None)" % (where, _show(cons), _show(fr))))
    else:
        problems.append(("skip", "%s: the scanner returns after Err(%s) instead of moving on to the next byte" % (where, outcome)))


def _show(v):
    if isinstance(v, Opaque):
        return "%s%s" % (v.tag, v.args)
    if isinstance(v, Adt):
        return "%s(%s)" % (v.vname, ", ".join(_show(x) for x in v.fields))
    if isinstance(v, It):
        return "iter(at %s, end %s, count %s, take %s, skip %s)" % (v.idx, v.end, v.enum, v.take, v.skip)
    if isinstance(v, Ref):
        return "&%s" % (v.loc,)
    if isinstance(v, Tup):
        return "(%s)" % ", ".join(_show(x) for x in v.fields)
    return repr(v)


def check(prog):
    """{'decided': bool, 'problems': [(category, text)], 'undecided': text, 'paths': n, 'form': text}"""
    out = {"decided": False, "problems": [], "undecided": None, "paths": 0, "form": ""}
    f = prog.fn(SCAN)
    if f is None:
        out["undecided"] = "next_msg_frame not found"
        return out
    loops = f.loops()
    if len(loops) != 1:
        out["undecided"] = "the scanner has %d loops" % len(loops)
        return out
    header = list(loops.keys())[0]
    saved = (bitsem.QMIN, bitsem.QMAX)
    bitsem.QMIN, bitsem.QMAX = 0, 1 << 58
    try:
        try:
            _check(prog, f, header, out)
        except Undecided as e:
            out["undecided"] = str(e)
        except Panic as e:
            out["decided"] = True
            out["problems"].append(("panic", "the scanner can panic: %s" % e))
        except (AttributeError, TypeError, KeyError, IndexError, ValueError) as e:
            out["undecided"] = "internal: %r" % (e,)
    finally:
        bitsem.QMIN, bitsem.QMAX = saved
    return out


def _check(prog, f, header, out):
    problems = out["problems"]
    # ---- phase 0: entry -> loop head
    it0 = ScanInterp(prog, f, header)
    st = ScanState()
    st.locals[1] = Ref(("slice", 0, None))
    it0.run(st)
    for fin, ret in it0.results:
        _judge_return(it0, fin, ret, (0, 0), problems, "before the loop")
    if not it0.arrivals:
        raise Undecided("the loop is not reached from the entry")
    S0 = it0.arrivals[0]
    for other in it0.arrivals[1:]:
        if not all(_same(S0.locals.get(k), other.locals.get(k)) for k in set(S0.locals) | set(other.locals)):
            raise Undecided("the loop is entered in different states")
    # ---- phase 1: one concrete iteration, to guess the loop-carried positions
    it1 = ScanInterp(prog, f, header)
    s1 = S0.clone()
    s1.bfacts, s1.vfacts, s1.scan_calls = [], [], []
    it1.run(s1, start=header)
    if not it1.arrivals:
        raise Undecided("no path of the loop body returns to the loop head")
    S1 = it1.arrivals[0]
    G = {}
    moved = []
    _GEN_MEMO.clear()
    for k in S0.locals:
        if k in S1.locals:
            g = _gen(S0.locals[k], S1.locals[k])
            if not _has_poison(g):
                G[k] = g
                if not _same(g, S0.locals[k]):
                    moved.append(k)
    if not moved:
        raise Undecided("no loop-carried position found (nothing moves from 0 to 1 in the first iteration)")
    out["form"] = "loop-carried: " + ", ".join("_%d" % k for k in sorted(moved))
    # base case
    for k, g in G.items():
        if not _same(_at_zero(g), S0.locals[k]):
            raise Undecided("generalised state does not start at the entry state (local _%d)" % k)
    # ---- phase 2: the inductive step from G(K)
    it2 = ScanInterp(prog, f, header)
    sk = ScanState()
    memo = {}
    sk.locals = {k: bitsem._copy_val(v, memo) for k, v in G.items()}
    sk.frames = {0: sk.locals}
    sk.len_lb = Lin(1, 0)           # invariant: K <= LEN
    it2.run(sk, start=header)
    out["paths"] = len(it2.results) + len(it2.arrivals) + len(it0.results)
    K = (1, 0)
    for fin, ret in it2.results:
        _judge_return(it2, fin, ret, K, problems, "at position i")
    if not it2.arrivals:
        problems.append(("first", "no path continues the scan after a dismissed position"))
    for arr in it2.arrivals:
        # arrives in G(K+1)?
        bad = [k for k, g in G.items() if k not in arr.locals or not _same(_shift(g, 1), arr.locals[k])]
        if bad:
            problems.append(("first", "after a dismissed position the scan does not resume exactly one byte further (loop state _%s is %s, expected %s)" % (
                bad[0], _show(arr.locals.get(bad[0])), _show(_shift(G[bad[0]], 1)))))
            continue
        if not _knows_more(it2, arr, K):
            problems.append(("first", "the scan moves past position i without knowing that i < data.len()"))
        calls = arr.scan_calls
        if len(calls) > 1:
            problems.append(("cand", "MessageFrame::new is called %d times for one position" % len(calls)))
        elif len(calls) == 1:
            cpos, outcome = calls[0]
            if cpos != K:
                problems.append(("cand", "new() is given data[%s..], expected data[i..]" % (mklin(*cpos),)))
            elif outcome != "NotValid":
                problems.append(("skip", "the scan moves on although new(&data[i..]) answered %s" % ("Ok" if outcome == "Ok" else "Err(%s)" % outcome)))
        else:
            if _byte_status(arr, K) != "not":
                problems.append(("cand", "position i is passed over without calling new() and without knowing that data[i] != 0xD3 "
                                         "(a candidate can be skipped)"))
    out["decided"] = True
