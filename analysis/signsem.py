"""Abstract interpretation of the 15 BitValue impls' sign_fix / sign_fix_rev (value mapping clause of C07).

Same domains as bitsem.py.  One partition per (impl, width len in 1..=BITS).  Inputs:
  sign_fix(val, len):      val = the `len` assembled field bits F.0..F.(len-1), zero above (what Parser::parse hands over: B-sem)
  sign_fix_rev(val, len):  val = the caller's value, BITS symbolic bits V.k
A branch on a single symbolic bit forks and substitutes the bit in the whole state.  Arithmetic negation of a symbolic
value (`-x`, `-1 * x`, `(!x).wrapping_add(1)`, `x.wrapping_neg()`) is the uninterpreted vector NEG(x).
Specification per kind (U unsigned, I two's complement, SM sign-magnitude):
  U   sign_fix = identity                                   sign_fix_rev = identity
  I   sign_fix = sign extension from bit len-1              sign_fix_rev = identity (put writes the low len bits)
  SM  sign_fix = F if F.(len-1)=0 else NEG(F mod 2^(len-1)) sign_fix_rev = V if V.(len-1)=0 else (NEG(V) with bit len-1 forced to 1)
That these bit-level results give `decode(encode(v)) = v` for every representable v uses -(-v) = v and
|v| < 2^(len-1); that arithmetic step is stated, not derived.
"""
import re
import bitsem
from bitsem import Interp, State, BV, Undecided, Panic, bf_atom, bv_const, bf_op, Tup

IMPL = re.compile(r"<df::bit_value::(U|I|SM)(\d+) as df::bit_value::BitValue>::(sign_fix|sign_fix_rev|u8_cast|val_cast)")


def bf_subst(b, atom, val):
    if b in (0, 1):
        return b
    atoms, table = b
    if atom not in atoms:
        return b
    i = atoms.index(atom)
    n = len(atoms)
    rest = tuple(a for a in atoms if a != atom)
    nt = 0
    for row in range(1 << (n - 1)):
        full = 0
        k = 0
        for j in range(n):
            if j == i:
                if val:
                    full |= 1 << j
            else:
                if (row >> k) & 1:
                    full |= 1 << j
                k += 1
        if (table >> full) & 1:
            nt |= 1 << row
    return bitsem._bf_norm(rest, nt)


def bv_subst(v, atom, val):
    return BV([bf_subst(b, atom, val) for b in v.bits], v.signed)


def neg_of(x):
    """Uninterpreted two's-complement negation of a bit vector (constants are negated exactly)."""
    c = x.concrete()
    if c is not None:
        return bv_const((-c) & ((1 << x.w) - 1), x.w, x.signed)
    return BV([bf_atom(("NEG", x.bits, i)) for i in range(x.w)], x.signed)


class BitFork(Exception):
    def __init__(self, atom):
        self.atom = atom


class SignInterp(Interp):
    def __init__(self, prog, f, W, signed):
        Interp.__init__(self, prog, f, "sign", 0, 0, W)
        self.signed = signed

    def compare(self, op, x, y):
        if isinstance(x, BV) or isinstance(y, BV):
            w = x.w if isinstance(x, BV) else y.w
            xb, yb = self.as_bv(x, w), self.as_bv(y, w)
            cx, cy = xb.concrete(), yb.concrete()
            if cx is not None and cy is not None:
                return Interp.compare(self, op, self.signed_val(cx, w), self.signed_val(cy, w))
            if op in ("Eq", "Ne"):
                # decided by a differing constant bit, or by exactly one symbolic bit
                sym = []
                diff = False
                for a, b in zip(xb.bits, yb.bits):
                    if a in (0, 1) and b in (0, 1):
                        if a != b:
                            diff = True
                    elif a != b:
                        sym.append((a, b))
                if diff:
                    return 0 if op == "Eq" else 1
                if not sym:
                    return 1 if op == "Eq" else 0
                a, b = sym[0]
                s = a if a not in (0, 1) else b
                raise BitFork(s[0][0])
            raise Undecided("ordering comparison of symbolic bits")
        return Interp.compare(self, op, x, y)

    def signed_val(self, c, w):
        if self.signed and c >> (w - 1):
            return c - (1 << w)
        return c

    def binop(self, st, op, x, y, tya, dest_ty):
        wo = op.endswith("WithOverflow")
        base = op[:-12] if wo else op
        if base == "Mul" and (isinstance(x, BV) or isinstance(y, BV)):
            bv, k = (x, y) if isinstance(x, BV) else (y, x)
            if isinstance(k, BV):
                k = k.concrete()
                if k is not None:
                    k = self.signed_val(k, bv.w)
            if k == -1 or (isinstance(k, int) and k == (1 << bv.w) - 1):
                r = neg_of(bv)
                # overflow iff the operand is the minimum value: impossible when its top bit is a constant 0
                # overflow iff the operand is the minimum value.  Whether that can panic is C09's question (panic inventory);
                # the value mapping is decided for the inputs on which the function returns
                return Tup([r, 0]) if wo else r
            if k == 1:
                return Tup([bv, 0]) if wo else bv
            raise Undecided("multiplication of symbolic bits")
        if base == "Sub" and isinstance(y, BV) and not isinstance(x, BV) and x == 0:
            r = neg_of(y)
            return Tup([r, 0]) if wo else r
        if base in ("Shl", "Shr") and isinstance(x, int) and isinstance(y, int):
            tb = bitsem.ty_bits(tya) or (self.W, self.signed)
            if y >= tb[0] or y < 0:
                raise Panic("shift of a %d-bit value by %d" % (tb[0], y))
            if base == "Shl":
                return self.wrap(x << y, tb[0], tb[1])
            return x >> y
        return Interp.binop(self, st, op, x, y, tya, dest_ty)

    def rvalue(self, st, rv, dest_place):
        if rv["k"] == "unop" and rv.get("op") == "Neg":
            v = self.operand(st, rv.get("a") or rv.get("arg") or rv.get("operand"))
            if isinstance(v, BV):
                return neg_of(v)
        return Interp.rvalue(self, st, rv, dest_place)

    def call(self, st, t):
        c = t.get("resolved") or t["callee"]
        m = re.fullmatch(r"core::num::<impl [iu]\d+>::(wrapping_add|wrapping_neg|wrapping_sub)", c)
        if m:
            args = [self.operand(st, a) for a in t["args"]]
            kind = m.group(1)
            if kind == "wrapping_neg" and isinstance(args[0], BV):
                return neg_of(args[0])
            if kind == "wrapping_neg" and isinstance(args[0], int):
                return self.wrap(-args[0], self.W, self.signed)
            if kind == "wrapping_add" and isinstance(args[0], BV):
                k = args[1].concrete() if isinstance(args[1], BV) else args[1]
                if k == 1:
                    # (!y) + 1 = -y
                    inv = bitsem.bv_not(args[0])
                    return neg_of(inv)
                if k == 0:
                    return args[0]
            if all(isinstance(a, int) for a in args):
                r = args[0] + args[1] if kind == "wrapping_add" else args[0] - args[1]
                return self.wrap(r, self.W, self.signed)
            raise Undecided("wrapping arithmetic on symbolic bits")
        return Interp.call(self, st, t)

    def cast(self, v, src_ty, dst_ty):
        return Interp.cast(self, v, src_ty, dst_ty)


def run_paths(prog, f, W, signed, init):
    """All paths with forks on single symbolic bits: [(assignment {atom: 0|1}, result)]."""
    out = []
    work = [{}]
    while work:
        asg = work.pop()
        it = SignInterp(prog, f, W, signed)
        st = State()
        for l, v in init.items():
            if isinstance(v, BV):
                for a, val in asg.items():
                    v = bv_subst(v, a, val)
            st.locals[l] = v
        try:
            it.run(st)
        except BitFork as e:
            if e.atom in asg or len(asg) > 6:
                raise Undecided("fork on a bit that is already fixed")
            for val in (0, 1):
                a2 = dict(asg)
                a2[e.atom] = val
                work.append(a2)
            continue
        for fin, ret in it.results:
            out.append((asg, ret, sum(1 for _ in it.assert_sites)))
    return out


def expected(kind, meth, W, w, asg):
    F = lambda k: asg.get(("F", k), None) if ("F", k) in asg else bf_atom(("F", k))
    V = lambda k: asg.get(("V", k), None) if ("V", k) in asg else bf_atom(("V", k))
    if meth == "sign_fix":
        x = [F(k) if k < w else 0 for k in range(W)]
        if kind == "U":
            return BV(x)
        if kind == "I":
            return BV([x[k] if k < w else x[w - 1] for k in range(W)])
        sb = x[w - 1]
        if sb == 0:
            return BV(x)
        if sb == 1:
            mag = BV([x[k] if k < w - 1 else 0 for k in range(W)])
            return neg_of(mag)
        return None
    v = [V(k) for k in range(W)]
    if kind in ("U", "I"):
        return BV(v)
    sb = v[w - 1]
    if sb == 0:
        return BV(v)
    if sb == 1:
        n = neg_of(BV(v))
        return BV([n.bits[k] if k != w - 1 else 1 for k in range(W)])
    return None


def check(prog):
    """{'impls', 'partitions', 'problems': [(fn, text)], 'undecided': [(fn, text)]}"""
    out = {"impls": 0, "partitions": 0, "paths": 0, "problems": [], "undecided": []}
    seen = set()
    for p in sorted(prog.fns):
        m = IMPL.fullmatch(p)
        if not m:
            continue
        kind, bits, meth = m.group(1), int(m.group(2)), m.group(3)
        f = prog.fns[p]
        if meth in ("u8_cast", "val_cast"):
            # the two casts put/parse rely on: val_cast keeps the low 8 bits, u8_cast zero-extends
            out["casts"] = out.get("casts", 0) + 1
            ty = f.locals[1] if meth == "val_cast" else f.locals[0]
            W = ty.get("bits")
            signed = ty.get("k") == "int"
            try:
                if meth == "val_cast":
                    init = {1: BV([bf_atom(("V", k)) for k in range(W)], signed)}
                    exp = BV([bf_atom(("V", k)) for k in range(8)])
                else:
                    init = {1: BV([bf_atom(("B", k)) for k in range(8)], False)}
                    exp = BV([bf_atom(("B", k)) for k in range(8)] + [0] * (W - 8))
                paths = run_paths(prog, f, W, signed, init)
                for asg, ret, _n in paths:
                    if not (isinstance(ret, BV) and ret.bits == exp.bits):
                        out["problems"].append((p, "result %s, expected %s" % (ret, exp)))
            except (Panic, Undecided) as e:
                out["undecided"].append((p, str(e)))
            continue
        out["impls"] += 1
        ty = f.locals[1]
        W = ty.get("bits")
        signed = ty.get("k") == "int"
        if W != bits or (kind == "U") == signed:
            out["problems"].append((p, "carrier type %s does not match the impl name" % ty.get("name")))
            continue
        for w in range(1, W + 1):
            if meth == "sign_fix":
                init = {1: BV([bf_atom(("F", k)) if k < w else 0 for k in range(W)], signed), 2: w}
            else:
                init = {1: BV([bf_atom(("V", k)) for k in range(W)], signed), 2: w}
            try:
                paths = run_paths(prog, f, W, signed, init)
            except Panic as e:
                key = (p, "panic: %s" % e)
                if key not in seen:
                    seen.add(key)
                    out["problems"].append((p, "panic: %s at width %d" % (e, w)))
                continue
            except Undecided as e:
                key = (p, str(e))
                if key not in seen:
                    seen.add(key)
                    out["undecided"].append((p, "%s (width %d)" % (e, w)))
                continue
            out["partitions"] += 1
            for asg, ret, _n in paths:
                out["paths"] += 1
                exp = expected(kind, meth, W, w, asg)
                if exp is None:
                    # the path did not decide the sign bit: the result must be right for both values
                    for val in (0, 1):
                        a2 = dict(asg)
                        a2[("F" if meth == "sign_fix" else "V", w - 1)] = val
                        e2 = expected(kind, meth, W, w, a2)
                        r2 = bv_subst(ret, ("F" if meth == "sign_fix" else "V", w - 1), val) if isinstance(ret, BV) else ret
                        if not (isinstance(r2, BV) and e2 is not None and r2.bits == e2.bits):
                            key = (p, "value")
                            if key not in seen:
                                seen.add(key)
                                out["problems"].append((p, "width %d, sign bit %d: result %s, expected %s" % (w, val, r2, e2)))
                    continue
                if not (isinstance(ret, BV) and ret.bits == exp.bits):
                    key = (p, "value")
                    if key not in seen:
                        seen.add(key)
                        out["problems"].append((p, "width %d, bits fixed on the path %s: result %s, expected %s" % (w, {"%s.%d" % a: v for a, v in asg.items()}, ret, exp)))
    return out
