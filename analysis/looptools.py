"""Loop trip-count bounds from finite iterators (shared by the interval engine and the capacity rules)."""
from terms import mk, T
from facts import callee_of
import libmodel


def _strip_val_term(x):
    while x.op in ("ref", "memval", "mem"):
        x = x.args[0]
    return x


def trip_bound(f, fa, iv, h, body):
    """Upper bound on the number of iterations of the loop with header h, or None."""
    for x in sorted(body):
        t = f.term(x)
        if t["k"] != "call":
            continue
        c = callee_of(t)
        if c not in libmodel.FINITE_NEXT:
            continue
        backs = [s for (s, hh) in f.back_edges() if hh == h]
        if not all(f.dominates(x, s) for s in backs):
            continue
        ct = fa.call_term(x)
        src = libmodel.iterator_source(ct, fa)
        if src is None:
            continue
        v, site = src
        y = v
        if y.op == "call" and y.args[0] in (libmodel.INTO_ITER, "<&tinyvec::ArrayVec<A> as core::iter::IntoIterator>::into_iter",
                                            "<tinyvec::ArrayVec<A> as core::iter::IntoIterator>::into_iter"):
            y0 = y
            y = y.args[1][0]
            if y0.args[0] != libmodel.INTO_ITER:
                cap = libmodel.capacity_of_type(libmodel.obj_type(y))
                return cap
        if y.op == "agg" and y.args[0] == "core::ops::Range":
            lo, hi = y.args[3]
            il, ih = iv.interval(lo, site[0]), iv.interval(hi, site[0])
            if il is not None and ih is not None:
                return max(0, ih[1] - il[0])
        if y.op == "call" and y.args[0] == "core::ops::RangeInclusive::<Idx>::new":
            lo, hi = y.args[1]
            il, ih = iv.interval(lo, site[0]), iv.interval(hi, site[0])
            if il is not None and ih is not None:
                return max(0, ih[1] - il[0] + 1)
        if y.op == "call" and y.args[0].endswith("impl core::iter::IntoIterator for &[T]>::into_iter") and y.args[1]:
            # `for x in slice` = slice.iter()
            y = mk("call", "core::slice::<impl [T]>::iter", (y.args[1][0],), *y.args[2:])
        if y.op == "call" and y.args[0] == "core::slice::<impl [T]>::iter" and y.args[1]:
            # text.as_bytes().iter(): one item per byte of the string (the deref of an ArrayString<N>)
            z = y.args[1][0]
            while z.op in ("ref", "mem", "memval"):
                z = z.args[0]
            if z.op == "call" and z.args[0] == "core::str::<impl str>::as_bytes":
                z = z.args[1][0]
                while z.op in ("ref", "mem", "memval"):
                    z = z.args[0]
                if z.op == "call" and z.args[0] == "<util::array_string::ArrayString<N> as core::ops::Deref>::deref":
                    return libmodel.capacity_of_type(libmodel.obj_type(z.args[1][0]))
        if y.op == "call" and y.args[0] in ("core::str::<impl str>::bytes", "core::str::<impl str>::chars"):
            # at most one item per byte of the string; the string is the deref of an ArrayString<N>
            z = y.args[1][0]
            while z.op in ("ref", "mem", "memval"):
                z = z.args[0]
            if z.op == "call" and z.args[0] == "<util::array_string::ArrayString<N> as core::ops::Deref>::deref":
                return libmodel.capacity_of_type(libmodel.obj_type(z.args[1][0]))
            return None
        if y.op == "call" and y.args[0] in ("core::slice::<impl [T]>::iter", "core::slice::<impl [T]>::iter_mut",
                                            "util::data_vec::DataVec::<T, N>::iter", "util::data_vec::DataVec::<T, N>::iter_mut",
                                            "tinyvec::ArrayVec::<A>::iter", "util::Df88591String::<N>::iter"):
            cap = libmodel.capacity_of_type(libmodel.obj_type(y.args[1][0]))
            if cap is None:
                z = _strip_val_term(y.args[1][0])
                li = libmodel.len_interval(mk("len", y.args[1][0].args[0] if y.args[1][0].op == "ref" else y.args[1][0]), iv, site[0])
                cap = li[1] if li and li[1] < (1 << 62) else None
            return cap
    return None


