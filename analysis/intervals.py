"""Interval abstract interpretation of integer terms, refined by dominating guards (sound over-approximation).

interval(fa, t, b) returns (lo, hi): every value the term t can have whenever block b is entered lies in [lo, hi].
Only integers/bools/chars are tracked; anything else is the type's range (or None when the type is unknown).
"""
from terms import T, mk, is_const, const_val, ty_of, show, CMP, CHECKED
from facts import int_range, callee_of
from algebra import fact_of_guard, canon_le, lin
import libmodel

FN_BY_ID = {}


def fresh_bit_flag(d):
    """d == (M & S == 0) converted to an integer (`u8::from(..)`, `as u8`): returns (M, S), else None"""
    x = d
    for _ in range(3):
        if x.op == "cast":
            x = x.args[1]
        elif x.op == "call" and "From<bool>" in x.args[0] and x.args[1]:
            x = x.args[1][0]
        else:
            break
    if x.op == "bin" and x.args[0] == "Eq" and is_const(x.args[2]) and const_val(x.args[2]) == 0 and x.args[1].op == "bin" and x.args[1].args[0] == "BitAnd":
        a, b = x.args[1].args[1], x.args[1].args[2]
        return (a, b) if a.op == "phi" else (b, a)
    return None


def register(fn):
    FN_BY_ID[id(fn)] = fn


def trange(t):
    ty = ty_of(t)
    if ty is None:
        return None
    return int_range(ty)


def clamp(iv, rng):
    """Result of a wrapping operation: if the mathematical interval leaves the type range, anything is possible."""
    if iv is None:
        return rng
    if rng is None:
        return iv
    lo, hi = iv
    if lo < rng[0] or hi > rng[1]:
        return rng
    return iv


def meet(a, b):
    if a is None:
        return b
    if b is None:
        return a
    lo, hi = max(a[0], b[0]), min(a[1], b[1])
    if lo > hi:
        return (lo, hi)  # empty (unreachable code); callers treat lo > hi as bottom
    return (lo, hi)


def join(a, b):
    if a is None or b is None:
        return None
    if a[0] > a[1]:
        return b
    if b[0] > b[1]:
        return a
    return (min(a[0], b[0]), max(a[1], b[1]))


class Intervals:
    def __init__(self, fa, prog=None, assume=None, use_asserts=True):
        self.fa = fa
        self.prog = prog
        register(fa.fn)
        self.memo = {}
        self.inprog = set()
        self.gfacts = {}
        # use_asserts=False: only explicit branches count as facts (used by rules that ask which values the code
        # ACCEPTS, where a passed overflow assert must not be mistaken for a range check)
        self.use_asserts = use_asserts
        # externally justified facts (function preconditions / object invariants), each backed by a named rule
        self.assume = assume if isinstance(assume, dict) else {}
        self.assume_fn = assume if callable(assume) else None
        self.inv_facts = []        # proved loop invariants  phi <= len(slice argument), as canonical "le" facts
        self._inv_done = set()
        self._hyp = []

    # -------- guard facts at a block, as canonical linear inequalities
    def item_facts(self, atoms, b=None):
        """Relational facts about iterator items that occur among `atoms`:
        Range item i of start..end:  start <= i,  i + 1 <= end ;  Enumerate index over a slice: i + 1 <= len;
        unsigned x % y with y >= 1:  x % y + 1 <= y."""
        out = []
        # tinyvec's ArrayVec invariant: len() <= capacity() of the same vector value
        lens_ = [a for a in atoms if a.op == "call" and a.args[0] in libmodel.LEN_FNS and a.args[1]]
        caps_ = [a for a in atoms if a.op == "call" and a.args[0] in libmodel.CAP_FNS and a.args[1]]
        for l_ in lens_:
            for c_ in caps_:
                if l_.args[1][0] is c_.args[1][0]:
                    out.append(("le", frozenset(((l_, 1), (c_, -1))), 0))
        for a in atoms:
            if a.op == "call" and isinstance(a.args[0], str) and a.args[0].endswith("::saturating_sub") and len(a.args[1]) == 2:
                # unsigned saturating_sub(x, y) <= x
                la, ca = lin(a.args[1][0])
                d = {a: 1}
                for p, q in la:
                    d[p] = d.get(p, 0) - q
                out.append(("le", frozenset((p, q) for p, q in d.items() if q), -ca))
            if a.op == "bin" and a.args[0] == "Rem" and b is not None:
                y = a.args[2]
                yi = self.interval(y, b)
                xi = self.interval(a.args[1], b)
                if yi is not None and yi[0] >= 1 and xi is not None and xi[0] >= 0:
                    la, ca = lin(y)
                    d = {a: 1}
                    for p, q in la:
                        d[p] = d.get(p, 0) - q
                    out.append(("le", frozenset((p, q) for p, q in d.items() if q), 1 - ca))
            if a.op == "field" and a.args[1] == 0 and a.args[0].op == "downcast" and a.args[0].args[1] == 1 \
                    and a.args[0].args[0].op == "call":
                c = a.args[0].args[0]
                if c.args[0] == libmodel.RANGE_NEXT and len(c.args) >= 4 and c.args[2] == id(self.fa.fn):
                    src = libmodel.iterator_source(c, self.fa)
                    if src is not None:
                        x = src[0]
                        if x.op == "call" and x.args[0] == libmodel.INTO_ITER:
                            x = x.args[1][0]
                        if x.op == "agg" and x.args[0] == "core::ops::Range":
                            lo_t, hi_t = x.args[3]
                            la, ca = lin(hi_t)
                            d = {a: 1}
                            for p, q in la:
                                d[p] = d.get(p, 0) - q
                            out.append(("le", frozenset((p, q) for p, q in d.items() if q), 1 - ca))
            if a.op == "field" and a.args[1] == 0 and a.args[0].op == "downcast" and a.args[0].args[1] == 1 and a.args[0].args[0].op == "call" \
                    and isinstance(a.args[0].args[0].args[0], str) and libmodel.POSITION.fullmatch(a.args[0].args[0].args[0]):
                # Some(p) = slice.iter().position(..):  p + 1 <= len(slice)
                c = a.args[0].args[0]
                if len(c.args) >= 4 and c.args[2] == id(self.fa.fn):
                    src = libmodel.iterator_source(c, self.fa)
                    if src is not None:
                        x = src[0]
                        chain = []
                        while x.op == "call" and x.args[1]:
                            chain.append(x.args[0])
                            x = x.args[1][0]
                        if chain == ["core::slice::<impl [T]>::iter"] and x.op == "ref":
                            ln = self.fa.len_term(x.args[0])
                            la, ca = lin(ln)
                            d = {a: 1}
                            for p, q in la:
                                d[p] = d.get(p, 0) - q
                            out.append(("le", frozenset((p, q) for p, q in d.items() if q), 1 - ca))
            if a.op == "field" and a.args[1] == 0 and a.args[0].op == "field" and a.args[0].args[1] == 0 \
                    and a.args[0].args[0].op == "downcast" and a.args[0].args[0].args[1] == 1:
                c = a.args[0].args[0].args[0]
                if c.op == "call" and c.args[0] == "<core::iter::Enumerate<I> as core::iter::Iterator>::next" and c.args[2] == id(self.fa.fn):
                    src = libmodel.iterator_source(c, self.fa)
                    if src is not None:
                        x = src[0]
                        chain = []
                        while x.op == "call" and x.args[1]:
                            chain.append(x.args[0])
                            x = x.args[1][0]
                        if chain == [libmodel.INTO_ITER, "core::iter::Iterator::enumerate", "core::slice::<impl [T]>::iter"] and x.op == "ref":
                            ln = self.fa.len_term(x.args[0])
                            la, ca = lin(ln)
                            d = {a: 1}
                            for p, q in la:
                                d[p] = d.get(p, 0) - q
                            out.append(("le", frozenset((p, q) for p, q in d.items() if q), 1 - ca))
        return out

    def facts(self, b):
        r = self.gfacts.get(b)
        if r is None:
            r = []
            for g in self.fa.guards(b):
                if g[4] == "assert" and not self.use_asserts:
                    continue
                fc = fact_of_guard(g)
                if fc[0] in ("Lt", "Le", "Gt", "Ge", "Eq", "Ne"):
                    c = canon_le(fc)
                    if c is not None:
                        r.append((c, fc))
                elif fc[0] == "Bool" and fc[2] is True and fc[1].op == "bin" and fc[1].args[0] == "BitAnd":
                    # conjunction of comparisons (a desugared range test): both hold
                    for side in (fc[1].args[1], fc[1].args[2]):
                        if side.op == "bin" and side.args[0] in ("Lt", "Le", "Gt", "Ge", "Eq", "Ne"):
                            f2 = (side.args[0], side.args[1], side.args[2])
                            c = canon_le(f2)
                            if c is not None:
                                r.append((c, f2))
                elif fc[0] == "val":
                    # switch on an integer value: t == v / t not in (..)
                    r.append((("val", fc[1], fc[2], fc[3]), fc))
                elif fc[0] == "discr":
                    r.append((("discr", fc[1], fc[2], fc[3]), fc))
            self.gfacts[b] = r
        return r

    def interval(self, t, b, depth=0):
        key = (t, b)
        if key in self.memo:
            return self.memo[key]
        if key in self.inprog or depth > 60:
            return trange(t)
        self.inprog.add(key)
        try:
            iv = self._base(t, b, depth)
            rng = trange(t)
            if rng is not None:
                iv = meet(iv, rng) if iv is not None else rng
            if self.assume_fn is not None:
                a = self.assume_fn(t)
                if a is not None:
                    iv = meet(iv, a) if iv is not None else a
            iv = self._refine(t, b, iv, depth)
            if depth < 6 and iv is not None and rng is not None and rng[0] == 0 and iv[1] >= (1 << 62) and b is not None \
                    and ((t.op == "bin" and t.args[0] == "Add") or t.op == "phi" or (t.op == "field" and t.args[0].op == "downcast")):
                ub = self.relational_upper(t, b)
                if ub is not None and ub < iv[1]:
                    iv = (iv[0], ub)
        finally:
            self.inprog.discard(key)
        self.memo[key] = iv
        return iv

    # -------- structural evaluation
    def _base(self, t, b, depth):
        if t in self.assume:
            return self.assume[t]
        op = t.op
        rng = trange(t)
        if op == "const":
            v = const_val(t)
            if isinstance(v, int) and t.args[0] not in ("f32", "f64", "unit"):
                return (v, v)
            return None
        if op == "cast":
            kind, a = t.args[0], t.args[1]
            if kind == "IntToInt":
                ia = self.interval(a, b, depth + 1)
                if ia is None or rng is None:
                    return rng
                if rng[0] <= ia[0] and ia[1] <= rng[1]:
                    return ia
                # truncation / sign reinterpretation: low bits
                sty = ty_of(a)
                if ia[0] >= 0 and rng[0] == 0:
                    return (0, min(rng[1], ia[1])) if ia[1] <= rng[1] else rng
                return rng
            return rng   # FloatToInt saturates into the type range; others unknown
        if op == "bin":
            o, x, y = t.args
            if o in CMP:
                return self._cmp(o, x, y, b, depth)
            ix = self.interval(x, b, depth + 1)
            iy = self.interval(y, b, depth + 1)
            if ix is None or iy is None:
                return rng
            if ix[0] > ix[1] or iy[0] > iy[1]:
                return (1, 0)
            # checked arithmetic (dev profile): the value is only read after the overflow assert passed,
            # so it is the mathematical result and lies in the type range
            fit = (lambda m: meet(m, rng) if rng is not None else m) if t in CHECKED else (lambda m: clamp(m, rng))
            if o == "Add":
                return fit((ix[0] + iy[0], ix[1] + iy[1]))
            if o == "Sub":
                m = (ix[0] - iy[1], ix[1] - iy[0])
                return fit(m)
            if o == "Mul":
                c = [ix[0] * iy[0], ix[0] * iy[1], ix[1] * iy[0], ix[1] * iy[1]]
                return fit((min(c), max(c)))
            if o == "Div":
                if iy[0] > 0 and ix[0] >= 0:
                    return (ix[0] // iy[1], ix[1] // iy[0])
                return rng
            if o == "Rem":
                if iy[0] > 0 and ix[0] >= 0:
                    if ix[1] < iy[0]:
                        return ix
                    return (0, iy[1] - 1)
                return rng
            if o == "BitAnd":
                if ix[0] >= 0 and iy[0] >= 0:
                    return (0, min(ix[1], iy[1]))
                if iy[0] >= 0:
                    return (0, iy[1])
                if ix[0] >= 0:
                    return (0, ix[1])
                return rng
            if o in ("BitOr", "BitXor"):
                if ix[0] >= 0 and iy[0] >= 0:
                    n = max(ix[1], iy[1]).bit_length()
                    return (0 if o == "BitXor" else max(ix[0], iy[0]), (1 << n) - 1)
                return rng
            if o == "Shr":
                if ix[0] >= 0 and iy[0] >= 0:
                    return (ix[0] >> iy[1], ix[1] >> iy[0])
                return rng
            if o == "Shl":
                if iy[0] >= 0 and iy[1] < 200:
                    c = [ix[0] << iy[0], ix[0] << iy[1], ix[1] << iy[0], ix[1] << iy[1]]
                    return clamp((min(c), max(c)), rng)
                return rng
            return rng
        if op == "un":
            o, x = t.args
            ix = self.interval(x, b, depth + 1)
            if o == "Neg" and ix is not None:
                return clamp((-ix[1], -ix[0]), rng)
            if o == "Not" and ix is not None:
                ty = ty_of(t)
                if ty and ty.get("k") == "bool":
                    return (1 - ix[1], 1 - ix[0])
                if ty and ty.get("k") == "int":
                    return (-ix[1] - 1, -ix[0] - 1)
                if ty and ty.get("k") == "uint" and rng is not None:
                    return (rng[1] - ix[1], rng[1] - ix[0])
            return rng
        if op == "ovf":
            # overflow flag of a checked Add/Sub/Mul: 0 when the mathematical result fits the operand type
            o, x, y = t.args
            ix = self.interval(x, b, depth + 1)
            iy = self.interval(y, b, depth + 1)
            xr = trange(x)
            if ix is None or iy is None or xr is None:
                return (0, 1)
            if ix[0] > ix[1] or iy[0] > iy[1]:
                return (0, 0)
            if o == "Add":
                m = (ix[0] + iy[0], ix[1] + iy[1])
            elif o == "Sub":
                m = (ix[0] - iy[1], ix[1] - iy[0])
            elif o == "Mul":
                c = [ix[0] * iy[0], ix[0] * iy[1], ix[1] * iy[0], ix[1] * iy[1]]
                m = (min(c), max(c))
            else:
                return (0, 1)
            if xr[0] <= m[0] and m[1] <= xr[1]:
                return (0, 0)
            # relational fallback for x - y with a dominating y <= x
            if o == "Sub" and xr[0] == 0 and self.prove_le_terms(y, x, b):
                return (0, 0)
            if o == "Add" and xr[0] == 0 and ix[0] >= 0 and iy[0] >= 0 and depth < 6:
                lx_, cx_ = lin(x)
                ly_, cy_ = lin(y)
                d_ = dict(lx_)
                for p_, q_ in ly_:
                    d_[p_] = d_.get(p_, 0) + q_
                ub = self.relational_upper_lin(frozenset((p_, q_) for p_, q_ in d_.items() if q_), cx_ + cy_, b)
                if ub is not None and ub <= xr[1]:
                    return (0, 0)
            return (0, 1)
        if op == "len":
            return libmodel.len_interval(t, self, b)
        if op == "call":
            return libmodel.call_interval(t, self, b, depth)
        if op == "phi":
            return self._phi(t, b, depth)
        if op in ("field", "downcast", "index") or (op == "memval" and t.args[0].op == "pf" and t.args[0].args[0].op == "mem"):
            r = libmodel.projection_interval(t, self, b, depth)
            if r is not None:
                return r
            return rng
        if op == "discr":
            return libmodel.discr_interval(t, self, b)
        return rng

    def _cmp(self, o, x, y, b, depth):
        ix = self.interval(x, b, depth + 1)
        iy = self.interval(y, b, depth + 1)
        if ix is None or iy is None:
            return (0, 1)
        r = None
        if o == "Lt":
            r = 1 if ix[1] < iy[0] else (0 if ix[0] >= iy[1] else None)
        elif o == "Le":
            r = 1 if ix[1] <= iy[0] else (0 if ix[0] > iy[1] else None)
        elif o == "Gt":
            r = 1 if ix[0] > iy[1] else (0 if ix[1] <= iy[0] else None)
        elif o == "Ge":
            r = 1 if ix[0] >= iy[1] else (0 if ix[1] < iy[0] else None)
        elif o == "Eq":
            r = 1 if ix[0] == ix[1] == iy[0] == iy[1] else (0 if ix[1] < iy[0] or iy[1] < ix[0] else None)
        elif o == "Ne":
            r = 0 if ix[0] == ix[1] == iy[0] == iy[1] else (1 if ix[1] < iy[0] or iy[1] < ix[0] else None)
        return (r, r) if r is not None else (0, 1)

    def _phi(self, t, b, depth):
        fa = self.fa
        rng = trange(t)
        acc = (1, 0)
        deltas = []
        for pb, v in fa.phi_operands(t):
            if v is t:
                continue
            # accumulator: v = t + d (checked) on a back edge, possibly through inner phis (conditional increments)
            dl = self._delta_of(v, t, pb, 0)
            if dl is not None and dl != "self":
                deltas.extend(dl)
                continue
            if dl == "self":
                continue
            iv = self.interval(v, pb, depth + 1)
            if iv is None:
                return rng
            acc = join(acc, iv)
        if deltas:
            if acc[0] > acc[1] or rng is None:
                return rng
            bc = self._bit_counter(t, deltas, depth)
            if bc is not None:
                return meet((acc[0], acc[1] + bc), rng)
            import looptools
            h = t.args[2]
            body = fa.fn.loops().get(h)
            tb = looptools.trip_bound(fa.fn, fa, self, h, body) if body else None
            lo, hi = acc
            dlo = dhi = 0
            for pb, d in deltas:
                di = self.interval(d, pb, depth + 1)
                if di is None:
                    return rng
                # one header phi <- one latch value per iteration: the deltas are alternatives (paths of one iteration)
                # unless they are chained; chained increments appear as Add(Add(t,d1),d2) and are not matched here
                dlo = min(dlo, di[0])
                dhi = max(dhi, di[1])
            if tb is None:
                lo = lo if dlo >= 0 else rng[0]
                hi = hi if dhi <= 0 else rng[1]
            else:
                lo += dlo * tb
                hi += dhi * tb
            return meet((lo, hi), rng)
        return acc

    def _bit_counter(self, t, deltas, depth):
        """Distinct-bit counter idiom:  if mask & (1 << id) == 0 { mask |= 1 << id; counter += 1 }
        The counter is incremented at most once per bit position, so it grows by at most (#positions id can take).
        Requirements checked: single delta of exactly 1; its block is dominated by Eq(BitAnd(M, S), 0) with S = 1 << id;
        on every path through that block the mask M (a phi accumulator) is OR-ed with a 1 << id of the same id."""
        if len(deltas) != 1:
            return None
        pb, d = deltas[0]
        fa = self.fa
        fl = fresh_bit_flag(d)
        if fl is not None:
            # the unguarded spelling:  counter += u8::from(mask & bit == 0);  mask |= bit;   (the flag is 1 exactly when the bit is new)
            M, S = fl
            if M.op == "phi" and M.args[2] == t.args[2] and S.op == "bin" and S.args[0] == "Shl" and is_const(S.args[1]) and const_val(S.args[1]) == 1:
                idt = S.args[2]
                ors = []
                for qb, w in fa.phi_operands(M):
                    if w.op == "bin" and w.args[0] == "BitOr" and (w.args[1] is M or w.args[2] is M):
                        ors.append(w.args[2] if w.args[1] is M else w.args[1])
                    elif w is not M and not is_const(w):
                        ors.append(None)
                if ors and all(o is S for o in ors):
                    ii = self.interval(idt, pb, depth + 1)
                    if ii is not None and ii[0] >= 0 and ii[1] - ii[0] < 4096:
                        return ii[1] - ii[0] + 1
            return None
        if not (is_const(d) and const_val(d) == 1):
            return None
        # the increment's own block: the Add term is defined where the guard holds; use the guards of pb and its dominators
        for g in fa.guards(pb):
            fc = fact_of_guard(g)
            if fc[0] == "Eq" and is_const(fc[2]) and const_val(fc[2]) == 0 and fc[1].op == "bin" and fc[1].args[0] == "BitAnd":
                for M, S in ((fc[1].args[1], fc[1].args[2]), (fc[1].args[2], fc[1].args[1])):
                    if M.op == "phi" and M.args[2] == t.args[2] and S.op == "bin" and S.args[0] == "Shl" and is_const(S.args[1]) and const_val(S.args[1]) == 1:
                        idt = S.args[2]
                        # M's update along the same path: BitOr(M, Shl(1, idt))
                        upd = False
                        for qb, w in fa.phi_operands(M):
                            st = [w]
                            seen = set()
                            while st:
                                x = st.pop()
                                if x in seen:
                                    continue
                                seen.add(x)
                                if x.op == "phi" and x is not M:
                                    st.extend(v for _, v in fa.phi_operands(x))
                                elif x.op == "bin" and x.args[0] == "BitOr" and (x.args[1] is M or x.args[2] is M):
                                    o = x.args[2] if x.args[1] is M else x.args[1]
                                    if o.op == "bin" and o.args[0] == "Shl" and is_const(o.args[1]) and const_val(o.args[1]) == 1 and o.args[2] is idt:
                                        upd = True
                        if not upd:
                            continue
                        ii = self.interval(idt, pb, depth + 1)
                        if ii is not None and ii[0] >= 0 and ii[1] - ii[0] < 4096:
                            return ii[1] - ii[0] + 1
        return None

    def _delta_of(self, v, t, pb, depth):
        """If v == t: 'self'.  If v == t + d or a phi over such values: list of (block, delta term) (0 deltas omitted)."""
        if v is t:
            return "self"
        if depth > 4:
            return None
        if v.op == "bin" and v.args[0] == "Add" and v in CHECKED and (v.args[1] is t or v.args[2] is t):
            d = v.args[2] if v.args[1] is t else v.args[1]
            return [(pb, d)]
        if v.op == "phi" and v is not t:
            out = []
            for qb, w in self.fa.phi_operands(v):
                r = self._delta_of(w, t, qb, depth + 1)
                if r is None:
                    return None
                if r != "self":
                    out.extend(r)
            return out if out else "self"
        return None

    # -------- refinement by dominating facts
    def _refine(self, t, b, iv, depth):
        if is_const(t):
            return iv
        # product facts:  x*y >= 1 (non-negative factors) => x >= 1, y >= 1 ;  x*y <= K and y >= 1 => x <= K
        if depth < 30 and iv is not None and iv[0] >= 0:
            for c, fc in self.facts(b):
                if c[0] in ("le", "eq", "ne"):
                    for a, q in c[1]:
                        if a.op == "bin" and a.args[0] == "Mul" and (a.args[1] is t or a.args[2] is t) and a is not t:
                            other = a.args[2] if a.args[1] is t else a.args[1]
                            oi = self.interval(other, b, depth + 1) if other is not t else iv
                            pi = self.interval(a, b, depth + 1)
                            if oi is None or pi is None or oi[0] < 0:
                                continue
                            if pi[0] >= 1:
                                iv = meet(iv, (1, 1 << 200))
                            if oi[0] >= 1:
                                iv = meet(iv, (0, pi[1]))
        for c, fc in self.facts(b):
            if c[0] == "val":
                if c[1] is t:
                    if c[2] == "eq":
                        iv = meet(iv, (c[3], c[3]))
                    elif iv is not None:
                        # ne: trim the ends
                        lo, hi = iv
                        vs = set(c[3])
                        while lo in vs and lo <= hi:
                            lo += 1
                        while hi in vs and hi >= lo:
                            hi -= 1
                        iv = (lo, hi)
                continue
            if c[0] == "discr":
                if t.op == "discr" and t.args[0] is c[1]:
                    if c[2] == "eq":
                        iv = meet(iv, (c[3], c[3]))
                    elif iv is not None:
                        lo, hi = iv
                        vs = set(c[3])
                        while lo in vs and lo <= hi:
                            lo += 1
                        while hi in vs and hi >= lo:
                            hi -= 1
                        iv = (lo, hi)
                continue
            kind, atoms, k = c
            d = dict(atoms)
            if t not in d:
                continue
            ct = d[t]
            if abs(ct) != 1:
                continue
            # sum of the other atoms' intervals
            lo_o = hi_o = 0
            ok = True
            for a, q in d.items():
                if a is t:
                    continue
                ia = self.interval(a, b, depth + 1) if depth < 40 else trange(a)
                if ia is None:
                    ok = False
                    break
                lo_o += min(q * ia[0], q * ia[1])
                hi_o += max(q * ia[0], q * ia[1])
            if not ok:
                continue
            if kind == "le":
                # ct*t + others + k <= 0
                if ct == 1:
                    # t <= -k - others  => t <= -k - lo_o
                    iv = meet(iv, (-(1 << 200), -k - lo_o))
                else:
                    # -t + others + k <= 0 => t >= others + k >= lo_o + k
                    iv = meet(iv, (lo_o + k, 1 << 200))
            elif kind == "eq":
                # ct*t + others + k == 0
                if ct == 1:
                    iv = meet(iv, (-k - hi_o, -k - lo_o))
                else:
                    iv = meet(iv, (lo_o + k, hi_o + k))
            elif kind == "ne":
                if len(d) == 1 and iv is not None:
                    v = -k if ct == 1 else k
                    lo, hi = iv
                    if lo == v:
                        lo += 1
                    if hi == v:
                        hi -= 1
                    iv = (lo, hi)
        return iv

    # -------- proving a linear inequality  sum + k <= 0  at block b
    def prove_le(self, atoms, k, b):
        """atoms: iterable of (term, coef).  True if  sum(coef*term) + k <= 0  is established at b."""
        atoms = [(a, q) for a, q in atoms if q != 0]
        hi = k
        ok = True
        for a, q in atoms:
            ia = self.interval(a, b)
            if ia is None:
                ok = False
                break
            hi += max(q * ia[0], q * ia[1])
        if ok and hi <= 0:
            return True
        # single-fact linear subsumption
        want = frozenset(atoms)
        for a, q in atoms:
            if a.op == "phi" and q > 0:
                self.phi_invariant(a)
        pool = list(self.item_facts([a for a, q in atoms], b)) + list(self.inv_facts) + list(self._hyp)
        for c in pool:
            if c[1] == want and c[2] >= k:
                return True
        # two-fact chaining (x <= y and y <= z): sums of two available "le" facts
        les = [c for c in pool if c[0] == "le"] + [c for c, fc in self.facts(b) if c[0] == "le"]
        # facts about atoms that appear in those facts (one more round of item facts)
        extra_atoms = {a for c in les for a, q in c[1]}
        les += [c for c in self.item_facts(list(extra_atoms), b) if c[0] == "le" and c not in les]
        if len(les) <= 60:
            for i in range(len(les)):
                for j in range(i + 1, len(les)):
                    d = dict(les[i][1])
                    for a, q in les[j][1]:
                        d[a] = d.get(a, 0) + q
                    if frozenset((a, q) for a, q in d.items() if q) == want and les[i][2] + les[j][2] >= k:
                        return True
        for c, fc in self.facts(b):
            if c[0] == "le" and c[1] == want and c[2] >= k:
                return True
            if c[0] == "eq":
                if c[1] == want and c[2] >= k:
                    return True
                neg = frozenset((a, -q) for a, q in c[1])
                if neg == want and -c[2] >= k:
                    return True
        return False

    def slice_arg_lens(self):
        """len(*arg) for every argument of the function that is a reference to a slice"""
        out = []
        f = self.fa.fn
        for k in range(1, f.rec.get("argc", 0) + 1):
            ty = f.locals[k]
            if ty.get("k") == "ref" and ty.get("to", {}).get("k") == "slice":
                out.append(self.fa.len_term(mk("mem", self.fa.start_val(k, 0))))
        return out

    def phi_invariant(self, t):
        """Try to establish  t <= len(slice argument)  for a loop-header phi by induction over its operands."""
        if t in self._inv_done:
            return
        self._inv_done.add(t)
        ty = ty_of(t)
        if not ty or ty.get("k") != "uint":
            return
        fa = self.fa
        ops = list(fa.phi_operands(t))
        if not ops or t.args[2] not in fa.fn.loops():
            return
        for L in self.slice_arg_lens():
            la, ca = lin(L)
            hyp = {t: 1}
            for p_, q_ in la:
                hyp[p_] = hyp.get(p_, 0) - q_
            hfact = ("le", frozenset((p_, q_) for p_, q_ in hyp.items() if q_), -ca)
            self._hyp.append(hfact)
            ok = True
            try:
                for pb, v in ops:
                    if v is t:
                        continue
                    if not self.prove_le_terms(v, L, pb):
                        ok = False
                        break
            finally:
                self._hyp.pop()
            if ok:
                self.inv_facts.append(hfact)
                self.memo.pop((t, None), None)
                return

    def relational_upper(self, t, b):
        """Upper bound of an unsigned sum from a relational fact  t + k <= len(..)  (None if there is none)."""
        la, ca = lin(t)
        return self.relational_upper_lin(la, ca, b)

    def relational_upper_lin(self, la, ca, b):
        atoms = [a for a, q in la]
        for a in atoms:
            if a.op == "phi":
                self.phi_invariant(a)
        best = None
        cands = set()
        for c in list(self.item_facts(atoms, b)) + list(self.inv_facts):
            if c[0] == "le":
                for a, q in c[1]:
                    if q < 0 and (a.op == "len" or (a.op == "bin" and a.args[0] == "Sub")):
                        cands.add(a)
        for c in self.slice_arg_lens():
            cands.add(c)
        for L in cands:
            li = self.interval(L, b)
            if li is None:
                continue
            for k in (1, 0):
                d = dict(la)
                lb_, cb_ = lin(L)
                for p_, q_ in lb_:
                    d[p_] = d.get(p_, 0) - q_
                if self.prove_le(list(d.items()), ca - cb_ + k, b):
                    v = li[1] - k
                    best = v if best is None else min(best, v)
                    break
        return best

    def prove_lt_terms(self, x, y, b):
        """x < y at block b"""
        lx, cx = lin(x)
        ly, cy = lin(y)
        d = dict(lx)
        for a, q in ly:
            d[a] = d.get(a, 0) - q
        return self.prove_le(d.items(), cx - cy + 1, b)

    def prove_le_terms(self, x, y, b):
        lx, cx = lin(x)
        ly, cy = lin(y)
        d = dict(lx)
        for a, q in ly:
            d[a] = d.get(a, 0) - q
        return self.prove_le(d.items(), cx - cy, b)
