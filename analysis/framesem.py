"""Abstract interpretation of MessageFrame::new against the specification of C03 / C13 (same domains as bitsem.py).

The input slice is symbolic: unknown length LEN, symbolic bytes, and the 10-bit payload length L = ((b1 & 3) << 8) | b2 is the
affine variable Q of the interpreter (a bit vector that has exactly that bit pattern is read as Q when it is used in
arithmetic or in a comparison - so the way L is computed does not matter, only which bits it is made of).  The state is
partitioned on L in {0}, {1}, [2, 1023] (the message-number clause).  Branches on LEN, on byte values and on the checksum
comparison fork and record the fact they imply; the checksum is a vector of 24 symbolic bits tagged with the digested
ranges.  Every finished path is then compared with the decision table of the property:

    region b0 == 0xD3:   LEN <  L+6                     -> Err(Incomplete)
                         LEN >= L+6, CRC(0..L+3) == bytes L+3..L+5 (24 bits, big endian) -> Ok(frame) with the specified fields
                         LEN >= L+6, otherwise          -> Err(NotValid)
    region b0 != 0xD3:   any error

and every byte read must be covered by a bound on LEN established on the path (no panic, nothing read beyond L+6).
"""
import os
import bitsem
from bitsem import (Interp, State, BV, Lin, Sym, UBool, Ref, Adt, Tup, Opaque, Undecided, Panic, bf_atom, bv_const, lin_parts, mklin, add, sub,
                    lin_range, bit_str)

NEW = "message_frame::MessageFrame::new"


class BPred(object):
    """Unknown truth value of  lhs == rhs  for two bit vectors (neg: !=)."""
    __slots__ = ("lhs", "rhs", "neg")

    def __init__(self, lhs, rhs, neg):
        self.lhs, self.rhs, self.neg = lhs, rhs, neg


class SmallIt(object):
    """an iterator whose (at most 16) items are known one by one"""

    def __init__(self, items):
        self.items = list(items)


class CrcObj(object):
    def __init__(self):
        self.ranges = []


def byte_bv(a, c):
    return BV([bf_atom(("D", a, c, i)) for i in range(8)], False)


def length_pattern(bv):
    """Is bv the zero-extended 10-bit length  [b1.1 b1.0 b2.7 .. b2.0] ?"""
    bits = bv.bits
    if len(bits) < 10:
        return False
    for i in range(8):
        if bits[i] != bf_atom(("D", 0, 2, i)):
            return False
    if bits[8] != bf_atom(("D", 0, 1, 0)) or bits[9] != bf_atom(("D", 0, 1, 1)):
        return False
    return all(b == 0 for b in bits[10:])


class FrameState(State):
    def __init__(self):
        State.__init__(self)
        self.bfacts = []        # (lhs bits, rhs bits, truth)
        self.vfacts = []        # (bits, 'eq', v) | (bits, 'ne', (v..))
        self.reads = set()


class FrameInterp(Interp):
    def __init__(self, prog, f):
        Interp.__init__(self, prog, f, "frame", 0, 0, 64)

    # bytes of the input are never written; reads need a proven bound
    def read_byte(self, st, idx):
        self.check_in_bounds(st, idx)
        st.reads.add(self.byte_key(idx))
        a, c = lin_parts(idx)
        return byte_bv(a, c)

    def write_byte(self, st, idx, v):
        raise Undecided("MessageFrame::new writes to its input")

    def to_int(self, v):
        if isinstance(v, BV):
            c = v.concrete()
            if c is not None:
                return c
            if length_pattern(v):
                return Lin(1, 0)
        return v

    def binop(self, st, op, x, y, tya, dest_ty):
        base = op[:-12] if op.endswith("WithOverflow") else op
        if base in ("Add", "Sub", "Mul", "Div", "Rem"):
            x, y = self.to_int(x), self.to_int(y)
        return Interp.binop(self, st, op, x, y, tya, dest_ty)

    def compare(self, op, x, y):
        xi, yi = self.to_int(x), self.to_int(y)
        # k*LEN + c  op  y   <=>   k*LEN  op  y - c      (lengths of suffixes of the input)
        if isinstance(xi, Sym) and isinstance(yi, Sym) and xi.k == yi.k and not isinstance(xi, BV):
            return Interp.compare(self, op, xi.c if xi.c else 0, yi.c if yi.c else 0)
        if isinstance(xi, Sym) and not isinstance(xi.c, int) and lin_parts(yi) is not None:
            return Interp.compare(self, op, Sym(xi.k), sub(yi, xi.c))
        if isinstance(yi, Sym) and not isinstance(yi.c, int) and lin_parts(xi) is not None:
            return Interp.compare(self, op, sub(xi, yi.c), Sym(yi.k))
        if not isinstance(xi, BV) and not isinstance(yi, BV):
            return Interp.compare(self, op, xi, yi)
        # bit-vector (in)equality
        if op in ("Eq", "Ne"):
            w = x.w if isinstance(x, BV) else y.w
            return BPred(self.as_bv(x, w), self.as_bv(y, w), op == "Ne")
        raise Undecided("ordering comparison of symbolic bytes")

    def cast(self, v, src_ty, dst_ty):
        if isinstance(v, Sym):
            raise Undecided("the length of the input is cast to another integer type")
        if isinstance(v, Lin):
            d = bitsem.ty_bits(dst_ty)
            lo, hi = lin_range(v)
            if d and lo >= 0 and hi < (1 << (d[0] - (1 if d[1] else 0))):
                return v
        return Interp.cast(self, v, src_ty, dst_ty)

    def rvalue(self, st, rv, dest_place):
        if rv["k"] == "unop" and rv.get("op") == "PtrMetadata":
            v = self.operand(st, rv.get("a") or rv.get("arg") or rv.get("operand"))
            return self.slice_len(v)
        if rv["k"] == "unop" and rv.get("op") == "Not":
            v = self.operand(st, rv.get("a") or rv.get("arg") or rv.get("operand"))
            if isinstance(v, BPred):
                return BPred(v.lhs, v.rhs, not v.neg)
        return Interp.rvalue(self, st, rv, dest_place)

    def slice_len(self, v):
        if isinstance(v, Ref) and v.loc[0] == "slice":
            lo, hi = v.loc[1], v.loc[2]
            if hi is None:
                if lin_parts(lo) == (0, 0):
                    return Sym(1)
                if lin_parts(lo) is not None:
                    return Sym(1, sub(0, lo))          # data[lo..].len() = LEN - lo
                raise Undecided("length of an open sub-slice")
            return sub(hi, lo)
        return Interp.slice_len(self, v)

    def call(self, st, t):
        c = t.get("resolved") or t["callee"]
        if c == "crc_any::CRC::crc24lte_a":
            return CrcObj()
        if c == "crc_any::CRC::digest":
            args = [self.operand(st, a) for a in t["args"]]
            obj = self._get(st, args[0].loc) if isinstance(args[0], Ref) else None
            sl = args[1]
            if not isinstance(obj, CrcObj) or not (isinstance(sl, Ref) and sl.loc[0] == "slice" and sl.loc[2] is not None):
                raise Undecided("digest of something that is not a bounded sub-slice of the input")
            obj.ranges.append((sl.loc[1], sl.loc[2]))
            return bitsem.UNIT
        if c == "crc_any::CRC::get_crc":
            args = [self.operand(st, a) for a in t["args"]]
            obj = self._get(st, args[0].loc) if isinstance(args[0], Ref) else None
            if not isinstance(obj, CrcObj):
                raise Undecided("get_crc on an unknown object")
            key = tuple((lin_parts(a), lin_parts(b)) for a, b in obj.ranges)
            return BV([bf_atom(("CRC", key, i)) for i in range(24)] + [0] * 40, False)
        if c.startswith("crc_any::"):
            raise Undecided("call of %s" % c)
        if c in ("core::slice::<impl [T]>::ends_with", "core::slice::<impl [T]>::starts_with"):
            # a bounded piece of the input against a short local byte sequence: the bytewise comparison of its last / first n bytes
            args = [self.operand(st, a) for a in t["args"]]
            base, nd = args[0], args[1]
            vals = None
            if isinstance(nd, Ref) and nd.loc[0] == "vals":
                vals = list(nd.loc[1])
            elif isinstance(nd, Ref) and nd.loc[0] in ("local", "sub"):
                vals = self._get(st, nd.loc)
                if isinstance(vals, Ref):
                    vals = self._get(st, vals.loc)
            if not (isinstance(base, Ref) and base.loc[0] == "slice" and base.loc[2] is not None and isinstance(vals, list) and 0 < len(vals) <= 8):
                raise Undecided("%s on unmodelled operands" % c.rsplit("::", 1)[1])
            n = len(vals)
            if self.compare("Le", add(base.loc[1], n), base.loc[2]) != 1:
                raise Undecided("%s: the piece may be shorter than the needle" % c.rsplit("::", 1)[1])
            start = sub(base.loc[2], n) if c.endswith("ends_with") else base.loc[1]
            lhs, rhs = [], []
            for k_ in reversed(range(n)):
                lhs.extend(self.as_bv(self.read_byte(st, add(start, k_)), 8).bits)
                rhs.extend(self.as_bv(vals[k_], 8).bits)
            return BPred(BV(lhs, False), BV(rhs, False), False)
        if c in ("core::slice::<impl [T]>::get", "core::slice::<impl [T]>::split_at", "core::slice::<impl [T]>::first",
                 "core::slice::<impl [T]>::split_first", "core::slice::<impl [T]>::is_empty"):
            args = [self.operand(st, a) for a in t["args"]]
            base = args[0]
            if not (isinstance(base, Ref) and base.loc[0] == "slice"):
                raise Undecided("%s on something that is not the input" % c)
            lo0, hi0 = base.loc[1], base.loc[2]
            short = c.rsplit("::", 1)[1]
            if short == "get":
                rg = args[1]
                if isinstance(rg, Adt) and (rg.path or "").startswith("core::ops::Range"):
                    nm = rg.path.rsplit("::", 1)[-1]
                    if nm == "RangeTo":
                        lo, hi = lo0, add(lo0, self.to_int(rg.fields[0]))
                    elif nm == "Range":
                        lo, hi = add(lo0, self.to_int(rg.fields[0])), add(lo0, self.to_int(rg.fields[1]))
                    elif nm == "RangeFrom":
                        lo, hi = add(lo0, self.to_int(rg.fields[0])), hi0
                    else:
                        raise Undecided("get with range kind " + nm)
                    if hi is None:
                        # data.get(n..) on the open buffer: Some iff n <= LEN
                        cond = self.compare("Ge", Sym(1), lo)
                        return ("fork-option", cond, Ref(("slice", lo, None)))
                    # Some iff lo <= hi <= len
                    if self.compare("Le", lo, hi) != 1:
                        raise Undecided("get with a possibly inverted range")
                    cond = self.compare("Ge", Sym(1), hi) if hi0 is None else self.compare("Le", hi, hi0)
                    return ("fork-option", cond, Ref(("slice", lo, hi)))
                idx = self.to_int(rg)
                if lin_parts(idx) is None:
                    raise Undecided("get with an unmodelled index")
                pos = add(lo0, idx)
                cond = self.compare("Gt", Sym(1), pos) if hi0 is None else self.compare("Lt", pos, hi0)
                return ("fork-option", cond, Ref(("byte", pos)))
            if short == "split_at":
                mid = add(lo0, self.to_int(args[1]))
                if hi0 is None:
                    # the open input: fine exactly when mid <= LEN is known on this path
                    cnd = self.compare("Ge", Sym(1), mid)
                    if isinstance(cnd, UBool):
                        cnd = self.decide(st, cnd)
                    if cnd is None:
                        raise Undecided("split_at(%s) on the input is not covered by a length test on this path" % (mid,))
                    if not cnd:
                        raise Panic("split_at beyond the end of the input")
                    if self.compare("Le", lo0, mid) != 1:
                        raise Panic("split_at before the start of the slice")
                    return Tup([Ref(("slice", lo0, mid)), Ref(("slice", mid, None))])
                if self.compare("Le", mid, hi0) != 1 or self.compare("Le", lo0, mid) != 1:
                    raise Panic("split_at beyond the end of the slice")
                return Tup([Ref(("slice", lo0, mid)), Ref(("slice", mid, hi0))])
            if short == "is_empty":
                if hi0 is None:
                    return self.compare("Lt", Sym(1), add(lo0, 1))
                return self.compare("Eq", lo0, hi0)
            if short in ("first", "split_first"):
                cond = self.compare("Gt", Sym(1), lo0) if hi0 is None else self.compare("Lt", lo0, hi0)
                some = Ref(("byte", lo0)) if short == "first" else Tup([Ref(("byte", lo0)), Ref(("slice", add(lo0, 1), hi0))])
                return ("fork-option", cond, some)
            raise Undecided("call of %s" % c)
        if c in ("core::iter::Iterator::zip", "core::iter::Iterator::map", "core::iter::Iterator::sum", "core::iter::Iterator::fold",
                 "core::iter::Iterator::rev", "core::iter::Iterator::enumerate") and t["args"]:
            r_ = self.small_iter_call(st, t, c)
            if r_ is not None:
                return r_
        m_ = bitsem.re.fullmatch(r"core::num::<impl u(8|16|32|64)>::to_(be|le)_bytes", c)
        if m_:
            # the integer as an array of its bytes (checksum trailer compared bytewise)
            args = [self.operand(st, a) for a in t["args"]]
            w = int(m_.group(1))
            bv = self.as_bv(args[0], w)
            bytes_ = [BV(list(bv.bits[8 * k:8 * k + 8]), False) for k in range(w // 8)]
            return list(reversed(bytes_)) if m_.group(2) == "be" else bytes_
        if c in ("core::array::<impl core::ops::Index<I> for [T; N]>::index",):
            args = [self.operand(st, a) for a in t["args"]]
            arr = self._get(st, args[0].loc) if isinstance(args[0], Ref) else None
            rg = args[1]
            if not isinstance(arr, list) or not (isinstance(rg, Adt) and (rg.path or "").startswith("core::ops::Range")):
                raise Undecided("index of something that is not a local byte array by a range")
            nm = rg.path.rsplit("::", 1)[-1]
            cs = [lin_parts(self.to_int(x)) for x in rg.fields]
            if any(x is None or x[0] != 0 for x in cs):
                raise Undecided("sub-slice of a local array with a symbolic bound")
            cs = [x[1] for x in cs]
            if nm == "RangeFrom":
                lo, hi = cs[0], len(arr)
            elif nm == "RangeTo":
                lo, hi = 0, cs[0]
            elif nm == "Range":
                lo, hi = cs[0], cs[1]
            elif nm == "RangeFull":
                lo, hi = 0, len(arr)
            else:
                raise Undecided("range kind " + nm)
            if not (0 <= lo <= hi <= len(arr)):
                raise Panic("sub-slice of a local array out of range")
            return Ref(("vals", tuple(arr[lo:hi])))
        if c.endswith("PartialEq::ne") or c.endswith("PartialEq::eq") or bitsem.re.fullmatch(r"core::slice::cmp::<impl core::cmp::PartialEq<\[U\]> for \[T\]>::(eq|ne)", c):
            args = [self.operand(st, a) for a in t["args"]]
            sides = []
            for a in args:
                if isinstance(a, Ref) and a.loc[0] == "vals":
                    sides.append(list(a.loc[1]))
                elif isinstance(a, Ref) and a.loc[0] == "slice" and a.loc[2] is not None:
                    n = lin_parts(sub(a.loc[2], a.loc[1]))
                    if n is None or n[0] != 0 or not (0 <= n[1] <= 8):
                        raise Undecided("comparison of an input sub-slice of symbolic length")
                    sides.append([self.read_byte(st, add(a.loc[1], k)) for k in range(n[1])])
                else:
                    raise Undecided("call of %s on unmodelled operands" % c)
            neg = c.endswith("::ne")
            if len(sides[0]) != len(sides[1]):
                return 1 if neg else 0
            if not sides[0]:
                return 0 if neg else 1
            lhs, rhs = [], []
            for x, y in zip(reversed(sides[0]), reversed(sides[1])):     # slices compare bytewise: first byte = most significant
                lhs.extend(self.as_bv(x, 8).bits)
                rhs.extend(self.as_bv(y, 8).bits)
            return BPred(BV(lhs, False), BV(rhs, False), neg)
        if c in ("<T as core::convert::TryInto<U>>::try_into", "<T as core::convert::TryFrom<U>>::try_from") or \
                bitsem.re.fullmatch(r"core::array::<impl core::convert::TryFrom<&'?\w* ?\[T\]> for \[T; N\]>::try_from", c):
            # a piece of the input as a byte array: Ok exactly when the piece has the array's length
            args = [self.operand(st, a) for a in t["args"]]
            src = args[0]
            dty = self.place_ty(t["dest"])
            arrs = [x for x in (dty.get("args") or []) if isinstance(x, dict) and x.get("k") == "array"]
            if not (isinstance(src, Ref) and src.loc[0] == "slice" and src.loc[2] is not None and len(arrs) == 1 and str(arrs[0].get("len", "")).isdigit()):
                raise Undecided("try_into of something that is not a bounded piece of the input into a byte array")
            n = lin_parts(sub(src.loc[2], src.loc[1]))
            if n is None or n[0] != 0:
                raise Undecided("try_into of a piece of symbolic length")
            if n[1] != int(arrs[0]["len"]):
                return Adt("core::result::Result", 1, "Err", [Opaque("TryFromSliceError", ())])
            return Adt("core::result::Result", 0, "Ok", [[self.read_byte(st, add(src.loc[1], k)) for k in range(n[1])]])
        if bitsem.re.fullmatch(r"core::num::<impl u(8|16|32|64|size)>::from_be_bytes", c):
            args = [self.operand(st, a) for a in t["args"]]
            arr = args[0]
            if not isinstance(arr, list):
                raise Undecided("from_be_bytes of a non-array")
            bits = []
            for bt in reversed(arr):
                bits.extend(self.as_bv(bt, 8).bits)
            return BV(bits, False)
        if bitsem.re.fullmatch(r"core::convert::num::<impl core::convert::From<u(8|16|32)> for (u|i)(16|32|64|size)>::from", c):
            args = [self.operand(st, a) for a in t["args"]]
            v = args[0]
            d = bitsem.ty_bits(self.place_ty(t["dest"]))
            if isinstance(v, BV) and d:
                return BV(list(v.bits) + [0] * (d[0] - v.w), d[1])
            return v
        return Interp.call(self, st, t)

    # ---- short iterator pipelines over a bounded piece of the input (the three checksum bytes): unrolled
    def small_items(self, st, v):
        """the items of an iterator value as a Python list, or None"""
        if isinstance(v, SmallIt):
            return v.items
        if isinstance(v, bitsem.It) and v.take is None and v.skip is None and v.end is not None:
            n = lin_parts(sub(v.end, v.idx))
            if n is None or n[0] != 0 or not (0 <= n[1] <= 16):
                return None
            items = []
            for k in range(n[1]):
                ref = Ref(("byte", add(v.idx, k)))
                items.append(Tup([(v.enum or 0) + k, ref]) if v.enum is not None and isinstance(v.enum, int) else ref)
            return items
        if isinstance(v, list) and len(v) <= 16:
            return list(v)
        return None

    def small_iter_call(self, st, t, c):
        args = [self.operand(st, a) for a in t["args"]]
        short = c.rsplit("::", 1)[1]
        base = self.small_items(st, args[0])
        if base is None:
            return None
        if short == "zip":
            other = self.small_items(st, args[1])
            if other is None:
                return None
            return SmallIt([Tup([x, y]) for x, y in zip(base, other)])
        if short == "rev":
            return SmallIt(list(reversed(base)))
        if short == "enumerate":
            return SmallIt([Tup([k, x]) for k, x in enumerate(base)])
        if short == "map" and isinstance(args[1], bitsem.Closure):
            return SmallIt([self.exec_closure(st, args[1], [x]) for x in base])
        if short == "sum":
            d = bitsem.ty_bits(self.place_ty(t["dest"]))
            if not d:
                return None
            acc = bv_const(0, d[0])
            for x in base:
                acc = self.add_disjoint(acc, self.as_bv(x, d[0]))
            return acc
        if short == "fold" and len(args) == 3 and isinstance(args[2], bitsem.Closure):
            acc = args[1]
            for x in base:
                acc = self.exec_closure(st, args[2], [acc, x])
            return acc
        return None

    def add_disjoint(self, x, y):
        """x + y for bit vectors that have no position where both may be 1: the sum is the bitwise or"""
        xc, yc = x.concrete(), y.concrete()
        if xc is not None and yc is not None:
            return bv_const((xc + yc) & ((1 << x.w) - 1), x.w)
        bits = []
        for a, b in zip(x.bits, y.bits):
            if a == 0:
                bits.append(b)
            elif b == 0:
                bits.append(a)
            else:
                raise Undecided("addition of symbolic values whose bits overlap")
        return BV(bits, False)

    def as_bv(self, v, w, signed=None):
        if isinstance(v, Lin):
            raise Undecided("the payload length is used as a bit pattern after arithmetic")
        if isinstance(v, BV) and v.w != w:
            if v.w < w:
                return BV(list(v.bits) + [0] * (w - v.w), signed)
            return BV(v.bits[:w], signed)
        return Interp.as_bv(self, v, w, signed)

    # ---- driver with forks on byte / checksum predicates
    def stop_at(self, st, b):
        """hook: a subclass may end a path when it arrives at block b (loop heads in scansem.py)"""
        return False

    def run(self, st, start=0):
        work = [(st, start)]
        paths = 0
        first = True
        while work:
            st, b = work.pop()
            while True:
                st.steps += 1
                if st.steps > 20000:
                    raise Undecided("abstract execution does not terminate within 20000 blocks")
                if not first and self.stop_at(st, b):
                    paths += 1
                    break
                first = False
                blk = self.blocks[b]
                for s in blk["stmts"]:
                    if s["k"] != "assign":
                        continue
                    self.line = s.get("line")
                    v = self.rvalue(st, s["rv"], s["place"])
                    self._set(st, self.resolve(st, s["place"]), v)
                t = blk["term"]
                self.line = t.get("line", self.line)
                k = t["k"]
                if k == "goto":
                    b = t["target"]
                    continue
                if k == "return":
                    self.results.append((st, st.locals.get(0)))
                    paths += 1
                    break
                if k == "assert":
                    c = self.operand(st, t["cond"])
                    st.asserts += 1
                    self.assert_sites.add((t.get("line"), t["kind"]))
                    if isinstance(c, UBool):
                        dd = self.decide(st, c)
                        if dd is None:
                            raise Undecided("%s is not covered by a length test on this path" % t["kind"])
                        c = 1 if dd else 0
                    if isinstance(c, BPred):
                        raise Undecided("assert on a byte comparison")
                    if not isinstance(c, int):
                        raise Undecided("assert %s on a non-constant" % t["kind"])
                    if bool(c) != bool(t["expected"]):
                        raise Panic("%s" % t["kind"])
                    b = t["target"]
                    continue
                if k == "switch":
                    d = self.operand(st, t["discr"])
                    if isinstance(d, UBool):
                        dd = self.decide(st, d)
                        if dd is not None:
                            d = 1 if dd else 0
                    if isinstance(d, BPred):
                        dd = self.bdecide(st, d)
                        if dd is not None:
                            d = 1 if dd else 0
                    if isinstance(d, (UBool, BPred)):
                        for val in (1, 0):
                            tgt = self.arm(t, val)
                            s2 = st.clone()
                            if isinstance(d, UBool):
                                self.learn(s2, d.k, d.lin, bool(val) != d.neg)
                            else:
                                s2.bfacts.append((d.lhs.bits, d.rhs.bits, bool(val) != d.neg))
                            work.append((s2, tgt))
                        break
                    if isinstance(d, BV) and d.concrete() is None:
                        # match on a symbolic byte: one successor per listed value, plus `otherwise`
                        vals = [v for v, tb in t["arms"]]
                        for v, tb in t["arms"]:
                            s2 = st.clone()
                            s2.vfacts.append((d.bits, "eq", v))
                            work.append((s2, tb))
                        s2 = st.clone()
                        s2.vfacts.append((d.bits, "ne", tuple(vals)))
                        work.append((s2, t["otherwise"]))
                        break
                    if isinstance(d, BV):
                        d = d.concrete()
                    if isinstance(d, Lin):
                        # `match len { 0 | 1 => .., _ => .. }` inside a partition of the length: decided by the partition's range
                        lo_, hi_ = lin_range(d)
                        if lo_ == hi_:
                            d = lo_
                        elif not any(lo_ <= v_ <= hi_ for v_, tb_ in t["arms"]):
                            b = t["otherwise"]
                            continue
                    if not isinstance(d, int):
                        raise Undecided("branch on an unmodelled value")
                    b = self.arm(t, d)
                    continue
                if k == "call":
                    r = self.call(st, t)
                    if isinstance(r, tuple) and r and r[0] == "fork-fn":
                        # several outcomes, each computed on its own copy of the state
                        if t["target"] is None:
                            raise Undecided("diverging call")
                        for fn_ in r[1]:
                            s2 = st.clone()
                            val_ = fn_(s2)
                            self._set(s2, self.resolve(s2, t["dest"]), val_)
                            work.append((s2, t["target"]))
                        break
                    if isinstance(r, tuple) and r and r[0] == "fork-option":
                        _, cond, some = r
                        if isinstance(cond, UBool):
                            dd = self.decide(st, cond)
                            if dd is not None:
                                cond = 1 if dd else 0
                        if isinstance(cond, UBool):
                            for val in (1, 0):
                                s2 = st.clone()
                                self.learn(s2, cond.k, cond.lin, bool(val) != cond.neg)
                                res_ = Adt("core::option::Option", 1, "Some", [some]) if val else Adt("core::option::Option", 0, "None", [])
                                self._set(s2, self.resolve(s2, t["dest"]), res_)
                                work.append((s2, t["target"]))
                            break
                        res_ = Adt("core::option::Option", 1, "Some", [some]) if cond else Adt("core::option::Option", 0, "None", [])
                        self._set(st, self.resolve(st, t["dest"]), res_)
                        b = t["target"]
                        continue
                    self._set(st, self.resolve(st, t["dest"]), r)
                    if t["target"] is None:
                        raise Undecided("diverging call")
                    b = t["target"]
                    continue
                if k == "drop":
                    b = t["target"]
                    continue
                if k == "unreachable":
                    raise Undecided("reached an `unreachable` terminator")
                raise Undecided("terminator " + k)
            if paths > 64 or len(work) > 64:
                raise Undecided("more than 64 abstract paths")

    def arm(self, t, val):
        for v, tb in t["arms"]:
            if v == val:
                return tb
        return t["otherwise"]

    def bdecide(self, st, d):
        for l, r, truth in st.bfacts:
            if (l == d.lhs.bits and r == d.rhs.bits) or (l == d.rhs.bits and r == d.lhs.bits):
                return (not truth) if d.neg else truth
        return None


# ------------------------------------------------------------------ the decision table
def b0_status(st):
    """'d3' / 'not' / None from the facts of the path about input byte 0"""
    b0 = byte_bv(0, 0).bits
    d3 = bv_const(0xD3, 8).bits
    for l, r, truth in st.bfacts:
        for x, y in ((l, r), (r, l)):
            if tuple(x[:8]) == b0 and all(b == 0 for b in x[8:]) and tuple(y[:8]) == d3 and all(b == 0 for b in y[8:]):
                return "d3" if truth else "not"
    for bits, kind, v in st.vfacts:
        if tuple(bits[:8]) == b0 and all(b == 0 for b in bits[8:]):
            if kind == "eq":
                return "d3" if v == 0xD3 else "not"
            if kind == "ne" and 0xD3 in v:
                return "not"
    return None


def other_byte_facts(st):
    out = []
    b0 = byte_bv(0, 0).bits
    for l, r, truth in st.bfacts:
        if any(isinstance(b, tuple) and b[0] and b[0][0][0] == "CRC" for b in l + r if isinstance(b, tuple)):
            continue
        if tuple(l[:8]) == b0 or tuple(r[:8]) == b0:
            continue
        out.append("a condition on other input bits: %s %s %s" % (BV(l), "==" if truth else "!=", BV(r)))
    for bits, kind, v in st.vfacts:
        if tuple(bits[:8]) == b0 and all(b == 0 for b in bits[8:]):
            continue
        out.append("a condition on other input bits: %s %s %s" % (BV(bits), kind, v))
    return out


def crc_fact(st):
    """(truth, problems) of the checksum comparison on the path, or None"""
    for l, r, truth in st.bfacts:
        # `(a ^ b) == 0` is `a == b`: a side that is zero against bitwise xors of two atoms is split back into the two operands
        for x, y in ((l, r), (r, l)):
            if all(b == 0 for b in y) and any(isinstance(b, tuple) for b in x) and \
                    all(b == 0 or (isinstance(b, tuple) and len(b[0]) == 2 and b[1] == 0b0110) for b in x):
                xs, ys = [], []
                for b in x:
                    if b == 0:
                        xs.append(0)
                        ys.append(0)
                        continue
                    a0, a1 = b[0]
                    if a1[0] == "CRC":
                        a0, a1 = a1, a0
                    xs.append(((a0,), 0b10))
                    ys.append(((a1,), 0b10))
                l, r = xs, ys
                break
        for x, y in ((l, r), (r, l)):
            if any(isinstance(b, tuple) and b[0][0][0] == "CRC" for b in x if isinstance(b, tuple)):
                probs = []
                key = None
                # zero-residue form: CRC-24Q (zero initial value, no reflection, no final xor, generator with a non-zero constant term - the
                # parameters C04's G-alg / A-crc rules check) over header, payload AND the three trailer bytes is 0 exactly when the trailer
                # equals the CRC of header and payload: appending t to M maps the register r = crc(M) to crc_3(r ^ t << ..), and three more
                # byte steps of an invertible linear map send only the zero difference to zero.  So `crc(input[0 .. L+6]) == 0` IS the
                # 24-bit comparison of the property.
                k0 = None
                if all(isinstance(b_, tuple) and b_[0] == (b_[0][0],) and b_[0][0][0] == "CRC" and b_[0][0][2] == i_ and b_[1] == 0b10 for i_, b_ in enumerate(x[:24])) \
                        and all(b_ == 0 for b_ in x[24:]) and all(b_ == 0 for b_ in y):
                    k0 = x[0][0][0][1]
                    rs = sorted(k0)
                    cur = None
                    okr = True
                    for (a0, c0), (a1, c1) in rs:
                        okr = okr and ((a0, c0) == ((0, 0) if cur is None else cur))
                        cur = (a1, c1)
                    if okr and cur == (1, 6):
                        return truth, []
                for i in range(max(24, len(x), len(y))):
                    xb = x[i] if i < len(x) else 0
                    yb = y[i] if i < len(y) else 0
                    if i < 24:
                        if not (isinstance(xb, tuple) and xb[0] == (xb[0][0],) and xb[0][0][0] == "CRC" and xb[0][0][2] == i and xb[1] == 0b10):
                            probs.append("checksum bit %d is not compared (computed side is %s)" % (i, bit_str(xb)))
                            continue
                        key = xb[0][0][1]
                        byte_off = 5 - i // 8
                        want = bf_atom(("D", 1, byte_off, i % 8))
                        if yb != want:
                            probs.append("checksum bit %d is compared with %s, expected input byte L+%d bit %d" % (i, bit_str(yb), byte_off, i % 8))
                    else:
                        if xb != yb:
                            probs.append("bit %d of the comparison: %s vs %s" % (i, bit_str(xb), bit_str(yb)))
                if key is not None:
                    # digested ranges, merged: exactly [0, L+3)
                    rs = sorted(key)
                    cur = None
                    okr = True
                    for (a0, c0), (a1, c1) in rs:
                        if cur is None:
                            okr = okr and (a0, c0) == (0, 0)
                        else:
                            okr = okr and (a0, c0) == cur
                        cur = (a1, c1)
                    if not okr or cur != (1, 3):
                        probs.append("the checksum digests %s, expected exactly input[0 .. L+3]" % [("%s..%s" % (mklin(*a), mklin(*b))) for a, b in key])
                return truth, probs[:4]
    return None


ACCESSORS = ("frame_data", "data", "crc", "message_number", "data_len", "frame_len")


def observe(it, fin, fr):
    """{accessor name: abstract result} for the MessageFrame accessors that can be evaluated on the frame value fr in state fin"""
    obs = {}
    for nm in ACCESSORS:
        g = it.prog.fn("message_frame::MessageFrame::" + nm)
        if g is None or g.rec.get("argc", 0) != 1:
            continue
        s2 = fin.clone()
        s2.locals[-90] = bitsem._copy_val(fr, {})
        try:
            r = it.exec_fn(s2, g, [Ref(("local", -90, (), s2.frame))])
        except Panic as e:
            obs["!panic"] = obs.get("!panic", []) + ["%s() can panic on a frame new() builds: %s" % (nm, e)]
            continue
        except (Undecided, AttributeError, TypeError, KeyError, IndexError) as e:
            if os.environ.get("VERIF_DEBUG_OBS"):
                import traceback
                print("observe", nm, repr(e), "line", getattr(it, "line", "?"))
                traceback.print_exc()
            continue
        for _ in range(3):
            if isinstance(r, Ref) and r.loc[0] == "local":
                try:
                    r = it._get(s2, r.loc)
                except Undecided:
                    break
        if isinstance(r, UBool) or r is None:
            continue
        obs[nm] = r
    return obs


def check(prog, field_names):
    """Returns {'partitions', 'paths', 'problems': [(category, text)], 'undecided': [text]}"""
    f = prog.fn(NEW)
    out = {"partitions": 0, "paths": 0, "problems": [], "undecided": [], "reads": 0}
    if f is None:
        out["undecided"].append("MessageFrame::new not found")
        return out
    seen = set()

    def prob(cat, text):
        if (cat, text) not in seen:
            seen.add((cat, text))
            out["problems"].append((cat, text))
    for (qlo, qhi) in ((0, 0), (1, 1), (2, 1023)):
        bitsem.QMIN, bitsem.QMAX = qlo, qhi
        try:
            it = FrameInterp(prog, f)
            st = FrameState()
            st.locals[1] = Ref(("slice", 0, None))
            try:
                it.run(st)
            except Panic as e:
                prob("panic", "panic: %s (line %s) for L in [%d, %d]" % (e, getattr(it, "line", "?"), qlo, qhi))
                continue
            except Undecided as e:
                out["undecided"].append("%s (line %s)" % (e, getattr(it, "line", "?")))
                continue
            out["partitions"] += 1
            L6 = Lin(1, 6)
            for fin, ret in it.results:
                out["paths"] += 1
                out["reads"] += len(fin.reads)
                tag = "L in [%d, %d]" % (qlo, qhi)
                if not isinstance(ret, Adt) or ret.vname not in ("Ok", "Err"):
                    prob("out", "a return value is not Ok(..)/Err(..) built in place")
                    continue
                b0 = b0_status(fin)
                variant = "Ok" if ret.vname == "Ok" else getattr(ret.fields[0], "vname", "?")
                if variant not in ("Ok", "Incomplete", "NotValid"):
                    prob("err", "returns Err(%s): only Incomplete and NotValid are documented" % variant)
                    continue
                if b0 == "not":
                    if variant == "Ok":
                        prob("accept", "a slice that does not start with 0xD3 is accepted")
                    continue
                ub_ok = False
                ub_any = fin.len_ub is not None
                if ub_any:
                    ua, uc = lin_parts(fin.len_ub)
                    lo, hi = lin_range(mklin(1 - ua, 6 - uc))      # L+6 - ub >= 0 ?
                    ub_ok = lo >= 0
                lb_ok = False
                for lbv in (fin.len_lb, fin.len_lb2):
                    if lbv is not None:
                        la, lc = lin_parts(lbv)
                        lo, hi = lin_range(mklin(la - 1, lc - 6))
                        if lo >= 0:
                            lb_ok = True
                cf = crc_fact(fin)
                extra = other_byte_facts(fin)
                if variant == "Incomplete":
                    if not (ub_any and ub_ok):
                        prob("inc", "Err(Incomplete) is returned on a path that is not 'fewer than L+6 bytes available' (%s; known: LEN < %s, LEN >= %s)" % (tag, fin.len_ub, fin.len_lb))
                    continue
                if ub_any:
                    prob("inc", "%s is decided on a path where a length test failed (LEN < %s): with more bytes the verdict can change (%s)" % (variant, fin.len_ub, tag))
                    continue
                if not lb_ok:
                    prob("ext", "%s is decided without knowing that L+6 bytes are available (%s; known: LEN >= %s)" % (variant, tag, fin.len_lb))
                    continue
                if cf is None:
                    prob("crc", "%s is decided without comparing the checksum (%s)" % (variant, tag))
                    continue
                truth, cprobs = cf
                for cp in cprobs:
                    prob("crc", cp)
                if variant == "NotValid":
                    if truth:
                        prob("crc", "Err(NotValid) although the checksum matches (%s; further conditions: %s)" % (tag, extra[:2]))
                    continue
                # ---- Ok
                if not truth:
                    prob("crc", "Ok although the checksum differs (%s)" % tag)
                if b0 != "d3":
                    prob("accept", "Ok without testing that the first byte is 0xD3 (%s)" % tag)
                for e in extra:
                    prob("accept", "acceptance depends on %s" % e)
                fr = ret.fields[0]
                if not isinstance(fr, Adt):
                    prob("out", "Ok payload is not a MessageFrame built in place")
                    continue
                # what a caller can observe: the accessors evaluated on the frame just built (so the layout of the struct - which values are
                # stored and which are derived on demand - does not matter); an accessor outside the modelled subset falls back to the field
                obs = observe(it, fin, fr)
                for ptxt in obs.pop("!panic", []):
                    prob("panic", ptxt)
                if "observed" not in out:
                    out["observed"] = set(obs)
                else:
                    out["observed"] &= set(obs)          # observed on every Ok path
                if len(fr.fields) != len(field_names) and not {"frame_data", "data", "crc", "message_number"} <= set(obs):
                    prob("out", "Ok payload is not a MessageFrame built in place")
                    continue
                vals = dict(zip(field_names, fr.fields)) if len(fr.fields) == len(field_names) else {}
                vals.update(obs)
                for nm, want_len in (("data_len", (1, 0)), ("frame_len", (1, 6))):
                    if nm in obs and lin_parts(it.to_int(obs[nm])) != want_len:
                        prob("out", "%s() is %s, expected %s" % (nm, obs[nm], mklin(*want_len)))
                fd = vals.get("frame_data")
                if not (isinstance(fd, Ref) and fd.loc[0] == "slice" and lin_parts(fd.loc[1]) == (0, 0) and fd.loc[2] is not None and lin_parts(fd.loc[2]) == (1, 6)):
                    prob("out", "frame_data field is %s, expected input[0 .. L+6]" % (getattr(fd, "loc", fd),))
                da = vals.get("data")
                if not (isinstance(da, Ref) and da.loc[0] == "slice" and lin_parts(da.loc[1]) == (0, 3) and da.loc[2] is not None and lin_parts(da.loc[2]) == (1, 3)):
                    prob("out", "data field is %s, expected input[3 .. L+3]" % (getattr(da, "loc", da),))
                cr = vals.get("crc")
                if isinstance(cr, BV) and truth:
                    # on this path the checksum comparison held: a computed checksum bit stands for the input bit it was found equal to
                    eqv = {}
                    for l, r, tr in fin.bfacts:
                        if tr:
                            for x, y in zip(l, r):
                                for u, v in ((x, y), (y, x)):
                                    if isinstance(u, tuple) and u[0] == (u[0][0],) and u[0][0][0] == "CRC" and u[1] == 0b10:
                                        eqv[u] = v
                    cr = BV([eqv.get(b, b) if isinstance(b, tuple) else b for b in cr.bits], cr.signed if hasattr(cr, "signed") else False)
                want = []
                for i in range(24):
                    want.append(bf_atom(("D", 1, 5 - i // 8, i % 8)))
                if not (isinstance(cr, BV) and tuple(cr.bits[:24]) == tuple(want) and all(b == 0 for b in cr.bits[24:])):
                    prob("crcf", "crc field is %s, expected the big-endian value of input bytes L+3..L+5" % (cr,))
                mn = vals.get("message_number")
                if qhi < 2:
                    if not (isinstance(mn, Adt) and mn.vname == "None"):
                        prob("num", "message_number is %s for a payload of %d byte(s), expected None" % (getattr(mn, "vname", mn), qlo))
                else:
                    okn = isinstance(mn, Adt) and mn.vname == "Some" and isinstance(mn.fields[0], BV)
                    if okn:
                        bits = mn.fields[0].bits
                        wantn = [bf_atom(("D", 0, 4, 4 + i)) for i in range(4)] + [bf_atom(("D", 0, 3, i)) for i in range(8)]
                        okn = tuple(bits[:12]) == tuple(wantn) and all(b == 0 for b in bits[12:])
                    if not okn:
                        prob("num", "message_number is %s for L >= 2, expected Some(first 12 payload bits)" % (mn.fields[0] if isinstance(mn, Adt) and mn.fields else getattr(mn, "vname", mn),))
        finally:
            bitsem.QMIN, bitsem.QMAX = 0, 1 << 58
    return out


# ------------------------------------------------------------------ MsgFrameIter::next  (I-iter, C05 last sentence)
ITER_NEXT = "<&mut MsgFrameIter as core::iter::Iterator>::next"


class IterInterp(FrameInterp):
    """self = &mut &mut MsgFrameIter{data, index}; data = the symbolic buffer, index = Q (unknown, 0..2^58)."""

    def __init__(self, prog, f, i_data, i_index):
        FrameInterp.__init__(self, prog, f)
        self.i_data, self.i_index = i_data, i_index
        self.scans = []

    def call(self, st, t):
        c = t.get("resolved") or t["callee"]
        if c == "next_msg_frame":
            args = [self.operand(st, a) for a in t["args"]]
            a = args[0]
            self.scans.append((st.seqno if hasattr(st, "seqno") else 0, a.loc if isinstance(a, Ref) else a))
            st.scan_args = getattr(st, "scan_args", []) + [a.loc if isinstance(a, Ref) else a]
            return Tup([Opaque("consumed", ()), Opaque("frame", ())])
        if c in ("core::slice::index::<impl core::ops::Index<I> for [T]>::index",) and len(t["args"]) == 2:
            args = [self.operand(st, a) for a in t["args"]]
            base, rg = args
            if isinstance(base, Ref) and base.loc[0] == "slice" and base.loc[2] is None and isinstance(rg, Adt) and (rg.path or "").endswith("RangeFrom"):
                lo = add(base.loc[1], self.to_int(rg.fields[0]))
                cnd = self.compare("Ge", Sym(1), lo)
                if isinstance(cnd, UBool):
                    cnd = self.decide(st, cnd)
                if cnd is None:
                    raise Undecided("data[%s..] is not covered by a length test on this path" % (lo,))
                if not cnd:
                    raise Panic("slice start %s beyond the end" % (lo,))
                return Ref(("slice", lo, None))
        if c in ("core::option::Option::<T>::unwrap_or_default", "core::option::Option::<T>::unwrap_or"):
            args = [self.operand(st, a) for a in t["args"]]
            o = args[0]
            if isinstance(o, Adt) and o.vname == "Some":
                return o.fields[0]
            if isinstance(o, Adt) and o.vname == "None":
                if c.endswith("unwrap_or") and len(args) > 1:
                    return args[1]
                return Ref(("slice", 0, 0))
            raise Undecided("unwrap_or_default of an unknown option")
        return FrameInterp.call(self, st, t)

    def binop(self, st, op, x, y, tya, dest_ty):
        base = op[:-12] if op.endswith("WithOverflow") else op
        if base == "Add" and (isinstance(x, Opaque) or isinstance(y, Opaque)):
            o, l = (x, y) if isinstance(x, Opaque) else (y, x)
            if o.tag == "consumed" and lin_parts(l) == (1, 0):
                r = Opaque("index+consumed", ())
                # no overflow: consumed <= len(rest) (scanner contract, S-ok/S-inc/S-end) and len <= isize::MAX
                return Tup([r, 0]) if op.endswith("WithOverflow") else r
        return FrameInterp.binop(self, st, op, x, y, tya, dest_ty)

    def slice_len(self, v):
        if isinstance(v, Ref) and v.loc[0] == "slice" and v.loc[2] is None and lin_parts(v.loc[1]) != (0, 0):
            raise Undecided("length of the unconsumed tail")
        return FrameInterp.slice_len(self, v)


def check_iter(prog):
    """{'paths', 'problems': [text], 'undecided': [text]}"""
    out = {"paths": 0, "problems": [], "undecided": []}
    f = prog.fn(ITER_NEXT)
    adt = prog.adts.get("MsgFrameIter")
    if f is None or adt is None:
        out["undecided"].append("MsgFrameIter::next not found")
        return out
    fields = [x["name"] for x in adt["variants"][0]["fields"]]
    if sorted(fields) != ["data", "index"]:
        out["undecided"].append("MsgFrameIter fields are %s" % fields)
        return out
    i_data, i_index = fields.index("data"), fields.index("index")
    bitsem.QMIN, bitsem.QMAX = 0, 1 << 58
    it = IterInterp(prog, f, i_data, i_index)
    st = FrameState()
    obj = [None, None]
    obj[i_data] = Ref(("slice", 0, None))
    obj[i_index] = Lin(1, 0)
    st.self_fields = Tup(obj)
    st.locals[-50] = Ref(("self", ()))
    st.locals[1] = Ref(("local", -50, (), 0))
    # object invariant index <= data.len(): established by MsgFrameIter::new (index = 0), preserved by the only store to index,
    # `index += consumed`, because the scanner never reports more than the length of the slice it was given (S-ok / S-inc / S-end)
    st.len_lb = Lin(1, 0)
    try:
        it.run(st)
    except Panic as e:
        out["problems"].append("panic: %s (line %s)" % (e, it.line))
        return out
    except Undecided as e:
        out["undecided"].append("%s (line %s)" % (e, it.line))
        return out
    for fin, ret in it.results:
        out["paths"] += 1
        scans = getattr(fin, "scan_args", [])
        idx = fin.self_fields.fields[i_index]
        # does the path know  LEN > index  /  LEN <= index ?
        gt = fin.len_lb is not None and lin_range(mklin(lin_parts(fin.len_lb)[0] - 1, lin_parts(fin.len_lb)[1] - 1))[0] >= 0
        le = fin.len_ub is not None and lin_range(mklin(lin_parts(fin.len_ub)[0] - 1, lin_parts(fin.len_ub)[1] - 1))[1] <= 0
        if not scans:
            if not le:
                out["problems"].append("next() returns without scanning although index < data.len() is possible on that path")
            if not (isinstance(ret, Adt) and ret.vname == "None"):
                out["problems"].append("without a scan next() returns %s, expected None" % getattr(ret, "vname", ret))
            if idx != Lin(1, 0):
                out["problems"].append("index is changed without a scan")
            continue
        if len(scans) != 1:
            out["problems"].append("the scanner is called %d times in one next()" % len(scans))
            continue
        # (a scan of the empty tail data[len..] is harmless: the scanner answers (0, None) there - S-end - so next() returns None and index
        # stays; whether the function tests `index >= len` first or lets the scanner say so makes no difference)
        a = scans[0]
        if not (isinstance(a, tuple) and a[0] == "slice" and lin_parts(a[1]) == (1, 0) and a[2] is None):
            out["problems"].append("the scanner is given %s, expected data[index..]" % (a,))
        if not (isinstance(idx, Opaque) and idx.tag == "index+consumed"):
            out["problems"].append("after the scan index is %s, expected index + consumed" % (idx,))
        if not (isinstance(ret, Opaque) and ret.tag == "frame"):
            out["problems"].append("after the scan next() returns %s, expected the scanner's frame unchanged" % (ret,))
    if out["paths"] < 1:
        out["problems"].append("next() has no path")
    return out
