"""Partitioned abstract interpretation of the bit writer / reader (Assembler::put, Parser::parse).

The two functions are generic over the carrier and loop over the bytes a field spans; whether value bit k lands on buffer
bit offset+w-1-k is not visible to an interval or linear domain (the mask and shift amounts are div/mod expressions of
the cursor).  It *is* decidable by classic trace partitioning: the state is split on (offset mod 8, w, carrier width) -
8 x (8+16+32+64) partitions - and inside one partition

  * cursor-derived integers are affine in the unknown byte index Q = offset div 8   (domain  a*Q + c),
  * the field width, the masks, the shift amounts and the trip count are constants   (constant propagation),
  * every bit of a byte / carrier is a Boolean function of <= 6 symbolic input bits (value bits, original buffer bits),
    kept as a canonical truth table                                                    (Boolean-function domain),
  * the buffer length is unknown; branches on it fork and record the bound they imply.

Nothing is executed: the MIR is interpreted over these abstract values with Q, the value and the buffer symbolic.  The
loop unrolls because its trip count is a constant of the partition.  Every Assert terminator met on the way is decided
(panic freedom of the interior), and the final abstract state is compared with the specification of C07.
Constructs outside the modelled subset fail closed (Undecided).
"""
import itertools
import re
import libmodel

_NUM = re.compile(r"\d+")

QMIN = 0
QMAX = 1 << 58          # assumption: byte index of the cursor below 2^58 (cursor invariant offset <= 8*len(data), len(data) < 2^58)


class Undecided(Exception):
    pass


class Panic(Exception):
    pass


# ------------------------------------------------------------------ affine values  a*Q + c
class Lin(object):
    __slots__ = ("a", "c")

    def __init__(self, a, c):
        self.a = a
        self.c = c

    def __repr__(self):
        return "%d*Q%+d" % (self.a, self.c)

    def __eq__(self, o):
        return isinstance(o, Lin) and o.a == self.a and o.c == self.c

    def __hash__(self):
        return hash((self.a, self.c))


def mklin(a, c):
    return c if a == 0 else Lin(a, c)


def lin_parts(x):
    if isinstance(x, Lin):
        return x.a, x.c
    if isinstance(x, int):
        return 0, x
    return None


class Sym(object):
    """k * LEN + c  (LEN = unknown length of the buffer; c an integer constant)"""
    __slots__ = ("k", "c")

    def __init__(self, k, c=0):
        self.k = k
        self.c = c

    def __repr__(self):
        return "%d*LEN%s" % (self.k, ("%+d" % self.c if isinstance(self.c, int) else "+(%r)" % (self.c,)) if self.c else "")


class UBool(object):
    """Unknown truth value of  k*LEN >= lin  (neg: its negation)."""
    __slots__ = ("k", "lin", "neg")

    def __init__(self, k, lin, neg):
        self.k, self.lin, self.neg = k, lin, neg


# ------------------------------------------------------------------ Boolean functions of symbolic bits (truth tables)
_bf_cache = {}


def bf_atom(atom):
    return ((atom,), 0b10)


def _bf_norm(atoms, table):
    n = len(atoms)
    keep = []
    for i in range(n):
        dep = False
        for row in range(1 << n):
            if not (row >> i) & 1:
                if ((table >> row) & 1) != ((table >> (row | (1 << i))) & 1):
                    dep = True
                    break
        if dep:
            keep.append(i)
    if len(keep) != n:
        nt = 0
        for row in range(1 << len(keep)):
            full = 0
            for j, i in enumerate(keep):
                if (row >> j) & 1:
                    full |= 1 << i
            if (table >> full) & 1:
                nt |= 1 << row
        atoms = tuple(atoms[i] for i in keep)
        table = nt
    if not atoms:
        return table & 1
    return (atoms, table)


def bf_op(op, x, y=None):
    if op == "not":
        if x == 0 or x == 1:
            return 1 - x
        atoms, table = x
        return (atoms, (~table) & ((1 << (1 << len(atoms))) - 1))
    if x in (0, 1) and y in (0, 1):
        return {"and": x & y, "or": x | y, "xor": x ^ y}[op]
    if x in (0, 1):
        x, y = y, x
    if y in (0, 1):
        if op == "and":
            return x if y else 0
        if op == "or":
            return 1 if y else x
        return bf_op("not", x) if y else x
    if x == y:
        return 0 if op == "xor" else x
    key = (op, x, y)
    r = _bf_cache.get(key)
    if r is not None:
        return r
    atoms = tuple(sorted(set(x[0]) | set(y[0])))
    if len(atoms) > 6:
        raise Undecided("a bit depends on more than 6 symbolic input bits")
    ix = [atoms.index(a) for a in x[0]]
    iy = [atoms.index(a) for a in y[0]]
    table = 0
    for row in range(1 << len(atoms)):
        rx = 0
        for j, i in enumerate(ix):
            if (row >> i) & 1:
                rx |= 1 << j
        ry = 0
        for j, i in enumerate(iy):
            if (row >> i) & 1:
                ry |= 1 << j
        bx = (x[1] >> rx) & 1
        by = (y[1] >> ry) & 1
        v = (bx & by) if op == "and" else ((bx | by) if op == "or" else (bx ^ by))
        if v:
            table |= 1 << row
    r = _bf_norm(atoms, table)
    _bf_cache[key] = r
    return r


def bit_str(b):
    if b in (0, 1):
        return str(b)
    atoms, table = b
    if len(atoms) == 1 and table == 0b10:
        return atom_str(atoms[0])
    return "f(%s;%x)" % (",".join(atom_str(a) for a in atoms), table)


def atom_str(a):
    if a[0] == "D":
        return "buf[%s].%d" % (mklin(a[1], a[2]), a[3])
    if a[0] == "NEG":
        return "neg(..).%d" % a[2]
    if a[0] == "CRC":
        return "crc.%d" % a[2]
    return "%s.%s" % (a[0], a[1])


class BV(object):
    """Bit vector, LSB first."""
    __slots__ = ("bits", "signed")

    def __init__(self, bits, signed=None):
        self.bits = tuple(bits)
        self.signed = signed

    @property
    def w(self):
        return len(self.bits)

    def concrete(self):
        if all(b in (0, 1) for b in self.bits):
            v = 0
            for i, b in enumerate(self.bits):
                v |= b << i
            return v
        return None

    def __eq__(self, o):
        return isinstance(o, BV) and o.bits == self.bits

    def __hash__(self):
        return hash(self.bits)

    def __repr__(self):
        return "[" + " ".join(bit_str(b) for b in reversed(self.bits)) + "]"


def bv_const(v, w, signed=None):
    return BV([(v >> i) & 1 for i in range(w)], signed)


def bv_sym(name, w, signed=None):
    return BV([bf_atom((name, i)) for i in range(w)], signed)


FILL = bf_atom(("FILL", 0))


def bv_bin(op, x, y):
    if x.w != y.w:
        raise Undecided("bitwise operation on different widths")
    return BV([bf_op(op, a, b) for a, b in zip(x.bits, y.bits)], x.signed)


def bv_not(x):
    return BV([bf_op("not", a) for a in x.bits], x.signed)


def bv_shl(x, k):
    return BV(([0] * k + list(x.bits))[:x.w], x.signed)


def bv_shr(x, k, signed):
    """signed: True arithmetic, False logical, None: unknown carrier signedness (shifted-in bits are the FILL atom
    unless the top bit is a known 0)."""
    top = x.bits[-1]
    if signed is True:
        fill = top
    elif signed is False or top == 0:
        fill = 0
    else:
        fill = FILL
    return BV((list(x.bits) + [fill] * k)[k:k + x.w], x.signed)


# ------------------------------------------------------------------ abstract objects
class Ref(object):
    __slots__ = ("loc",)

    def __init__(self, loc):
        self.loc = loc        # ("local", n, path)  |  ("byte", idx)  |  ("slice", start, end|None)  |  ("self", path)


class Adt(object):
    __slots__ = ("variant", "fields", "path", "vname")

    def __init__(self, path, variant, vname, fields):
        self.path, self.variant, self.vname, self.fields = path, variant, vname, list(fields)


class Tup(object):
    __slots__ = ("fields",)

    def __init__(self, fields):
        self.fields = list(fields)


class Opaque(object):
    """Result of an uninterpreted crate function (sign_fix): tag + arguments."""
    __slots__ = ("tag", "args")

    def __init__(self, tag, args):
        self.tag, self.args = tag, args


def is_extra(v):
    return isinstance(v, Opaque) and v.tag == "extra"


class Closure(object):
    """closure value: body path + captured values (field i = capture i)"""
    __slots__ = ("path", "fields")

    def __init__(self, path, fields):
        self.path, self.fields = path, list(fields)


class It(object):
    """Iterator pipeline over the buffer: slice positions [idx, end) -> skip -> take -> enumerate."""

    def __init__(self, idx, end, mut):
        self.idx = idx          # affine
        self.end = end          # affine or None (= LEN)
        self.mut = mut
        self.skip = None
        self.take = None
        self.enum = None        # next index
        self.order = []         # adaptor order for diagnostics
        self.rev = False        # items are taken from the back

    def clone(self):
        n = It(self.idx, self.end, self.mut)
        n.skip, n.take, n.enum, n.order, n.rev = self.skip, self.take, self.enum, list(self.order), self.rev
        return n


class RangeIt(object):
    def __init__(self, lo, hi, inclusive=False):
        self.lo, self.hi, self.inclusive = lo, hi, inclusive
        self.done = False


UNIT = Tup([])


def add(x, y):
    px, py = lin_parts(x), lin_parts(y)
    if px is None or py is None:
        raise Undecided("arithmetic on a non-integer abstract value")
    return mklin(px[0] + py[0], px[1] + py[1])


def sub(x, y):
    px, py = lin_parts(x), lin_parts(y)
    if px is None or py is None:
        raise Undecided("arithmetic on a non-integer abstract value")
    return mklin(px[0] - py[0], px[1] - py[1])


def lin_range(x):
    a, c = lin_parts(x)
    if a >= 0:
        return a * QMIN + c, a * QMAX + c
    return a * QMAX + c, a * QMIN + c


def ty_bits(ty):
    k = ty.get("k")
    if k in ("uint", "int"):
        return ty["bits"], k == "int"
    if k == "bool":
        return 1, False
    return None


def _copy_val(v, memo):
    import copy
    if isinstance(v, (int, str, BV, Lin, Ref, Sym, UBool, Opaque, tuple, frozenset)) or v is None:
        return v
    k = id(v)
    if k in memo:
        return memo[k]
    if isinstance(v, Tup):
        n = Tup([])
        memo[k] = n
        n.fields = [_copy_val(x, memo) for x in v.fields]
        return n
    if isinstance(v, Adt):
        n = Adt(v.path, v.variant, v.vname, [])
        memo[k] = n
        n.fields = [_copy_val(x, memo) for x in v.fields]
        return n
    if isinstance(v, list):
        n = []
        memo[k] = n
        n.extend(_copy_val(x, memo) for x in v)
        return n
    if hasattr(v, "copy_val"):
        n = v.copy_val(memo, _copy_val)      # abstract objects that own other abstract objects copy them through the same memo
        memo[k] = n
        return n
    n = copy.copy(v)
    memo[k] = n
    if hasattr(n, "__dict__"):
        for a, x in list(n.__dict__.items()):
            if isinstance(x, (list, dict, set)):
                setattr(n, a, copy.copy(x))
    return n


class State(object):
    def __init__(self):
        self.locals = {}
        self.self_fields = None
        self.mem = {}           # byte index (int | Lin) -> BV8  (written or read bytes; absent = original content)
        self.written = set()
        self.len_lb = None      # affine lower bound of LEN learnt from a branch
        self.len_ub = None      # affine strict upper bound (LEN < ub)
        self.len_lb2 = None
        self.steps = 0
        self.asserts = 0
        self.frame = 0
        self.frames = {0: self.locals}
        self.nframes = 1

    def clone(self):
        """Copy of the abstract state.  Bit vectors, affine values and references are immutable and shared; containers and
        abstract objects (tuples, enums, iterators, assembler / CRC objects) are copied, preserving aliasing inside the state."""
        import copy
        memo = {}
        for v in self.mem.values():
            memo[id(v)] = v
        n = copy.copy(self)
        n.mem = dict(self.mem)
        n.written = set(self.written)
        n.locals = {k: _copy_val(v, memo) for k, v in self.locals.items()}
        n.frames = {}
        for fid, fr in self.frames.items():
            n.frames[fid] = n.locals if fr is self.locals else {k: _copy_val(v, memo) for k, v in fr.items()}
        if self.self_fields is not None:
            n.self_fields = _copy_val(self.self_fields, memo)
        for attr, val in list(self.__dict__.items()):
            if attr in ("mem", "written", "locals", "frames", "self_fields"):
                continue
            if isinstance(val, (list, dict, set)):
                setattr(n, attr, copy.copy(val))
        return n


class Interp(object):
    """One partition: r = offset mod 8, w = field width, W = carrier width."""

    def __init__(self, prog, f, kind, r, w, W, hooks=None):
        self.prog = prog
        self.f = f
        self.kind = kind
        self.r, self.w, self.W = r, w, W
        self.blocks = f.rec["blocks"]
        self.ltys = f.rec["locals"]
        self.results = []       # finished paths: (state, return value)
        self.assert_sites = set()
        self.shift_sites = set()
        self.line = None

    # ---- buffer bytes
    def byte_key(self, idx):
        a, c = lin_parts(idx)
        return (a, c)

    def orig_byte(self, idx):
        a, c = lin_parts(idx)
        return BV([bf_atom(("D", a, c, i)) for i in range(8)], False)

    def read_byte(self, st, idx):
        self.check_in_bounds(st, idx)
        k = self.byte_key(idx)
        if k in st.mem:
            return st.mem[k]
        return self.orig_byte(idx)

    def write_byte(self, st, idx, v):
        self.check_in_bounds(st, idx)
        v = self.as_bv(v, 8)
        st.mem[self.byte_key(idx)] = v
        st.written.add(self.byte_key(idx))

    def in_bounds(self, st, idx, end=None):
        """True / False / None: idx < (end or LEN)"""
        a, c = lin_parts(idx)
        if end is not None:
            ea, ec = lin_parts(end)
            lo, hi = lin_range(mklin(ea - a, ec - c - 1))
            if lo >= 0:
                return True
            if hi < 0:
                return False
            return None
        for lbv in (st.len_lb, st.len_lb2):
            if lbv is not None:
                la, lc = lin_parts(lbv)
                lo, hi = lin_range(mklin(la - a, lc - c - 1))
                if lo >= 0:
                    return True
        if st.len_ub is not None:
            ua, uc = lin_parts(st.len_ub)
            lo, hi = lin_range(mklin(a - ua, c - uc))
            if lo >= 0:
                return False
        return None

    def check_in_bounds(self, st, idx):
        r = self.in_bounds(st, idx)
        if r is not True:
            raise Undecided("access to buffer byte %s is not covered by the bounds test (known: LEN >= %s)" % (idx, st.len_lb))

    # ---- conversions
    def as_bv(self, v, w, signed=None):
        if isinstance(v, BV):
            if v.w != w:
                raise Undecided("width mismatch (%d vs %d)" % (v.w, w))
            return v
        if isinstance(v, bool):
            v = int(v)
        if isinstance(v, int):
            return bv_const(v & ((1 << w) - 1), w, signed)
        raise Undecided("expected a bit vector")

    # ---- places
    def place_ty(self, place):
        ty = self.ltys[place["local"]]
        for p in place["proj"]:
            k = p["k"]
            if k == "deref":
                ty = ty.get("to", {"k": "other"})
            elif k == "field":
                ty = p.get("ty", {"k": "other"})
            elif k == "index" or k == "constindex":
                ty = ty.get("elem", {"k": "other"})
            elif k == "downcast":
                pass
        return ty

    def _get(self, st, loc):
        kind = loc[0]
        if kind == "local":
            frame = st.frames[loc[3]] if len(loc) > 3 and loc[3] in st.frames else st.locals
            v = frame.get(loc[1], None)
            if v is None:
                raise Undecided("read of an unassigned local _%d" % loc[1])
            for i in loc[2]:
                v = self._field(v, i)
            return v
        if kind == "byte":
            return self.read_byte(st, loc[1])
        if kind == "self":
            v = st.self_fields
            for i in loc[1]:
                v = self._field(v, i)
            return v
        if kind == "slice":
            return ("slice", loc[1], loc[2])
        if kind == "sub":
            arr = self._get(st, loc[1])
            if not isinstance(arr, list) or not (0 <= loc[2] <= loc[3] <= len(arr)):
                raise Undecided("sub-array of something that is not a local array")
            return list(arr[loc[2]:loc[3]])
        raise Undecided("unknown location kind")

    def _field(self, v, i):
        if isinstance(v, (Tup, Adt, Closure)):
            if i >= len(v.fields):
                raise Undecided("field index out of range")
            return v.fields[i]
        if isinstance(v, list):
            return v[i]
        raise Undecided("field projection of a non-aggregate abstract value")

    def _set(self, st, loc, val):
        kind = loc[0]
        if kind == "local":
            frame = st.frames[loc[3]] if len(loc) > 3 and loc[3] in st.frames else st.locals
            if not loc[2]:
                frame[loc[1]] = val
                return
            v = frame.get(loc[1])
            for i in loc[2][:-1]:
                v = self._field(v, i)
            self._setfield(v, loc[2][-1], val)
            return
        if kind == "byte":
            self.write_byte(st, loc[1], val)
            return
        if kind == "self":
            v = st.self_fields
            for i in loc[1][:-1]:
                v = self._field(v, i)
            self._setfield(v, loc[1][-1], val)
            return
        raise Undecided("store to an unmodelled location")

    def _setfield(self, v, i, val):
        if isinstance(v, (Tup, Adt)):
            v.fields[i] = val
        elif isinstance(v, list):
            v[i] = val
        else:
            raise Undecided("store into a non-aggregate")

    def resolve(self, st, place):
        """place -> location"""
        loc = ("local", place["local"], ())
        for p in place["proj"]:
            k = p["k"]
            if k == "deref":
                v = self._get(st, loc)
                if not isinstance(v, Ref):
                    raise Undecided("deref of a non-reference abstract value")
                loc = v.loc
            elif k == "field":
                if loc[0] == "local":
                    loc = ("local", loc[1], loc[2] + (p["i"],)) + tuple(loc[3:])
                elif loc[0] == "self":
                    loc = ("self", loc[1] + (p["i"],))
                else:
                    raise Undecided("field of an unmodelled location")
            elif k == "downcast":
                pass
            elif k == "index":
                iv = st.locals.get(p["local"])
                loc = self.index_loc(st, loc, iv)
            elif k == "constindex" and p.get("from_end") and loc[0] == "slice" and loc[2] is not None:
                # `[.., a, b]` on a bounded piece of the buffer: counted from its end
                loc = self.index_loc(st, loc, sub(sub(loc[2], int(p.get("offset", p.get("i")))), loc[1]))
            elif k == "constindex":
                loc = self.index_loc(st, loc, p.get("offset", p.get("i")))
            elif k == "subslice" and loc[0] == "slice" and (loc[2] is not None or not p.get("from_end")):
                # `[head @ .., a, b, c]` / `[a, rest @ ..]` on a piece of the buffer (the pattern's length test precedes it in the MIR)
                lo_ = add(loc[1], int(p["from"]))
                hi_ = sub(loc[2], int(p["to"])) if p.get("from_end") else add(loc[1], int(p["to"]))
                if self.compare("Le", lo_, hi_) != 1:
                    raise Undecided("sub-slice pattern on a piece that may be too short")
                loc = ("slice", lo_, hi_)
            elif k == "subslice" and loc[0] == "local" and not p.get("from_end"):
                # `[a, rest @ ..]` on a local array: the tail as a value
                loc = ("sub", loc, int(p["from"]), int(p["to"]))
            else:
                raise Undecided("projection %s" % k)
        return loc

    def index_loc(self, st, loc, iv):
        if loc[0] == "local":
            arr = self._get(st, loc)
            if isinstance(iv, BV):
                iv = iv.concrete()
            if isinstance(arr, list) and isinstance(iv, int) and not isinstance(iv, bool):
                if not (0 <= iv < len(arr)):
                    raise Panic("index %d out of bounds of a local array of %d" % (iv, len(arr)))
                return ("local", loc[1], tuple(loc[2]) + (iv,)) + tuple(loc[3:])
        if loc[0] != "slice":
            raise Undecided("index into something that is not the buffer")
        if lin_parts(iv) is None:
            raise Undecided("non-integer index")
        idx = add(loc[1], iv)
        ok = self.in_bounds(st, idx, loc[2])
        if ok is False:
            raise Panic("index out of bounds: buffer byte %s" % idx)
        if ok is None:
            raise Undecided("index %s may be out of bounds" % idx)
        return ("byte", idx)

    _PROMOTED = {}

    def promoted_value(self, st, o):
        """a promoted constant (`&Some(&0xD3)`, `&[16, 8, 0]`): its small body is evaluated once and the value, with the references inside it
        resolved, is placed in a scratch local; the operand is a reference to that local (or the value itself for a non-reference type)"""
        path = o.get("s")
        prom = getattr(self.prog, "promoted", None) or {}
        if path not in prom:
            return None
        key = (id(self.prog), path)
        if key not in Interp._PROMOTED:
            try:
                import guardsem
                from facts import Fn
                cb = prom[path]
                rec = {"rec": "fn", "path": path + "::{promoted}", "kind": "Const", "loc": {"file": "", "line": 0}, "site": {"file": "", "line": 0}, "argc": 0,
                       "generics": [], "impl": None, "pub": False, "locals": cb["locals"], "debug": [], "blocks": cb["blocks"]}
                it = guardsem.TabInterp(self.prog, Fn(rec), 64)
                s2 = State()
                r = it.run_fn(s2)

                def flat(v, depth=0):
                    if depth > 6:
                        raise Undecided("deep promoted constant")
                    if isinstance(v, Ref) and v.loc[0] == "local":
                        return flat(it._get(s2, v.loc), depth + 1)
                    if isinstance(v, Adt):
                        return Adt(v.path, v.variant, v.vname, [flat(x, depth + 1) for x in v.fields])
                    if isinstance(v, Tup):
                        return Tup([flat(x, depth + 1) for x in v.fields])
                    if isinstance(v, list):
                        return [flat(x, depth + 1) for x in v]
                    if isinstance(v, (int, BV)):
                        return v
                    raise Undecided("promoted constant with an unmodelled part")
                Interp._PROMOTED[key] = flat(r)
            except Exception:
                Interp._PROMOTED[key] = None
        val = Interp._PROMOTED[key]
        if val is None:
            return None
        if (o.get("ty") or {}).get("k") == "ref":
            slot = -700 - (abs(hash(path)) % 90)
            st.locals[slot] = _copy_val(val, {})
            return Ref(("local", slot, (), st.frame))
        return _copy_val(val, {})

    def read(self, st, place):
        return self._get(st, self.resolve(st, place))

    def operand(self, st, o):
        k = o["k"]
        if k in ("copy", "move"):
            v = self.read(st, o["place"])
            return v
        if k == "const":
            ty = o["ty"]
            if "val" in o:
                return o["val"]
            if ty.get("k") == "tuple" and not ty.get("elems"):
                return UNIT
            if ty.get("k") == "fndef":
                return ("fn", ty["path"])
            pv = self.promoted_value(st, o)
            if pv is not None:
                return pv
            if o.get("ck") == "promoted" or o.get("s") in (getattr(self.prog, "promoted", None) or {}):
                # a promoted constant this interpreter cannot evaluate: an inert placeholder - only a *use* of it makes the run undecided
                # (the normalising pass leaves dead loads behind, e.g. the `&(1..=64)` of a `contains` it has expanded)
                if ty.get("k") == "ref":
                    slot = -800 - (abs(hash(o.get("s"))) % 90)
                    st.locals[slot] = Opaque("const", (o.get("s"),))
                    return Ref(("local", slot, (), st.frame))
                return Opaque("const", (o.get("s"),))
            raise Undecided("constant of type %s" % (ty.get("s") or ty.get("k")))
        raise Undecided("operand kind %s" % k)

    # ---- arithmetic
    def binop(self, st, op, x, y, tya, dest_ty):
        wo = op.endswith("WithOverflow")
        base = op[:-12] if wo else op
        if is_extra(x) or is_extra(y):
            # state outside the modelled fields (a counter, a start mark): its values stay opaque; they may be combined and stored back, but
            # any decision, index or buffer write depending on them is Undecided (compare / decide / write_byte reject Opaque)
            r = Opaque("extra", ())
            return Tup([r, Opaque("extra", ())]) if wo else r
        if isinstance(x, bool):
            x = int(x)
        if isinstance(y, bool):
            y = int(y)
        if base in ("BitAnd", "BitOr", "BitXor") and (isinstance(x, BV) or isinstance(y, BV)):
            w = x.w if isinstance(x, BV) else y.w
            r = bv_bin({"BitAnd": "and", "BitOr": "or", "BitXor": "xor"}[base], self.as_bv(x, w), self.as_bv(y, w))
            c = r.concrete()
            return r
        if base in ("Shl", "Shr") and isinstance(x, BV):
            if not isinstance(y, int):
                raise Undecided("shift by a non-constant amount")
            if y >= x.w or y < 0:
                raise Panic("shift of a %d-bit value by %d" % (x.w, y))
            tb = ty_bits(tya)
            return bv_shl(x, y) if base == "Shl" else bv_shr(x, y, tb[1] if tb else None)
        if base in ("Eq", "Ne", "Lt", "Le", "Gt", "Ge"):
            return self.compare(base, x, y)
        if isinstance(x, BV) or isinstance(y, BV):
            cx = x.concrete() if isinstance(x, BV) else x
            cy = y.concrete() if isinstance(y, BV) else y
            if cx is None or cy is None or isinstance(cx, Lin) or isinstance(cy, Lin):
                raise Undecided("arithmetic %s on symbolic bits" % base)
            x, y = cx, cy
        if isinstance(x, Sym) or isinstance(y, Sym):
            if base == "Mul" and isinstance(x, Sym) and isinstance(y, int):
                r = Sym(x.k * y, x.c * y)
            elif base == "Mul" and isinstance(y, Sym) and isinstance(x, int):
                r = Sym(y.k * x, y.c * x)
            elif base == "Add" and isinstance(x, Sym) and isinstance(y, int) and not isinstance(y, bool) and 0 <= y < (1 << 32):
                r = Sym(x.k, x.c + y)
            elif base == "Add" and isinstance(y, Sym) and isinstance(x, int) and not isinstance(x, bool) and 0 <= x < (1 << 32):
                r = Sym(y.k, y.c + x)
            elif base == "Sub" and isinstance(x, Sym) and isinstance(y, int) and not isinstance(y, bool) and 0 <= y < (1 << 32):
                # k*LEN + c - y: wraps exactly when k*LEN + c < y
                r = Sym(x.k, x.c - y)
                nonneg = UBool(x.k, y - x.c, False)          # k*LEN >= y - c
                if wo:
                    return Tup([r, UBool(x.k, y - x.c, True)])
                if self.decide(st, nonneg) is not True:
                    raise Undecided("subtraction from the buffer length may wrap on this path")
                return r
            else:
                raise Undecided("arithmetic %s on the buffer length" % base)
            # overflow of k*LEN: LEN < 2^58 (assumption), k small
            return Tup([r, 0]) if wo else r
        tb = ty_bits(tya) or (64, False)
        bits, signed = tb
        lo_t, hi_t = (-(1 << (bits - 1)), (1 << (bits - 1)) - 1) if signed else (0, (1 << bits) - 1)
        if base in ("Add", "Sub"):
            r = add(x, y) if base == "Add" else sub(x, y)
            lo, hi = lin_range(r)
            if lo >= lo_t and hi <= hi_t:
                ov = 0
            elif isinstance(r, int):
                ov = 1
            else:
                a, c = lin_parts(r)
                if hi < lo_t or lo > hi_t:
                    ov = 1
                else:
                    raise Undecided("%s may or may not overflow: %s" % (base, r))
            if wo:
                if ov and isinstance(r, int):
                    r = r & ((1 << bits) - 1)
                return Tup([r, ov])
            if ov:
                if isinstance(r, int):
                    return self.wrap(r, bits, signed)
                raise Undecided("wrapping arithmetic on a symbolic value")
            return r
        if base == "Mul":
            if isinstance(x, int) and isinstance(y, int):
                r = x * y
            elif isinstance(x, Lin) and isinstance(y, int):
                r = mklin(x.a * y, x.c * y)
            elif isinstance(y, Lin) and isinstance(x, int):
                r = mklin(y.a * x, y.c * x)
            else:
                raise Undecided("product of two symbolic values")
            lo, hi = lin_range(r)
            ov = 0 if (lo >= lo_t and hi <= hi_t) else 1
            if ov and not isinstance(r, int):
                raise Undecided("product may overflow")
            if wo:
                return Tup([r & ((1 << bits) - 1) if ov else r, ov])
            return self.wrap(r, bits, signed) if ov else r
        if base in ("Div", "Rem"):
            if not isinstance(y, int) or y <= 0:
                raise Undecided("division by a non-constant or non-positive value")
            if isinstance(x, int):
                if x < 0:
                    raise Undecided("signed division")
                return x // y if base == "Div" else x % y
            a, c = lin_parts(x)
            if a % y != 0 or c < 0 or a < 0:
                raise Undecided("division of %s by %d is not affine" % (x, y))
            return mklin(a // y, c // y) if base == "Div" else c % y
        if base in ("BitAnd", "BitOr", "BitXor") and isinstance(x, int) and isinstance(y, int):
            return {"BitAnd": x & y, "BitOr": x | y, "BitXor": x ^ y}[base]
        if base in ("Shl", "Shr") and isinstance(x, int) and isinstance(y, int):
            if y >= bits or y < 0:
                raise Panic("shift of a %d-bit value by %d" % (bits, y))
            if base == "Shl":
                return self.wrap(x << y, bits, signed)
            return x >> y
        raise Undecided("binary operation %s on %s, %s" % (op, type(x).__name__, type(y).__name__))

    def wrap(self, v, bits, signed):
        v &= (1 << bits) - 1
        if signed and v >> (bits - 1):
            v -= 1 << bits
        return v

    def compare(self, op, x, y):
        if isinstance(x, BV):
            x = x.concrete()
        if isinstance(y, BV):
            y = y.concrete()
        if x is None or y is None:
            raise Undecided("comparison of symbolic bits")
        if isinstance(x, Sym) or isinstance(y, Sym):
            # normalise to  k*LEN >= lin
            if isinstance(x, Sym) and lin_parts(y) is not None:
                k, l = x.k, y
                m = {"Ge": (0, 0), "Lt": (0, 1), "Gt": (1, 0), "Le": (1, 1)}.get(op)
                if m is None:
                    raise Undecided("equality test on the buffer length")
                # Ge: k*LEN >= l ; Lt: not ; Gt: k*LEN >= l+1 ; Le: not(k*LEN >= l+1)        (k*LEN + c >= l  <=>  k*LEN >= l - c)
                return UBool(k, add(sub(l, x.c) if x.c else l, m[0]), bool(m[1]))
            if isinstance(y, Sym) and lin_parts(x) is not None:
                flip = {"Ge": "Le", "Le": "Ge", "Gt": "Lt", "Lt": "Gt"}.get(op)
                if flip is None:
                    raise Undecided("equality test on the buffer length")
                return self.compare(flip, y, x)
            raise Undecided("comparison involving the buffer length")
        px, py = lin_parts(x), lin_parts(y)
        if px is None or py is None:
            raise Undecided("comparison of non-integer abstract values")
        d = mklin(px[0] - py[0], px[1] - py[1])
        lo, hi = lin_range(d)
        if op == "Eq":
            return 1 if lo == hi == 0 else (0 if lo > 0 or hi < 0 else self._unk(op, x, y))
        if op == "Ne":
            return 0 if lo == hi == 0 else (1 if lo > 0 or hi < 0 else self._unk(op, x, y))
        if op == "Lt":
            return 1 if hi < 0 else (0 if lo >= 0 else self._unk(op, x, y))
        if op == "Le":
            return 1 if hi <= 0 else (0 if lo > 0 else self._unk(op, x, y))
        if op == "Gt":
            return 1 if lo > 0 else (0 if hi <= 0 else self._unk(op, x, y))
        if op == "Ge":
            return 1 if lo >= 0 else (0 if hi < 0 else self._unk(op, x, y))
        raise Undecided("comparison " + op)

    def _unk(self, op, x, y):
        raise Undecided("comparison %s(%s, %s) depends on the unknown byte index" % (op, x, y))

    def cast(self, v, src_ty, dst_ty):
        d = ty_bits(dst_ty)
        s = ty_bits(src_ty)
        if d is None:
            if dst_ty.get("k") == "ref" and isinstance(v, Ref):
                return v            # unsizing `&[T; N]` -> `&[T]`: the same referent
            if dst_ty.get("k") == "other" and isinstance(v, (BV, int)):
                # cast into the carrier type (generic): width W
                d = (self.W, None)
            else:
                raise Undecided("cast to %s" % (dst_ty.get("s") or dst_ty.get("k")))
        bits, signed = d
        if isinstance(v, bool):
            v = int(v)
        if isinstance(v, int):
            return self.wrap(v, bits, bool(signed))
        if isinstance(v, Lin):
            lo, hi = lin_range(v)
            if lo >= 0 and hi < (1 << (bits - (1 if signed else 0))):
                return v
            raise Undecided("narrowing cast of a symbolic integer")
        if isinstance(v, BV):
            if bits <= v.w:
                return BV(v.bits[:bits], signed)
            ssigned = s[1] if s else v.signed
            if ssigned is None:
                ext = 0 if v.bits[-1] == 0 else FILL
            else:
                ext = v.bits[-1] if ssigned else 0
            return BV(list(v.bits) + [ext] * (bits - v.w), signed)
        raise Undecided("cast of %s" % type(v).__name__)

    # ---- rvalues
    def rvalue(self, st, rv, dest_place):
        k = rv["k"]
        if k == "use":
            return self.operand(st, rv["op"])
        if k == "repeat" and isinstance(rv.get("count"), int) and rv["count"] <= 64:
            # [x; N] with a small literal N: a local array as a list of N independent copies
            x = self.operand(st, rv["op"])
            return [_copy_val(x, {}) if isinstance(x, (list, Adt, Tup)) else x for _ in range(rv["count"])]
        if k == "binop":
            x = self.operand(st, rv["a"])
            y = self.operand(st, rv["b"])
            tya = self.operand_ty(rv["a"])
            return self.binop(st, rv["op"], x, y, tya, None)
        if k == "unop" and rv.get("op") == "PtrMetadata":
            return self.slice_len(self.operand(st, rv.get("a") or rv.get("arg") or rv.get("operand")))
        if k == "unop":
            x = self.operand(st, rv.get("a") or rv.get("arg") or rv.get("operand"))
            o = rv["op"]
            ty = self.operand_ty(rv.get("a") or rv.get("arg") or rv.get("operand"))
            if o == "Not":
                if isinstance(x, BV):
                    return bv_not(x)
                if isinstance(x, UBool):
                    return UBool(x.k, x.lin, not x.neg)
                tb = ty_bits(ty)
                if isinstance(x, int) and tb:
                    if tb[0] == 1:
                        return 1 - x
                    return self.wrap(~x, tb[0], tb[1])
            if o == "Neg" and isinstance(x, int):
                return -x
            raise Undecided("unary %s on %s" % (o, type(x).__name__))
        if k in ("ref", "rawptr"):
            loc = self.resolve(st, rv["place"])
            if loc[0] == "local" and len(loc) == 3:
                loc = ("local", loc[1], loc[2], st.frame)
            return Ref(loc)
        if k == "cast":
            x = self.operand(st, rv["op"])
            return self.cast(x, self.operand_ty(rv["op"]), rv.get("ty") or self.place_ty(dest_place))
        if k == "discr":
            v = self.read(st, rv["place"])
            if isinstance(v, Adt):
                # the DISCRIMINANT, not the variant index (they differ for core::cmp::Ordering and for enums with explicit discriminants)
                import inline
                return inline._arm_value({"path": v.path, "variant": v.variant})
            raise Undecided("discriminant of a non-enum abstract value")
        if k == "aggregate":
            ops = [self.operand(st, o) for o in rv["ops"]]
            if rv["agg"] == "tuple":
                return Tup(ops)
            if rv["agg"] == "adt":
                return Adt(rv.get("path"), rv.get("variant", 0), rv.get("vname"), ops)
            if rv["agg"] == "array":
                return list(ops)
            if rv["agg"] == "closure":
                return Closure(rv.get("path"), ops)
            raise Undecided("aggregate " + rv["agg"])
        if k == "len":
            v = self.read(st, rv["place"])
            return self.slice_len(v)
        raise Undecided("rvalue kind %s" % k)

    def operand_ty(self, o):
        if o is None:
            return {"k": "other"}
        if o["k"] in ("copy", "move"):
            return self.place_ty(o["place"])
        return o.get("ty", {"k": "other"})

    def slice_len(self, v):
        if isinstance(v, Ref):
            v = ("slice",) + tuple(v.loc[1:]) if v.loc[0] == "slice" else None
        if isinstance(v, tuple) and v and v[0] == "slice":
            if v[2] is None:
                if lin_parts(v[1]) == (0, 0):
                    return Sym(1)
                raise Undecided("length of an open sub-slice")
            return sub(v[2], v[1])
        raise Undecided("len() of something that is not the buffer")

    # ---- calls
    def call(self, st, t):
        c = t.get("resolved") or t["callee"]
        args = [self.operand(st, a) for a in t["args"]]
        short = c.rsplit("::", 1)[-1]
        if any(is_extra(a) for a in args) and libmodel.is_safe(c) and all(is_extra(a) or isinstance(a, (int, bool)) for a in args):
            return Opaque("extra", ())
        m_ = re.fullmatch(r"core::num::<impl ([iu])(8|16|32|64|128|size|N)>::count_ones", c)
        if m_ and len(args) == 1:
            # population count of a value all of whose bits are known on this path (a byte mask built from the partition's offsets)
            a0 = args[0]
            cv = a0.concrete() if isinstance(a0, BV) else (a0 if isinstance(a0, int) and not isinstance(a0, bool) else None)
            if cv is None:
                raise Undecided("count_ones of a value with unknown bits")
            w0 = a0.w if isinstance(a0, BV) else 64
            return bv_const(bin(cv & ((1 << w0) - 1)).count("1"), 32, False)
        m_ = re.fullmatch(r"core::num::<impl ([iu])(8|16|32|64|128)>::(to|from)_(be|le)_bytes", c)
        if m_ and len(args) == 1:
            # an integer as the array of its bytes and back (bit k of the value = bit k % 8 of byte k / 8, little endian)
            sg, w, dr, en = m_.group(1) == "i", int(m_.group(2)), m_.group(3), m_.group(4)
            if dr == "to":
                bv = self.as_bv(args[0], w, sg) if not isinstance(args[0], BV) else args[0]
                if len(bv.bits) != w:
                    raise Undecided("to_%s_bytes of a value of another width" % en)
                bs = [BV(list(bv.bits[8 * k:8 * k + 8]), False) for k in range(w // 8)]
                return list(reversed(bs)) if en == "be" else bs
            arr = args[0]
            if isinstance(arr, list) and len(arr) == w // 8 and all(isinstance(b, (BV, int)) and not isinstance(b, bool) for b in arr):
                bs = [b if isinstance(b, BV) else bv_const(b & 255, 8, False) for b in arr]
                if any(len(b.bits) != 8 for b in bs):
                    raise Undecided("from_%s_bytes of non-byte elements" % en)
                if en == "be":
                    bs = list(reversed(bs))
                bits = []
                for b in bs:
                    bits.extend(b.bits)
                return BV(bits, sg)
            raise Undecided("from_%s_bytes of an unmodelled array" % en)
        if c == "<core::result::Result<T, E> as core::ops::Try>::branch":
            r = args[0]
            if isinstance(r, Adt) and r.vname == "Ok":
                return Adt("core::ops::ControlFlow", 0, "Continue", [r.fields[0]])
            if isinstance(r, Adt) and r.vname == "Err":
                return Adt("core::ops::ControlFlow", 1, "Break", [Adt("core::result::Result", 1, "Err", [r.fields[0]])])
            raise Undecided("`?` on an unknown result")
        if c.endswith("FromResidual<core::result::Result<core::convert::Infallible, E>>>::from_residual"):
            if isinstance(args[0], Adt) and args[0].vname == "Err":
                return args[0]
            raise Undecided("from_residual of an unknown residual")
        if c == "<core::option::Option<T> as core::ops::Try>::branch":
            r = args[0]
            if isinstance(r, Adt) and r.vname == "Some":
                return Adt("core::ops::ControlFlow", 0, "Continue", [r.fields[0]])
            if isinstance(r, Adt) and r.vname == "None":
                return Adt("core::ops::ControlFlow", 1, "Break", [Adt("core::option::Option", 0, "None", [])])
            raise Undecided("`?` on an unknown option")
        if c.endswith("FromResidual<core::option::Option<core::convert::Infallible>>>::from_residual"):
            return Adt("core::option::Option", 0, "None", [])
        if c == "core::slice::<impl [T]>::len":
            return self.slice_len(args[0])
        if c in ("core::slice::<impl [T]>::iter", "core::slice::<impl [T]>::iter_mut", "core::slice::iter::<impl core::iter::IntoIterator for &[T]>::into_iter",
                 "core::slice::iter::<impl core::iter::IntoIterator for &mut [T]>::into_iter"):
            a = args[0]
            if isinstance(a, Ref) and a.loc[0] == "slice":
                return It(a.loc[1], a.loc[2], short == "iter_mut" or "&mut [T]" in c)
            raise Undecided("iterator over something that is not the buffer")
        if c == "core::iter::Iterator::skip" and isinstance(args[0], It):
            it = args[0].clone()
            if it.take is not None or it.enum is not None or it.skip is not None:
                raise Undecided("adaptor order skip after take/enumerate")
            if lin_parts(args[1]) is None:
                raise Undecided("skip by a non-integer")
            if it.rev:
                ne = sub(it.end, args[1])
                c_ = self.compare("Lt", ne, it.idx)
                if c_ not in (0, 1):
                    raise Undecided("skip on a reversed iterator of unknown length")
                it.end = it.idx if c_ else ne
                it.order.append("skip")
                return it
            it.idx = add(it.idx, args[1])
            it.order.append("skip")
            return it
        if c == "core::iter::Iterator::take" and isinstance(args[0], It):
            it = args[0].clone()
            if it.enum is not None or it.take is not None:
                raise Undecided("adaptor order take after enumerate")
            if not isinstance(args[1], int):
                raise Undecided("take by a non-constant count")
            it.take = args[1]
            it.order.append("take")
            return it
        if c == "core::iter::Iterator::rev" and isinstance(args[0], It):
            it = args[0].clone()
            if it.take is not None or it.enum is not None or it.end is None:
                raise Undecided("rev after take / enumerate, or over the open input")
            it.rev = not it.rev
            it.order.append("rev")
            return it
        if c == "core::iter::Iterator::enumerate" and isinstance(args[0], It):
            it = args[0].clone()
            if it.enum is not None:
                raise Undecided("enumerate twice")
            it.enum = 0
            it.order.append("enumerate")
            return it
        if short == "into_iter" and isinstance(args[0], (It, RangeIt)):
            return args[0]
        if short == "into_iter" and isinstance(args[0], Adt) and (args[0].path or "").startswith("core::ops::Range"):
            a = args[0]
            return RangeIt(a.fields[0], a.fields[1], "Inclusive" in a.path)
        if short == "next":
            r = args[0]
            if isinstance(r, Ref):
                obj = self._get(st, r.loc)
                if isinstance(obj, Adt) and (obj.path or "").startswith("core::ops::Range") and "Inclusive" not in obj.path:
                    lo, hi = obj.fields
                    c_ = self.compare("Lt", lo, hi)
                    if c_ == 1:
                        obj.fields[0] = add(lo, 1)
                        return Adt("core::option::Option", 1, "Some", [lo])
                    return Adt("core::option::Option", 0, "None", [])
                if isinstance(obj, RangeIt):
                    if obj.done:
                        return Adt("core::option::Option", 0, "None", [])
                    c_ = self.compare("Le" if obj.inclusive else "Lt", obj.lo, obj.hi)
                    if c_ == 1:
                        v = obj.lo
                        obj.lo = add(obj.lo, 1)
                        return Adt("core::option::Option", 1, "Some", [v])
                    obj.done = True
                    return Adt("core::option::Option", 0, "None", [])
                if isinstance(obj, It):
                    return self.it_next(st, obj)
            raise Undecided("next() on an unmodelled iterator")
        if c == "df::bit_value::BitValue::sign_fix_rev":
            if self.kind != "put":
                raise Undecided("sign_fix_rev in the reader")
            if not (isinstance(args[0], BV) and args[0].bits and args[0] == bv_sym("A", self.W) and args[1] == self.w):
                raise Undecided("sign_fix_rev is not applied to (value, len)")
            return bv_sym("V", self.W)
        if c == "df::bit_value::BitValue::sign_fix":
            return Opaque("sign_fix", (args[0], args[1]))
        if c == "df::bit_value::BitValue::val_cast":
            v = self.as_bv(args[0], self.W)
            return BV(v.bits[:8], False)
        if c == "df::bit_value::BitValue::u8_cast":
            v = self.as_bv(args[0], 8)
            return BV(list(v.bits) + [0] * (self.W - 8), None)
        if c in ("core::default::Default::default", "<T as core::default::Default>::default") and not args:
            return bv_const(0, self.W)
        if c in ("core::ops::Shl::shl", "core::ops::Shr::shr", "core::ops::ShlAssign::shl_assign", "core::ops::ShrAssign::shr_assign"):
            assign = c.endswith("_assign")
            tgt = args[0]
            x = self._get(st, tgt.loc) if assign else tgt
            if not isinstance(x, BV) or not isinstance(args[1], int):
                raise Undecided("carrier shift by a non-constant amount")
            self.shift_sites.add(t.get("line"))
            if args[1] >= x.w or args[1] < 0:
                raise Panic("carrier shift of a %d-bit value by %d" % (x.w, args[1]))
            r = bv_shl(x, args[1]) if "Shl" in c else bv_shr(x, args[1], None)
            if assign:
                self._set(st, tgt.loc, r)
                return UNIT
            return r
        for tr, op in (("BitOr", "or"), ("BitAnd", "and"), ("BitXor", "xor")):
            if c == "core::ops::%s::%s" % (tr, tr.lower()):
                w = args[0].w if isinstance(args[0], BV) else args[1].w
                return bv_bin(op, self.as_bv(args[0], w), self.as_bv(args[1], w))
            if c == "core::ops::%sAssign::%s_assign" % (tr, tr.lower()):
                x = self._get(st, args[0].loc)
                w = x.w if isinstance(x, BV) else args[1].w
                self._set(st, args[0].loc, bv_bin(op, self.as_bv(x, w), self.as_bv(args[1], w)))
                return UNIT
        if c == "core::ops::Not::not":
            return bv_not(self.as_bv(args[0], self.W))
        if c in ("core::ops::Index::index", "core::ops::IndexMut::index_mut", "core::slice::index::<impl core::ops::Index<I> for [T]>::index",
                 "core::slice::index::<impl core::ops::IndexMut<I> for [T]>::index_mut"):
            base = args[0]
            if not (isinstance(base, Ref) and base.loc[0] == "slice"):
                raise Undecided("indexing something that is not the buffer")
            rg = args[1]
            if isinstance(rg, Adt) and (rg.path or "").startswith("core::ops::Range"):
                nm = rg.path.rsplit("::", 1)[-1]
                lo0, hi0 = base.loc[1], base.loc[2]
                if nm == "Range":
                    lo, hi = add(lo0, rg.fields[0]), add(lo0, rg.fields[1])
                elif nm == "RangeFrom":
                    lo, hi = add(lo0, rg.fields[0]), hi0
                elif nm == "RangeTo":
                    lo, hi = lo0, add(lo0, rg.fields[0])
                elif nm == "RangeInclusive":
                    lo, hi = add(lo0, rg.fields[0]), add(add(lo0, rg.fields[1]), 1)
                elif nm == "RangeToInclusive":
                    lo, hi = lo0, add(add(lo0, rg.fields[0]), 1)
                else:
                    raise Undecided("range kind " + nm)
                if hi is not None:
                    if self.compare("Le", lo, hi) != 1:
                        raise Panic("slice index starts after its end")
                    last = sub(hi, 1)
                    if self.compare("Lt", lo, hi) == 1:
                        ok = self.in_bounds(st, last, hi0)
                        if ok is not True:
                            raise Undecided("sub-slice end %s is not covered by the bounds test" % hi)
                else:
                    # data[n..] of the open input: fine exactly when n <= LEN is known on this path
                    cnd_ = self.compare("Ge", Sym(1), lo)
                    if isinstance(cnd_, UBool):
                        cnd_ = self.decide(st, cnd_)
                    if cnd_ is None:
                        raise Undecided("open-ended sub-slice data[%s..] is not covered by a length test on this path" % (lo,))
                    if not cnd_:
                        raise Panic("slice start %s beyond the end of the input" % (lo,))
                return Ref(("slice", lo, hi))
            if lin_parts(rg) is not None:
                return Ref(self.index_loc(st, base.loc, rg))
            raise Undecided("index by an unmodelled value")
        if c in ("core::iter::Iterator::fold", "<core::slice::Iter<'a, T> as core::iter::Iterator>::fold", "<core::slice::Iter<T> as core::iter::Iterator>::fold") \
                and isinstance(args[0], It) and isinstance(args[2], Closure):
            acc = args[1]
            it = args[0]
            n = 0
            while True:
                nx = self.it_next(st, it)
                if nx.variant == 0:
                    break
                n += 1
                if n > 64:
                    raise Undecided("fold over more than 64 elements")
                acc = self.exec_closure(st, args[2], [acc, nx.fields[0]])
            return acc
        if c in ("core::bool::<impl bool>::then", "core::bool::<impl bool>::then_some") and len(args) == 2:
            cnd = args[0]
            if isinstance(cnd, UBool):
                dd = self.decide(st, cnd)
                cnd = None if dd is None else (1 if dd else 0)
            if isinstance(cnd, BV):
                cnd = cnd.concrete()
            if not isinstance(cnd, int):
                raise Undecided("bool::then on a condition that is unknown on this path")
            if not cnd:
                return Adt("core::option::Option", 0, "None", [])
            if c.endswith("then_some"):
                return Adt("core::option::Option", 1, "Some", [args[1]])
            if isinstance(args[1], Closure):
                return Adt("core::option::Option", 1, "Some", [self.exec_closure(st, args[1], [])])
            raise Undecided("bool::then with an unmodelled closure")
        if c == "core::option::Option::<T>::zip" and len(args) == 2 and all(isinstance(a, Adt) for a in args):
            if args[0].vname == "Some" and args[1].vname == "Some":
                return Adt("core::option::Option", 1, "Some", [Tup([args[0].fields[0], args[1].fields[0]])])
            return Adt("core::option::Option", 0, "None", [])
        if c in ("core::option::Option::<T>::map", "core::option::Option::<T>::and_then") and len(args) == 2 and isinstance(args[0], Adt) and isinstance(args[1], Closure):
            if args[0].vname == "None":
                return args[0]
            r_ = self.exec_closure(st, args[1], [args[0].fields[0]])
            return Adt("core::option::Option", 1, "Some", [r_]) if c.endswith("::map") else r_
        if c == "core::array::<impl [T; N]>::map" and len(args) == 2 and isinstance(args[0], list) and isinstance(args[1], Closure):
            return [self.exec_closure(st, args[1], [x]) for x in args[0]]
        if c in ("core::ops::FnOnce::call_once", "core::ops::FnMut::call_mut", "core::ops::Fn::call") and len(args) == 2:
            # a closure value applied to its argument tuple (what the normalising pass leaves of `opt.map_or(d, |x| ..)` when the body is too large to inline)
            clo = args[0]
            for _ in range(3):
                if isinstance(clo, Ref) and clo.loc[0] == "local":
                    clo = self._get(st, clo.loc)
            if isinstance(clo, Closure) and isinstance(args[1], Tup):
                return self.exec_closure(st, clo, list(args[1].fields))
            raise Undecided("call of a function value that is not a closure literal")
        if c in self.prog.fns and self.depth < 4:
            import inline
            if not t.get("resolved") and inline._dispatches_on_self(self.prog.fns, c):
                raise Undecided("call of %s on a generic Self: the trait's default body is overridden by some impl" % c)
            if "{closure#" in c.rsplit("::", 1)[-1] and len(args) == 2 and isinstance(args[1], Tup) \
                    and self.prog.fns[c].rec.get("argc", 0) == 1 + len(args[1].fields):
                # a closure called by name (`f(x)` on a local closure): the call passes the arguments as one tuple, the body takes them spread
                args = [args[0]] + list(args[1].fields)
            return self.exec_fn(st, self.prog.fns[c], args)
        raise Undecided("call of %s" % c)

    depth = 0

    def exec_closure(self, st, clo, args):
        f = self.prog.fns.get(clo.path)
        if f is None:
            raise Undecided("closure body %s is not available" % clo.path)
        # body signature: (_1 = closure or &closure, _2.. = arguments)
        a0 = clo
        ty1 = f.rec["locals"][1] if len(f.rec["locals"]) > 1 else {}
        if ty1.get("k") == "ref":
            holder = ("local", -1 - self.depth, (), st.frame)
            st.locals[-1 - self.depth] = clo
            a0 = Ref(holder)
        return self.exec_fn(st, f, [a0] + list(args))

    def exec_fn(self, st, f, args):
        """Interpret a crate-local callee on the caller's abstract state (no forks inside helpers)."""
        if f.rec.get("argc", 0) != len(args):
            raise Undecided("arity mismatch calling %s" % f.path)
        saved = (self.blocks, self.ltys, self.f, st.locals)
        saved_frame = st.frame
        self.depth += 1
        try:
            self.blocks, self.ltys, self.f = f.rec["blocks"], f.rec["locals"], f
            keep = {k: v for k, v in st.locals.items() if k < 0}
            st.frames[st.frame] = saved[3]
            st.frame = st.nframes
            st.nframes += 1
            st.locals = dict(keep)
            st.frames[st.frame] = st.locals
            for i, a in enumerate(args):
                st.locals[i + 1] = a
            b = 0
            steps = 0
            while True:
                steps += 1
                if steps > 20000:
                    raise Undecided("helper %s does not terminate within 20000 blocks" % f.path)
                blk = self.blocks[b]
                for s_ in blk["stmts"]:
                    if s_["k"] != "assign":
                        continue
                    self.line = s_.get("line")
                    v = self.rvalue(st, s_["rv"], s_["place"])
                    self._set(st, self.resolve(st, s_["place"]), v)
                t = blk["term"]
                k = t["k"]
                if k == "goto":
                    b = t["target"]
                elif k == "return":
                    return st.locals.get(0)
                elif k == "assert":
                    cnd = self.operand(st, t["cond"])
                    st.asserts += 1
                    self.assert_sites.add((t.get("line"), t["kind"]))
                    if isinstance(cnd, UBool):
                        dd = self.decide(st, cnd)
                        if dd is None:
                            raise Undecided("assert %s in a helper depends on the buffer length" % t["kind"])
                        cnd = 1 if dd else 0
                    if not isinstance(cnd, int):
                        raise Undecided("assert %s on a non-constant" % t["kind"])
                    if bool(cnd) != bool(t["expected"]):
                        raise Panic("%s" % t["kind"])
                    b = t["target"]
                elif k == "switch":
                    d = self.operand(st, t["discr"])
                    if isinstance(d, UBool):
                        dd = self.decide(st, d)
                        d = None if dd is None else (1 if dd else 0)
                    if isinstance(d, BV):
                        d = d.concrete()
                    if not isinstance(d, int) and d is not None and lin_parts(d) is not None:
                        # a match on an affine value with a known range (the character code of one region): decided when the range lies on one
                        # side of every literal arm
                        lo_, hi_ = lin_range(d)
                        hit_ = [tb for v_, tb in t["arms"] if lo_ == hi_ == v_]
                        if hit_:
                            b = hit_[0]
                            continue
                        if all(v_ < lo_ or v_ > hi_ for v_, tb in t["arms"]):
                            b = t["otherwise"]
                            continue
                    if not isinstance(d, int):
                        raise Undecided("a helper branches on a value that is unknown on this path")
                    tgt = None
                    for v_, tb in t["arms"]:
                        if v_ == d:
                            tgt = tb
                    b = tgt if tgt is not None else t["otherwise"]
                elif k == "call":
                    r = self.call(st, t)
                    if isinstance(r, tuple) and r and r[0] == "fork-option":
                        raise Undecided("a helper performs a length-dependent Option operation")
                    self._set(st, self.resolve(st, t["dest"]), r)
                    if t["target"] is None:
                        raise Undecided("diverging call")
                    b = t["target"]
                elif k == "drop":
                    b = t["target"]
                else:
                    raise Undecided("terminator %s in a helper" % k)
        finally:
            self.depth -= 1
            self.blocks, self.ltys, self.f = saved[0], saved[1], saved[2]
            st.locals = saved[3]
            if st.frame != saved_frame:
                st.frames.pop(st.frame, None)
                st.frame = saved_frame

    def it_next(self, st, it):
        if it.take is not None:
            if it.take == 0:
                return Adt("core::option::Option", 0, "None", [])
        if it.rev:
            if it.end is None or it.take is not None or it.enum is not None:
                raise Undecided("reversed iteration over an open piece of the buffer / combined with take or enumerate")
            c_ = self.compare("Lt", it.idx, it.end)
            if c_ not in (0, 1):
                raise Undecided("reversed iteration over a piece of unknown length")
            if not c_:
                return Adt("core::option::Option", 0, "None", [])
            it.end = sub(it.end, 1)
            return Adt("core::option::Option", 1, "Some", [Ref(("byte", it.end))])
        ok = self.in_bounds(st, it.idx, it.end)
        if ok is None:
            raise Undecided("the byte iterator may end before byte %s: the bounds test does not cover it (known: LEN >= %s)" % (it.idx, st.len_lb))
        if ok is False:
            return Adt("core::option::Option", 0, "None", [])
        ref = Ref(("byte", it.idx))
        it.idx = add(it.idx, 1)
        if it.take is not None:
            it.take -= 1
        item = ref
        if it.enum is not None:
            item = Tup([it.enum, ref])
            it.enum = add(it.enum, 1)
        return Adt("core::option::Option", 1, "Some", [item])

    # ---- driver
    def run(self, st):
        work = [(st, 0)]
        paths = 0
        while work:
            st, b = work.pop()
            while True:
                st.steps += 1
                if st.steps > 20000:
                    raise Undecided("abstract execution does not terminate within 20000 blocks")
                blk = self.blocks[b]
                for s in blk["stmts"]:
                    if s["k"] != "assign":
                        continue
                    self.line = s.get("line")
                    v = self.rvalue(st, s["rv"], s["place"])
                    if isinstance(v, It) and s["rv"]["k"] == "use" and s["rv"]["op"]["k"] == "copy":
                        v = v.clone()
                    self._set(st, self.resolve(st, s["place"]), v)
                t = blk["term"]
                self.line = t.get("line", self.line)
                k = t["k"]
                if k == "goto":
                    b = t["target"]
                elif k == "return":
                    self.results.append((st, st.locals.get(0)))
                    paths += 1
                    break
                elif k == "assert":
                    c = self.operand(st, t["cond"])
                    st.asserts += 1
                    self.assert_sites.add((t.get("line"), t["kind"]))
                    if isinstance(c, UBool):
                        dd = self.decide(st, c)
                        if dd is None:
                            raise Undecided("assert %s depends on the buffer length" % t["kind"])
                        c = 1 if dd else 0
                    if not isinstance(c, int):
                        raise Undecided("assert %s on a non-constant" % t["kind"])
                    if bool(c) != bool(t["expected"]):
                        raise Panic("%s" % t["kind"])
                    b = t["target"]
                elif k == "switch":
                    d = self.operand(st, t["discr"])
                    if isinstance(d, UBool):
                        dd = self.decide(st, d)
                        if dd is not None:
                            d = 1 if dd else 0
                    if isinstance(d, UBool):
                        # fork; learn the bound on each side
                        for val in (1, 0):
                            tgt = None
                            for v_, tb in t["arms"]:
                                if v_ == val:
                                    tgt = tb
                            if tgt is None:
                                tgt = t["otherwise"]
                            s2 = st.clone()
                            pred = bool(val) != d.neg        # truth of k*LEN >= lin on this side
                            self.learn(s2, d.k, d.lin, pred)
                            work.append((s2, tgt))
                        break
                    if isinstance(d, BV):
                        d = d.concrete()
                    if not isinstance(d, int):
                        raise Undecided("branch on a symbolic value")
                    tgt = None
                    for v_, tb in t["arms"]:
                        if v_ == d:
                            tgt = tb
                    b = tgt if tgt is not None else t["otherwise"]
                elif k == "call":
                    r = self.call(st, t)
                    self._set(st, self.resolve(st, t["dest"]), r)
                    if t["target"] is None:
                        raise Undecided("diverging call")
                    b = t["target"]
                elif k == "drop":
                    b = t["target"]
                elif k == "unreachable":
                    raise Undecided("reached an `unreachable` terminator")
                else:
                    raise Undecided("terminator " + k)
            if paths > 16 or len(work) > 16:
                raise Undecided("more than 16 abstract paths in one partition")

    def decide(self, st, d):
        """truth of  k*LEN >= lin  from the bounds learnt on this path (None = unknown)"""
        a, c = lin_parts(d.lin)
        if a % d.k != 0:
            return None
        need = (a // d.k, -((-c) // d.k))          # LEN >= need
        r = None
        if st.len_lb is not None:
            la, lc = lin_parts(st.len_lb)
            lo, hi = lin_range(mklin(la - need[0], lc - need[1]))
            if lo >= 0:
                r = True
        if r is None and st.len_ub is not None:
            ua, uc = lin_parts(st.len_ub)
            lo, hi = lin_range(mklin(ua - need[0], uc - need[1]))
            if hi <= 0:
                r = False
        if r is None:
            return None
        return (not r) if d.neg else r

    def learn(self, st, k, lin, pred):
        a, c = lin_parts(lin)
        if a % k != 0:
            return
        if pred:
            # k*LEN >= a*Q + c   =>  LEN >= (a/k)*Q + ceil(c/k)
            lb = mklin(a // k, -((-c) // k))
            if st.len_lb is None:
                st.len_lb = lb
            else:
                oa, oc = lin_parts(st.len_lb)
                na, nc = lin_parts(lb)
                lo, hi = lin_range(mklin(na - oa, nc - oc))
                if lo >= 0:
                    st.len_lb = lb
                elif hi > 0:
                    st.len_lb2 = lb          # incomparable: keep both
        else:
            # k*LEN < a*Q + c  =>  LEN < (a/k)*Q + ceil(c/k)
            ub = mklin(a // k, -((-c) // k))
            if st.len_ub is None:
                st.len_ub = ub
            else:
                oa, oc = lin_parts(st.len_ub)
                na, nc = lin_parts(ub)
                lo, hi = lin_range(mklin(na - oa, nc - oc))
                if hi <= 0:
                    st.len_ub = ub


# ------------------------------------------------------------------ specification checks
def initial_state(kind, r, w, W, field_order=(0, 1), nfields=2):
    st = State()
    fl = [Opaque("extra", ()) for _ in range(max(nfields, 2))]
    fl[field_order[0]] = Ref(("slice", 0, None))
    fl[field_order[1]] = Lin(8, r)
    st.self_fields = Tup(fl)
    st.locals[1] = Ref(("self", ()))
    if kind == "put":
        st.locals[2] = bv_sym("A", W)
        st.locals[3] = w
    else:
        st.locals[2] = w
    return st


def check_partition(prog, f, kind, r, w, W, field_order=(0, 1), nfields=2):
    """Returns (problems, stats).  field_order: indices of (data, offset) in the struct; other fields hold opaque values."""
    it = Interp(prog, f, kind, r, w, W)
    st = initial_state(kind, r, w, W, field_order, nfields)
    i_off = field_order[1]
    problems = []
    try:
        it.run(st)
    except Panic as e:
        return ["panic: %s (line %s)" % (e, getattr(it, "line", "?"))], it
    except Undecided as e:
        return ["undecided: %s (line %s)" % (e, getattr(it, "line", "?"))], it
    except RecursionError:
        return ["undecided: recursion limit"], it
    oks = 0
    errs = 0
    for fin, ret in it.results:
        if not isinstance(ret, Adt) or ret.vname not in ("Ok", "Err"):
            problems.append("return value is not a Result built in place")
            continue
        off = fin.self_fields.fields[i_off]
        if ret.vname == "Err":
            errs += 1
            e = ret.fields[0]
            if not (isinstance(e, Adt) and e.vname == "BufferOverflow"):
                problems.append("error path returns %s, not BufferOverflow" % getattr(e, "vname", "?"))
            if fin.written:
                problems.append("error path writes buffer bytes %s" % sorted(fin.written))
            if off != Lin(8, r):
                problems.append("error path moves the cursor to %s" % off)
            # the error path must be exactly the insufficient-space case: LEN*8 < offset + w
            want_ub = mklin(1, (r + w + 7) // 8)
            if fin.len_ub is None or lin_parts(fin.len_ub) != lin_parts(want_ub):
                problems.append("error is reported when LEN < %s, expected exactly when LEN < %s (8*LEN < offset+w)" % (fin.len_ub, want_ub))
            continue
        oks += 1
        want_lb = mklin(1, (r + w + 7) // 8)
        if fin.len_lb is None or lin_parts(fin.len_lb) != lin_parts(want_lb):
            problems.append("success path taken when LEN >= %s, expected exactly when LEN >= %s" % (fin.len_lb, want_lb))
        if off != Lin(8, r + w):
            problems.append("cursor after success is %s, expected offset + %d" % (off, w))
        if kind == "put":
            if not (isinstance(ret.fields[0], Tup) and not ret.fields[0].fields):
                problems.append("Ok payload is not ()")
            # expected bytes
            nbytes = (r + w + 7) // 8
            for j in range(nbytes):
                exp = []
                for bit in range(8):           # bit index within the byte, LSB = 0
                    pos = 8 * j + (7 - bit)    # absolute bit position from the start of byte Q, MSB first
                    p = pos - r                # index within the field, 0 = most significant field bit
                    if 0 <= p < w:
                        exp.append(bf_atom(("V", w - 1 - p)))
                    else:
                        exp.append(bf_atom(("D", 1, j, bit)))
                got = fin.mem.get((1, j))
                if got is None:
                    got = BV([bf_atom(("D", 1, j, i)) for i in range(8)])
                if tuple(exp) != got.bits:
                    problems.append("buffer byte Q+%d is %s, expected %s" % (j, got, BV(exp)))
            for k in sorted(fin.written):
                if not (k[0] == 1 and 0 <= k[1] < nbytes):
                    got = fin.mem[k]
                    if got != it.orig_byte(mklin(k[0], k[1])):
                        problems.append("byte %s outside the field is modified" % (mklin(k[0], k[1]),))
        else:
            if fin.written:
                problems.append("the reader writes buffer bytes %s" % sorted(fin.written))
            v = ret.fields[0]
            if not (isinstance(v, Opaque) and v.tag == "sign_fix" and v.args[1] == w and isinstance(v.args[0], BV)):
                problems.append("Ok payload is not sign_fix(assembled bits, len)")
            else:
                exp = []
                for kbit in range(W):
                    if kbit < w:
                        p = w - 1 - kbit
                        pos = r + p
                        exp.append(bf_atom(("D", 1, pos // 8, 7 - pos % 8)))
                    else:
                        exp.append(0)
                if tuple(exp) != v.args[0].bits:
                    problems.append("assembled value is %s, expected %s" % (v.args[0], BV(exp)))
    if oks != 1:
        problems.append("%d success paths (expected exactly 1)" % oks)
    if errs != 1:
        problems.append("%d error paths (expected exactly 1)" % errs)
    return problems, it


def analyse(prog, path, kind, widths=(8, 16, 32, 64), field_order=(0, 1), nfields=2):
    f = prog.fn(path)
    out = {"partitions": 0, "asserts_decided": 0, "assert_sites": set(), "shift_sites": set(), "problems": {}}
    for W in widths:
        for w in range(1, W + 1):
            for r in range(8):
                probs, it = check_partition(prog, f, kind, r, w, W, field_order, nfields)
                out["partitions"] += 1
                out["asserts_decided"] += sum(s.asserts for s, _ in it.results)
                out["assert_sites"] |= it.assert_sites
                out["shift_sites"] |= it.shift_sites
                for p in probs:
                    # group identical problem classes; keep the first partition as the witness
                    key = p.split(" (line")[0] if p.startswith(("undecided", "panic")) else p.split(" is ")[0]
                    key = _NUM.sub("N", key)
                    e = out["problems"].setdefault(key, {"first": (r, w, W), "count": 0, "text": p})
                    e["count"] += 1
    return out
