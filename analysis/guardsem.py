"""Abstract interpretation with if-conversion: a branch on a symbolic bit is executed on both sides up to the branch's
immediate post-dominator and the two states are merged (bit vectors by a multiplexer in the Boolean-function domain,
vectors as guarded lists `[(condition, element)]`).  Used for the MSM identifier helpers (S-asc):

  mask_to_id_vec_uN(mask)            = [ id | id <- 1..=N, mask bit N-id set ]                     (any loop / adaptor form)
  cell_mask_id_vec(sat, sig, cells)  = None if |S|*|G| is 0 or > 64, else
                                       Some((S, [ (S[i / |G|], G[i % |G|]) | i <- 0..|S|*|G|, cell bit |S|*|G|-1-i set ]))
                                       partitioned on (|S|, |G|) with S, G lists of symbolic identifiers
"""
import bitsem
from bitsem import Interp, State, BV, Ref, Adt, Tup, Undecided, Panic, bf_atom, bf_op, RangeIt, Closure, UNIT, lin_parts


class GVec(object):
    def __init__(self, items=None, cap=None):
        self.items = list(items or [])      # [(guard, value)]
        self.cap = cap


class FilterIt(object):
    def __init__(self, inner, clo):
        self.inner, self.clo = inner, clo


class ZipIt(object):
    def __init__(self, a, b):
        self.a, self.b = a, b


class VecIter(object):
    def __init__(self, vec, by_value):
        self.vec, self.pos, self.by_value = vec, 0, by_value


_IPD_MEMO = {}


class ListIt(object):
    """an iterator over vectors / ranges of concrete length, materialised: [(guard, item)] in order (adaptors are applied eagerly)"""

    def __init__(self, items):
        self.items = list(items)
        self.pos = 0

    def copy_val(self, memo, cp):
        n = ListIt([(g, cp(v, memo)) for g, v in self.items])
        n.pos = self.pos
        return n


def ipdoms(f):
    """immediate post-dominators of the reachable blocks (virtual exit = every block without successors); cached per function object"""
    k = id(f)
    hit = _IPD_MEMO.get(k)
    if hit is not None and hit[0] is f:
        return hit[1]
    r = _ipdoms(f)
    _IPD_MEMO[k] = (f, r)
    return r


def _ipdoms(f):
    blocks = sorted(f.reachable())
    succ = {b: list(f.succ(b)) for b in blocks}
    EXIT = -1
    for b in blocks:
        if not succ[b]:
            succ[b] = [EXIT]
    nodes = blocks + [EXIT]
    pd = {b: set(nodes) for b in nodes}
    pd[EXIT] = {EXIT}
    changed = True
    while changed:
        changed = False
        for b in blocks:
            new = None
            for s in succ[b]:
                new = set(pd[s]) if new is None else (new & pd[s])
            new = (new or set()) | {b}
            if new != pd[b]:
                pd[b] = new
                changed = True
    out = {}
    for b in blocks:
        cands = pd[b] - {b}
        # the immediate one: post-dominated by all the others
        best = None
        for c in cands:
            if all(o == c or o in pd[c] for o in cands):
                best = c
        out[b] = best
    return out


class GInterp(Interp):
    def __init__(self, prog, f, W=64):
        Interp.__init__(self, prog, f, "guard", 0, 0, W)
        self.ipd = {id(f): ipdoms(f)}
        self.guard = 1

    # ---- values
    def compare(self, op, x, y):
        if (isinstance(x, BV) or isinstance(y, BV)) and op in ("Eq", "Ne"):
            w = x.w if isinstance(x, BV) else y.w
            xb, yb = self.as_bv(x, w), self.as_bv(y, w)
            if xb.concrete() is None or yb.concrete() is None:
                acc = 1
                for a, b in zip(xb.bits, yb.bits):
                    acc = bf_op("and", acc, bf_op("not", bf_op("xor", a, b)))
                if op == "Ne":
                    acc = bf_op("not", acc)
                return BV([acc], False)
        return Interp.compare(self, op, x, y)

    def binop(self, st, op, x, y, tya, dest_ty):
        if op == "Rem" and isinstance(x, BV) and isinstance(y, int) and y > 0 and (y & (y - 1)) == 0:
            k = y.bit_length() - 1
            return BV(list(x.bits[:k]) + [0] * (x.w - k), x.signed)
        if op in ("Shl", "Shr") and isinstance(y, BV):
            y = y.concrete()
        return Interp.binop(self, st, op, x, y, tya, dest_ty)

    def vec_of(self, st, v):
        if isinstance(v, Ref):
            v = self._get(st, v.loc)
        return v if isinstance(v, GVec) else None

    def call(self, st, t):
        c = t.get("resolved") or t["callee"]
        short = c.rsplit("::", 1)[-1]
        if c in ("tinyvec::ArrayVec::<A>::new",):
            import libmodel
            return GVec(cap=libmodel.capacity_of_type(self.place_ty(t["dest"])))
        if c in ("tinyvec::ArrayVec::<A>::push",):
            args = [self.operand(st, a) for a in t["args"]]
            v = self.vec_of(st, args[0])
            if v is None:
                raise Undecided("push on an unmodelled vector")
            if v.cap is not None and len(v.items) >= v.cap:
                raise Panic("push into a full ArrayVec (capacity %d)" % v.cap)
            v.items.append((self.guard, args[1]))
            return UNIT
        if c in ("tinyvec::ArrayVec::<A>::len",):
            args = [self.operand(st, a) for a in t["args"]]
            v = self.vec_of(st, args[0])
            if v is None or any(g != 1 for g, _ in v.items):
                raise Undecided("length of a vector with conditional elements")
            return len(v.items)
        if c in ("<tinyvec::ArrayVec<A> as core::ops::Index<I>>::index", "tinyvec::ArrayVec::<A>::get") or (short == "index" and "ArrayVec" in c):
            args = [self.operand(st, a) for a in t["args"]]
            v = self.vec_of(st, args[0])
            i = args[1]
            if isinstance(i, BV):
                i = i.concrete()
            if v is None or not isinstance(i, int) or any(g != 1 for g, _ in v.items):
                raise Undecided("index into an unmodelled vector")
            if not 0 <= i < len(v.items):
                raise Panic("vector index %d of %d" % (i, len(v.items)))
            st.locals[-200 - st.steps % 50] = v.items[i][1]
            return Ref(("local", -200 - st.steps % 50, (), st.frame))
        if c in ("tinyvec::ArrayVec::<A>::iter", "<tinyvec::ArrayVec<A> as core::iter::IntoIterator>::into_iter") or (short == "into_iter" and self.vec_of(st, self.operand(st, t["args"][0])) is not None):
            args = [self.operand(st, a) for a in t["args"]]
            v = self.vec_of(st, args[0])
            if v is None or any(g != 1 for g, _ in v.items):
                raise Undecided("iteration over a vector with conditional elements")
            return VecIter(v, not c.endswith("::iter"))
        if c in ("<tinyvec::ArrayVec<A> as core::ops::Deref>::deref", "tinyvec::ArrayVec::<A>::as_slice"):
            args = [self.operand(st, a) for a in t["args"]]
            if self.vec_of(st, args[0]) is not None:
                return args[0]
        if c == "core::slice::<impl [T]>::iter":
            args = [self.operand(st, a) for a in t["args"]]
            v = self.vec_of(st, args[0])
            if v is not None:
                if any(g != 1 for g, _ in v.items):
                    raise Undecided("iteration over a vector with conditional elements")
                return VecIter(v, False)
        if c == "core::slice::<impl [T]>::len":
            args = [self.operand(st, a) for a in t["args"]]
            v = self.vec_of(st, args[0])
            if v is not None:
                if any(g != 1 for g, _ in v.items):
                    raise Undecided("length of a vector with conditional elements")
                return len(v.items)
        if short == "into_iter":
            args = [self.operand(st, a) for a in t["args"]]
            if isinstance(args[0], (VecIter, RangeIt, FilterIt, ZipIt, bitsem.It, ListIt)):
                return args[0]
        if c in ("core::iter::Iterator::flat_map", "core::iter::Iterator::map", "core::iter::Iterator::zip", "core::iter::Iterator::rev",
                 "core::iter::Iterator::enumerate") or \
                (c == "core::iter::Iterator::filter" and isinstance(self.operand(st, t["args"][0]), ListIt)):
            # adaptors over iterators of concrete length are applied eagerly, item by item (guards of conditional items are carried along)
            a = [self.operand(st, x) for x in t["args"]]
            src = self.materialise(st, a[0])
            if src is not None:
                if short == "rev":
                    if any(g != 1 for g, _ in src):
                        raise Undecided("rev over conditional items")
                    return ListIt(reversed(src))
                if short == "enumerate":
                    if any(g != 1 for g, _ in src):
                        raise Undecided("enumerate over conditional items")
                    return ListIt([(1, Tup([i, v])) for i, (g, v) in enumerate(src)])
                if short == "zip":
                    oth = self.materialise(st, a[1])
                    if oth is None or any(g != 1 for g, _ in src) or any(g != 1 for g, _ in oth):
                        raise Undecided("zip of unmodelled or conditional iterators")
                    return ListIt([(1, Tup([x, y])) for (_, x), (_, y) in zip(src, oth)])
                if not isinstance(a[1], Closure):
                    raise Undecided("%s with an unmodelled function" % short)
                out = []
                for g, x in src:
                    if short == "map":
                        out.append((g, self.exec_closure(st, a[1], [x])))
                    elif short == "flat_map":
                        inner = self.materialise(st, self.exec_closure(st, a[1], [x]))
                        if inner is None:
                            raise Undecided("flat_map: the closure does not return a modelled iterator")
                        out.extend((bf_op("and", g, g2) if g != 1 else g2, y) for g2, y in inner)
                    else:       # filter: the predicate takes a reference to the item
                        self._scratch = getattr(self, "_scratch", 0) + 1
                        slot = -5000 - self._scratch
                        st.locals[slot] = x
                        gd = self.exec_closure(st, a[1], [Ref(("local", slot, (), st.frame))])
                        if isinstance(gd, BV):
                            gd = gd.bits[0] if gd.concrete() is None else gd.concrete()
                        if gd == 0:
                            continue
                        out.append((g if gd == 1 else (gd if g == 1 else bf_op("and", g, gd)), x))
                return ListIt(out)
        if c == "core::ops::RangeInclusive::<Idx>::new":
            a = [self.operand(st, x) for x in t["args"]]
            return RangeIt(a[0], a[1], True)
        if c == "core::iter::Iterator::filter":
            a = [self.operand(st, x) for x in t["args"]]
            if isinstance(a[1], Closure):
                inner = a[0]
                if isinstance(inner, Adt) and (inner.path or "").startswith("core::ops::Range"):
                    inner = RangeIt(inner.fields[0], inner.fields[1], "Inclusive" in inner.path)
                return FilterIt(inner, a[1])
        if c.endswith("Iterator::collect") and isinstance(self.operand(st, t["args"][0]), ListIt):
            it = self.operand(st, t["args"][0])
            import libmodel
            out = GVec(cap=libmodel.capacity_of_type(self.place_ty(t["dest"])))
            for g, v in it.items[it.pos:]:
                if out.cap is not None and len(out.items) >= out.cap:
                    raise Panic("collect into a full ArrayVec (capacity %d)" % out.cap)
                out.items.append((g if self.guard == 1 else bf_op("and", self.guard, g), v))
            return out
        if c.endswith("Iterator::collect"):
            a = [self.operand(st, x) for x in t["args"]]
            it = a[0]
            if isinstance(it, FilterIt) and isinstance(it.inner, RangeIt):
                r = it.inner
                if not (isinstance(r.lo, int) and isinstance(r.hi, int)):
                    raise Undecided("range with symbolic bounds")
                hi = r.hi if r.inclusive else r.hi - 1
                import libmodel
                out = GVec(cap=libmodel.capacity_of_type(self.place_ty(t["dest"])))
                for e in range(r.lo, hi + 1):
                    if out.cap is not None and len(out.items) >= out.cap:
                        raise Panic("collect into a full ArrayVec (capacity %d)" % out.cap)
                    st.locals[-100] = e
                    gd = self.exec_closure(st, it.clo, [Ref(("local", -100, (), st.frame))])
                    if isinstance(gd, BV):
                        gd = gd.bits[0]
                    out.items.append((bf_op("and", self.guard, gd), e))
                return out
            raise Undecided("collect of an unmodelled iterator")
        if short == "next":
            a = [self.operand(st, x) for x in t["args"]]
            obj = self._get(st, a[0].loc) if isinstance(a[0], Ref) else None
            if isinstance(obj, VecIter):
                if obj.pos >= len(obj.vec.items):
                    return Adt("core::option::Option", 0, "None", [])
                v = obj.vec.items[obj.pos][1]
                obj.pos += 1
                if not obj.by_value:
                    st.locals[-300 - obj.pos] = v
                    v = Ref(("local", -300 - obj.pos, (), st.frame))
                return Adt("core::option::Option", 1, "Some", [v])
        m = bitsem.re.fullmatch(r"<[ui]\d+ as core::ops::(Sub|Add)<&[ui]\d+>>::(sub|add)", c)
        if m:
            a = [self.operand(st, x) for x in t["args"]]
            y = self._get(st, a[1].loc) if isinstance(a[1], Ref) else a[1]
            r = self.binop(st, m.group(1) + "WithOverflow", a[0], y, self.place_ty(t["dest"]), None)
            if r.fields[1]:
                raise Panic("overflow in %s" % c)
            return r.fields[0]
        if c in self.hooks:
            return self.hooks[c](self, st, t)
        return Interp.call(self, st, t)

    hooks = {}

    def materialise(self, st, it):
        """[(guard, item)] of an iterator of concrete length, or None"""
        if isinstance(it, Ref):
            v = self.vec_of(st, it)
            if v is None:
                it = self._get(st, it.loc)
            else:
                it = VecIter(v, False)
        if isinstance(it, ListIt):
            return list(it.items[it.pos:])
        if isinstance(it, VecIter):
            out = []
            for g, v in it.vec.items[it.pos:]:
                if it.by_value:
                    out.append((g, v))
                else:
                    self._scratch = getattr(self, "_scratch", 0) + 1
                    slot = -5000 - self._scratch
                    st.locals[slot] = v
                    out.append((g, Ref(("local", slot, (), st.frame))))
            return out
        if isinstance(it, Adt) and (it.path or "").startswith("core::ops::Range") and len(it.fields) >= 2:
            it = RangeIt(it.fields[0], it.fields[1], "Inclusive" in it.path)
        if isinstance(it, RangeIt):
            lo, hi = it.lo, it.hi
            if isinstance(lo, BV):
                lo = lo.concrete()
            if isinstance(hi, BV):
                hi = hi.concrete()
            if not (isinstance(lo, int) and isinstance(hi, int)) or hi - lo > 4096:
                return None
            return [(1, e) for e in range(lo, hi + 1 if it.inclusive else hi)]
        return None

    # ---- driver with if-conversion
    def run_region(self, st, b, stop, depth=0):
        """Execute from block b until `stop` is reached (returns ('at', state)) or the function returns (('ret', state, value))."""
        blocks = self.blocks
        ipd = self.ipd[id(self.f)]
        while True:
            if b == stop:
                return ("at", st)
            st.steps += 1
            if st.steps > 200000:
                raise Undecided("abstract execution does not terminate")
            blk = blocks[b]
            for s in blk["stmts"]:
                if s["k"] != "assign":
                    continue
                self.line = s.get("line")
                v = self.rvalue(st, s["rv"], s["place"])
                self._set(st, self.resolve(st, s["place"]), v)
            t = blk["term"]
            self.line = t.get("line", self.line)
            k = t["k"]
            if k == "goto":
                b = t["target"]
            elif k == "return":
                return ("ret", st, st.locals.get(0))
            elif k == "assert":
                c = self.operand(st, t["cond"])
                st.asserts += 1
                if isinstance(c, BV):
                    c = c.concrete()
                if not isinstance(c, int):
                    raise Undecided("assert %s on a symbolic value" % t["kind"])
                if bool(c) != bool(t["expected"]):
                    raise Panic("%s" % t["kind"])
                b = t["target"]
            elif k == "switch":
                d = self.operand(st, t["discr"])
                if isinstance(d, BV) and d.concrete() is not None:
                    d = d.concrete()
                if isinstance(d, BV):
                    if d.w != 1 or depth > 8:
                        raise Undecided("branch on a symbolic multi-bit value")
                    cond = d.bits[0]
                    J = ipd.get(b)
                    if J is None or J == -1:
                        raise Undecided("a symbolic branch without a join point")
                    tgt1 = None
                    tgt0 = None
                    for v_, tb in t["arms"]:
                        if v_ == 1:
                            tgt1 = tb
                        if v_ == 0:
                            tgt0 = tb
                    if tgt1 is None:
                        tgt1 = t["otherwise"]
                    if tgt0 is None:
                        tgt0 = t["otherwise"]
                    saved = self.guard
                    outs = []
                    for val, tg in ((1, tgt1), (0, tgt0)):
                        s2 = st.clone()
                        self.guard = bf_op("and", saved, cond if val else bf_op("not", cond))
                        r = self.run_region(s2, tg, J, depth + 1)
                        if r[0] != "at":
                            self.guard = saved
                            raise Undecided("return inside a conditionally executed region")
                        outs.append(r[1])
                    self.guard = saved
                    st = self.merge(outs[0], outs[1], cond)
                    b = J
                    continue
                if not isinstance(d, int) and lin_parts(d) is not None:
                    # a `match` on the character / byte code itself (`Ok(0) => .., Ok(code) => ..`): decided when the region of the code
                    # lies on one side of every literal arm
                    lo_, hi_ = bitsem.lin_range(d)
                    hit_ = [tb for v_, tb in t["arms"] if lo_ == hi_ == v_]
                    if hit_:
                        b = hit_[0]
                        continue
                    if all(v_ < lo_ or v_ > hi_ for v_, tb in t["arms"]):
                        b = t["otherwise"]
                        continue
                    raise Undecided("a match arm splits one region of the code")
                if not isinstance(d, int):
                    raise Undecided("branch on an unmodelled value")
                tgt = None
                for v_, tb in t["arms"]:
                    if v_ == d:
                        tgt = tb
                b = tgt if tgt is not None else t["otherwise"]
            elif k == "call":
                r = self.call(st, t)
                self._set(st, self.resolve(st, t["dest"]), r)
                if t["target"] is None:
                    raise Undecided("diverging call")
                b = t["target"]
            elif k == "drop":
                b = t["target"]
            elif k == "unreachable":
                raise Undecided("reached an `unreachable` terminator")
            else:
                raise Undecided("terminator " + k)

    def merge(self, s1, s0, cond):
        """state after `if cond { s1 } else { s0 }`"""
        out = s1
        for key in set(s1.locals) | set(s0.locals):
            a, b = s1.locals.get(key), s0.locals.get(key)
            out.locals[key] = self.merge_val(a, b, cond)
        out.steps = max(s1.steps, s0.steps)
        out.asserts = s1.asserts + s0.asserts
        return out

    def merge_val(self, a, b, cond):
        if a is b or a == b:
            return a
        if a is None or b is None:
            return a if b is None else b
        if isinstance(a, BV) and isinstance(b, BV) and a.w == b.w:
            if a.bits == b.bits:
                return a
            nc = bf_op("not", cond)
            return BV([bf_op("or", bf_op("and", cond, x), bf_op("and", nc, y)) for x, y in zip(a.bits, b.bits)], a.signed)
        if isinstance(a, GVec) and isinstance(b, GVec):
            n = 0
            while n < len(a.items) and n < len(b.items) and a.items[n] == b.items[n]:
                n += 1
            ra, rb = a.items[n:], b.items[n:]
            if ra and rb:
                raise Undecided("both sides of a symbolic branch append to the vector")
            return GVec(a.items[:n] + ra + rb, a.cap)
        if isinstance(a, Tup) and isinstance(b, Tup) and len(a.fields) == len(b.fields):
            return Tup([self.merge_val(x, y, cond) for x, y in zip(a.fields, b.fields)])
        if isinstance(a, Adt) and isinstance(b, Adt) and a.variant == b.variant and len(a.fields) == len(b.fields):
            return Adt(a.path, a.variant, a.vname, [self.merge_val(x, y, cond) for x, y in zip(a.fields, b.fields)])
        if isinstance(a, Ref) and isinstance(b, Ref) and a.loc == b.loc:
            return a
        if type(a) is type(b) and isinstance(a, (VecIter, RangeIt, bitsem.It)) and a.__dict__ == b.__dict__:
            return a
        if isinstance(a, int) and isinstance(b, int) and a == b:
            return a
        return ("differs", a, b)

    def run_fn(self, st):
        r = self.run_region(st, 0, None)
        if r[0] != "ret":
            raise Undecided("no return")
        return r[2]


# ------------------------------------------------------------------ the two specifications
def check_idvec(prog, path, n):
    f = prog.fn(path)
    if f is None:
        return None, "not found"
    it = GInterp(prog, f, n)
    st = State()
    st.locals[1] = BV([bf_atom(("M", k)) for k in range(n)], False)
    try:
        ret = it.run_fn(st)
    except (Undecided, Panic) as e:
        return None, "abstract interpretation: %s (line %s)" % (e, it.line)
    if not isinstance(ret, GVec):
        return False, "result is not a vector"
    want = [(bf_atom(("M", n - i)), i) for i in range(1, n + 1)]
    got = [(g, (v.concrete() if isinstance(v, BV) else v)) for g, v in ret.items]
    if got == want:
        return True, "result = [id for id in 1..=%d if mask bit (%d - id)] in ascending order (abstract interpretation with if-conversion)" % (n, n)
    for (g1, e1), (g2, e2) in zip(got, want):
        if (g1, e1) != (g2, e2):
            return False, "element %s is kept under %s, expected id %s under mask bit %d" % (e1, bitsem.bit_str(g1), e2, n - e2)
    return False, "%d elements, expected %d" % (len(got), n)


def check_cellvec(prog):
    """(ok | None, detail, partitions); cached on disk by the hash of the function body and of the interpreter sources"""
    import hashlib, json, os, engine
    f = prog.fn("msg::cell_mask_id_vec")
    if f is None:
        return None, "not found", 0
    h = hashlib.sha256((json.dumps(f.rec["blocks"], sort_keys=True) + json.dumps(f.rec["locals"], sort_keys=True) + open(__file__).read()
                        + open(bitsem.__file__).read()).encode()).hexdigest()[:24]
    cpath = os.path.join(engine.CACHE, "cellsem-%s.json" % h)
    if os.environ.get("VERIF_NOCACHE") != "1" and os.path.exists(cpath):
        try:
            r = json.load(open(cpath))
            return r[0], r[1], r[2]
        except Exception:
            pass
    r = _check_cellvec(prog, f)
    try:
        os.makedirs(engine.CACHE, exist_ok=True)
        with open(cpath + ".tmp", "w") as fh:
            json.dump(list(r), fh)
        os.replace(cpath + ".tmp", cpath)
    except OSError:
        pass
    return r


def _check_cellvec(prog, f):
    nparts = 0
    for a in range(0, 65):
        for b in range(0, 33):
            S = GVec([(1, ("S", i)) for i in range(a)])
            G = GVec([(1, ("G", i)) for i in range(b)])

            def h64(self, st, t, S=S):
                return GVec(list(S.items))

            def h32(self, st, t, G=G):
                return GVec(list(G.items))
            it = GInterp(prog, f, 64)
            it.hooks = {"msg::mask_to_id_vec_u64": h64, "msg::mask_to_id_vec_u32": h32}
            st = State()
            st.locals[1] = BV([bf_atom(("SM", k)) for k in range(64)], False)
            st.locals[2] = BV([bf_atom(("GM", k)) for k in range(32)], False)
            st.locals[3] = BV([bf_atom(("C", k)) for k in range(64)], False)
            try:
                ret = it.run_fn(st)
            except (Undecided, Panic) as e:
                return None, "abstract interpretation (|S|=%d, |G|=%d): %s (line %s)" % (a, b, e, it.line), nparts
            nparts += 1
            n = a * b
            if n == 0 or n > 64:
                if not (isinstance(ret, Adt) and ret.vname == "None"):
                    return False, "|S|=%d, |G|=%d: expected None, got %s" % (a, b, getattr(ret, "vname", ret)), nparts
                continue
            if not (isinstance(ret, Adt) and ret.vname == "Some" and isinstance(ret.fields[0], Tup) and len(ret.fields[0].fields) == 2):
                return False, "|S|=%d, |G|=%d: expected Some((satellites, cells))" % (a, b), nparts
            sv, cv = ret.fields[0].fields
            if not (isinstance(sv, GVec) and sv.items == S.items):
                return False, "|S|=%d, |G|=%d: the first component is not the satellite id list" % (a, b), nparts
            want = [(bf_atom(("C", n - 1 - i)), (("S", i // b), ("G", i % b))) for i in range(n)]
            got = []
            for g, v in (cv.items if isinstance(cv, GVec) else []):
                if isinstance(v, Tup) and len(v.fields) == 2:
                    got.append((g, (v.fields[0], v.fields[1])))
                else:
                    got.append((g, v))
            if got != want:
                for i, (x, y) in enumerate(zip(got, want)):
                    if x != y:
                        return False, "|S|=%d, |G|=%d: cell %d is %s under %s, expected (S[%d], G[%d]) under cell-mask bit %d" % (
                            a, b, i, x[1], bitsem.bit_str(x[0]), i // b, i % b, n - 1 - i), nparts
                return False, "|S|=%d, |G|=%d: %d cells, expected %d" % (a, b, len(got), n), nparts
    return True, "cells are rebuilt row-major under cell-mask bit |S||G|-1-i for every (|S|, |G|) with product 1..=64; None otherwise (%d partitions)" % nparts, nparts


# ------------------------------------------------------------------ character maps of Df88591String (X-map)
class CharInterp(GInterp):
    def call(self, st, t):
        c = t.get("resolved") or t["callee"]
        args = None
        if c == "core::char::methods::<impl char>::from_u32":
            args = [self.operand(st, a) for a in t["args"]]
            x = args[0]
            lo, hi = bitsem.lin_range(x) if lin_parts(x) is not None else (None, None)
            if lo is not None and 0 <= lo and hi <= 0xD7FF:
                return Adt("core::option::Option", 1, "Some", [x])
            raise Undecided("char::from_u32 of a value that may not be a scalar value")
        if c == "core::num::NonZero::<T>::new":
            # Some(x) exactly when x != 0; the non-zero wrapper is transparent
            x = self.operand(st, t["args"][0])
            if lin_parts(x) is None:
                raise Undecided("NonZero::new of an unmodelled value")
            lo, hi = bitsem.lin_range(x)
            if lo > 0 or hi < 0:
                return Adt("core::option::Option", 1, "Some", [x])
            if lo == 0 and hi == 0:
                return Adt("core::option::Option", 0, "None", [])
            raise Undecided("NonZero::new may or may not succeed inside one region")
        if c == "core::num::NonZero::<T>::get":
            return self.operand(st, t["args"][0])
        if c in ("core::option::Option::<T>::unwrap", "core::result::Result::<T, E>::unwrap"):
            args = [self.operand(st, a) for a in t["args"]]
            o = args[0]
            if isinstance(o, Adt) and o.vname in ("Some", "Ok"):
                return o.fields[0]
            if isinstance(o, Adt):
                raise Panic("unwrap of %s" % o.vname)
            raise Undecided("unwrap of an unknown value")
        if c in ("core::char::convert::<impl core::convert::From<u8> for char>::from", "core::char::convert::<impl core::convert::From<char> for u32>::from") \
                or bitsem.re.fullmatch(r"core::convert::num::<impl core::convert::From<u(8|16|32)> for u(16|32|64|size)>::from", c):
            args = [self.operand(st, a) for a in t["args"]]
            return args[0]
        if bitsem.re.fullmatch(r"core::convert::num::<impl core::convert::TryFrom<u(16|32|64|size)> for u(8|16|32)>::try_from", c) \
                or c == "core::char::convert::<impl core::convert::TryFrom<char> for u8>::try_from":
            args = [self.operand(st, a) for a in t["args"]]
            x = args[0]
            bits = int(bitsem.re.search(r"for u(\d+)>::try_from$", c).group(1))
            lo, hi = bitsem.lin_range(x) if lin_parts(x) is not None else (None, None)
            if lo is None:
                raise Undecided("try_from of an unmodelled value")
            if 0 <= lo and hi < (1 << bits):
                return Adt("core::result::Result", 0, "Ok", [x])
            if lo >= (1 << bits):
                return Adt("core::result::Result", 1, "Err", [bitsem.Opaque("TryFromIntError", ())])
            raise Undecided("try_from may or may not succeed inside one region")
        if c in ("core::result::Result::<T, E>::map_or", "core::option::Option::<T>::map_or"):
            args = [self.operand(st, a) for a in t["args"]]
            r, dflt, fn_ = args
            if isinstance(r, Adt) and r.vname in ("Ok", "Some"):
                if isinstance(fn_, tuple) and fn_[0] == "fn" and fn_[1] in self.prog.fns:
                    return self.exec_fn(st, self.prog.fns[fn_[1]], [r.fields[0]])
                if isinstance(fn_, Closure):
                    return self.exec_closure(st, fn_, [r.fields[0]])
                raise Undecided("map_or with an unmodelled function")
            if isinstance(r, Adt):
                return dflt
            raise Undecided("map_or of an unknown value")
        if c in ("core::result::Result::<T, E>::unwrap_or", "core::option::Option::<T>::unwrap_or"):
            args = [self.operand(st, a) for a in t["args"]]
            r = args[0]
            if isinstance(r, Adt) and r.vname in ("Ok", "Some"):
                return r.fields[0]
            if isinstance(r, Adt):
                return args[1]
            raise Undecided("unwrap_or of an unknown value")
        if c == "tinyvec::ArrayVec::<A>::try_push":
            args = [self.operand(st, a) for a in t["args"]]
            v = self.vec_of(st, args[0])
            if v is None:
                raise Undecided("try_push on an unmodelled vector")
            full = self.choice("full")
            if full:
                return Adt("core::option::Option", 1, "Some", [args[1]])
            v.items.append((self.guard, args[1]))
            return Adt("core::option::Option", 0, "None", [])
        if c in ("tinyvec::ArrayVec::<A>::len", "tinyvec::ArrayVec::<A>::capacity"):
            args = [self.operand(st, a) for a in t["args"]]
            if self.vec_of(st, args[0]) is not None:
                # len in terms of the unknown fill state: capacity = CAP, len = CAP if full else CAP - 1 (room for one more)
                full = self.choice("full")
                if c.endswith("capacity"):
                    return bitsem.Lin(0, 0) if False else 1000
                return 1000 if full else 999
        return GInterp.call(self, st, t)

    def choice(self, name):
        return self.choices[name]

    def cast(self, v, src_ty, dst_ty):
        if lin_parts(v) is not None and not isinstance(v, int) and dst_ty.get("k") in ("char", "uint", "int"):
            d = bitsem.ty_bits(dst_ty) if dst_ty.get("k") != "char" else (32, False)
            lo, hi = bitsem.lin_range(v)
            if d and lo >= 0 and hi < (1 << d[0]):
                return v
            raise Undecided("narrowing cast of a character code that does not fit")
        if isinstance(v, int) and dst_ty.get("k") == "char":
            return v
        return GInterp.cast(self, v, src_ty, dst_ty)


def char_map(prog, path, regions, arg, with_self=False, full=False):
    """Evaluate a Df88591String function per region of its character / byte argument (Q = the code).
    Returns [(region, return value, pushed values)] or raises Undecided / Panic."""
    f = prog.fn(path)
    out = []
    for lo, hi in regions:
        bitsem.QMIN, bitsem.QMAX = lo, hi
        try:
            it = CharInterp(prog, f, 64)
            it.choices = {"full": full}
            st = State()
            vec = GVec()
            if with_self:
                st.self_fields = Tup([vec])
                st.locals[1] = Ref(("self", ()))
            st.locals[arg] = bitsem.Lin(1, 0)
            ret = it.run_fn(st)
            out.append(((lo, hi), ret, [v for g, v in vec.items]))
        finally:
            bitsem.QMIN, bitsem.QMAX = 0, 1 << 58
    return out


# ------------------------------------------------------------------ finite function tables by evaluation (signal identifier maps)
class TabInterp(CharInterp):
    """Concrete-argument evaluation of a pure lookup function: named constant tables are materialised from their constant bodies,
    `find` / `position` / `any` over them run the predicate closure on each element."""
    _consts = {}

    def operand(self, st, o):
        if o["k"] == "const" and "val" not in o and (o.get("s") in self.prog.constbodies or o.get("s") in self.prog.promoted):
            v = self.const_value(st, o["s"])
            if (o.get("ty") or {}).get("k") == "array" and isinstance(v, Ref) and v.loc[0] == "local":
                # an array constant used by value (`TABLE[i]` copies the constant into a local): the elements themselves
                g = self._get(st, v.loc)
                if isinstance(g, GVec):
                    return [bitsem._copy_val(x, {}) if isinstance(x, (list, Adt, Tup)) else x for _, x in g.items]
            return v
        return GInterp.operand(self, st, o)

    def const_value(self, st, path):
        key = (id(self.prog), path)
        if key not in TabInterp._consts:
            from facts import Fn
            cb = self.prog.constbodies.get(path) or self.prog.promoted[path]
            rec = {"rec": "fn", "path": path + "::{const}", "kind": "Const", "loc": {"file": "", "line": 0}, "site": {"file": "", "line": 0}, "argc": 0,
                   "generics": [], "impl": None, "pub": False, "locals": cb["locals"], "debug": [], "blocks": cb["blocks"]}
            f = Fn(rec)
            it = TabInterp(self.prog, f, 64)
            s2 = State()
            r = it.run_fn(s2)
            # a reference to an array local of the constant's frame: copy the elements out
            val = r
            if isinstance(r, Ref) and r.loc[0] == "local":
                val = it._get(s2, r.loc)
                if isinstance(val, Ref):
                    val = it._get(s2, val.loc)
            if isinstance(val, Ref) and val.loc[0] == "aslice":
                val = val.loc[1][val.loc[2]:val.loc[3]]
            TabInterp._consts[key] = val
        val = TabInterp._consts[key]
        if isinstance(val, (list, GVec)):
            slot = -900 - (abs(hash(path)) % 50)
            st.locals[slot] = GVec([(1, x) for x in val]) if isinstance(val, list) else GVec(list(val.items))
            return Ref(("local", slot, (), st.frame))
        return val

    def cast(self, v, src_ty, dst_ty):
        if isinstance(v, Ref):
            return v
        return CharInterp.cast(self, v, src_ty, dst_ty)

    def rvalue(self, st, rv, dest_place):
        if rv["k"] == "repeat":
            # [x; N]: a local array as a list of N (independent) copies
            x = self.operand(st, rv["op"])
            n = rv.get("count")
            if not isinstance(n, int) or n > 65536:
                raise Undecided("array repeat with a non-literal or very large count")
            return [bitsem._copy_val(x, {}) if isinstance(x, (list, Adt, Tup)) else x for _ in range(n)]
        return CharInterp.rvalue(self, st, rv, dest_place)

    def index_loc(self, st, loc, iv):
        # an element of a local array (a table built by a constant block, a scratch array): concrete index, checked against the length
        if loc[0] == "local":
            arr = self._get(st, loc)
            if isinstance(iv, bitsem.BV):
                iv = iv.concrete()
            if isinstance(arr, list) and isinstance(iv, int) and not isinstance(iv, bool):
                if not (0 <= iv < len(arr)):
                    raise Panic("index %d out of bounds of an array of %d" % (iv, len(arr)))
                return ("local", loc[1], tuple(loc[2]) + (iv,)) + tuple(loc[3:])
            raise Undecided("index into a local array by a non-concrete value (%s into %s)" % (type(iv).__name__, type(arr).__name__))
        return CharInterp.index_loc(self, st, loc, iv)

    def compare(self, op, x, y):
        if isinstance(x, int) and isinstance(y, int):
            return {"Eq": x == y, "Ne": x != y, "Lt": x < y, "Le": x <= y, "Gt": x > y, "Ge": x >= y}[op] and 1 or 0
        return CharInterp.compare(self, op, x, y)

    def call(self, st, t):
        c = t.get("resolved") or t["callee"]
        short = c.rsplit("::", 1)[-1]
        if short in ("find", "position", "any") and "Iterator" in c:
            args = [self.operand(st, a) for a in t["args"]]
            itobj = self._get(st, args[0].loc) if isinstance(args[0], Ref) else args[0]
            clo = args[1]
            if isinstance(itobj, VecIter) and isinstance(clo, Closure):
                idx = 0
                while itobj.pos < len(itobj.vec.items):
                    v = itobj.vec.items[itobj.pos][1]
                    itobj.pos += 1
                    slot = -400 - itobj.pos
                    st.locals[slot] = v
                    item = Ref(("local", slot, (), st.frame))
                    a = item
                    if short == "find":
                        st.locals[slot - 200] = item
                        a = Ref(("local", slot - 200, (), st.frame))      # find's predicate takes &Self::Item
                    r = self.exec_closure(st, clo, [a])
                    if isinstance(r, BV):
                        r = r.concrete()
                    if not isinstance(r, int):
                        raise Undecided("predicate result is not concrete")
                    if r:
                        if short == "find":
                            return Adt("core::option::Option", 1, "Some", [item])
                        if short == "position":
                            return Adt("core::option::Option", 1, "Some", [idx])
                        return 1
                    idx += 1
                if short == "any":
                    return 0
                return Adt("core::option::Option", 0, "None", [])
        if short in ("eq", "ne") and c in self.prog.fns:
            args = [self.operand(st, a) for a in t["args"]]
            return self.exec_fn(st, self.prog.fns[c], args)
        if c in ("core::option::Option::<T>::map", "core::option::Option::<T>::copied", "core::option::Option::<T>::cloned"):
            args = [self.operand(st, a) for a in t["args"]]
            o = args[0]
            if isinstance(o, Adt) and o.vname == "None":
                return o
            if isinstance(o, Adt) and o.vname == "Some":
                if short in ("copied", "cloned"):
                    x = o.fields[0]
                    return Adt("core::option::Option", 1, "Some", [self._get(st, x.loc) if isinstance(x, Ref) else x])
                if isinstance(args[1], Closure):
                    return Adt("core::option::Option", 1, "Some", [self.exec_closure(st, args[1], [o.fields[0]])])
        return CharInterp.call(self, st, t)


def eval_fn(prog, path, args):
    """Evaluate a pure crate function on concrete abstract values.  Returns the abstract result."""
    f = prog.fn(path)
    it = TabInterp(prog, f, 64)
    it.choices = {"full": False}
    st = State()
    for i, a in enumerate(args):
        st.locals[i + 1] = a
    return it.run_fn(st)


class NewInterp(TabInterp):
    """Concrete evaluation of a constructor that takes no input (MessageBuilder::new): array repeat expressions, unsizing of a reference to
    a local array, first / first_mut / get_mut / fill on it, stores through the references obtained."""

    def rvalue(self, st, rv, dest_place):
        if rv["k"] == "repeat":
            v = self.operand(st, rv["op"])
            n = rv.get("count")
            if not isinstance(n, int) or n > 4096:
                raise Undecided("array repeat with an unknown or huge count")
            return [v] * n
        if rv["k"] == "cast" and str(rv.get("kind", "")).startswith("PointerCoercion"):
            return self.operand(st, rv["op"])
        return TabInterp.rvalue(self, st, rv, dest_place)

    def call(self, st, t):
        c = t.get("resolved") or t["callee"]
        short = c.rsplit("::", 1)[-1]
        if c.startswith("core::slice::<impl [T]>::") and short in ("first", "first_mut", "last", "last_mut", "get", "get_mut", "fill", "len", "is_empty"):
            args = [self.operand(st, a) for a in t["args"]]
            r = args[0]
            arr = self._get(st, r.loc) if isinstance(r, Ref) else None
            if isinstance(arr, list):
                def elem(i):
                    return Ref((r.loc[0], r.loc[1], tuple(r.loc[2]) + (i,)) + tuple(r.loc[3:]))
                if short in ("first", "first_mut"):
                    return Adt("core::option::Option", 1, "Some", [elem(0)]) if arr else Adt("core::option::Option", 0, "None", [])
                if short in ("last", "last_mut"):
                    return Adt("core::option::Option", 1, "Some", [elem(len(arr) - 1)]) if arr else Adt("core::option::Option", 0, "None", [])
                if short in ("get", "get_mut") and isinstance(args[1], int):
                    return Adt("core::option::Option", 1, "Some", [elem(args[1])]) if 0 <= args[1] < len(arr) else Adt("core::option::Option", 0, "None", [])
                if short == "fill":
                    for i in range(len(arr)):
                        arr[i] = args[1]
                    return bitsem.UNIT
                if short == "len":
                    return len(arr)
                if short == "is_empty":
                    return 1 if not arr else 0
        return TabInterp.call(self, st, t)


def eval_constructor(prog, path):
    f = prog.fn(path)
    it = NewInterp(prog, f, 64)
    it.choices = {"full": False}
    return it.run_fn(State())
