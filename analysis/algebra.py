"""Linear forms, comparison normalisation and bit provenance over terms."""
from terms import T, mk, is_const, const_val, ty_of, show
from facts import int_range


# ---------------------------------------------------------------- linear forms
def lin(t):
    """Integer term -> (frozenset of (atom, coef)), const).  Non-linear sub-terms are atoms.
    Casts that widen (value preserving) are looked through."""
    co = {}
    c = _lin(t, 1, co)
    return (frozenset((a, k) for a, k in co.items() if k != 0), c)


def _lin(t, k, co):
    if is_const(t) and isinstance(const_val(t), int) and t.args[0] not in ("f32", "f64"):
        return k * const_val(t)
    if t.op == "bin" and t.args[0] == "Add":
        return _lin(t.args[1], k, co) + _lin(t.args[2], k, co)
    if t.op == "bin" and t.args[0] == "Sub":
        return _lin(t.args[1], k, co) + _lin(t.args[2], -k, co)
    if t.op == "bin" and t.args[0] == "Mul":
        a, b = t.args[1], t.args[2]
        if is_const(a) and isinstance(const_val(a), int):
            return _lin(b, k * const_val(a), co)
        if is_const(b) and isinstance(const_val(b), int):
            return _lin(a, k * const_val(b), co)
    if t.op == "cast" and t.args[0] == "IntToInt" and _widening(t):
        return _lin(t.args[1], k, co)
    co[t] = co.get(t, 0) + k
    return 0


def _widening(t):
    src = ty_of(t.args[1])
    dst = ty_of(t)
    if not src or not dst:
        return False
    rs, rd = int_range(src), int_range(dst)
    return rs is not None and rd is not None and rd[0] <= rs[0] and rs[1] <= rd[1]


NEG = {"Lt": "Ge", "Ge": "Lt", "Le": "Gt", "Gt": "Le", "Eq": "Ne", "Ne": "Eq"}


def fact_of_guard(g):
    """(term, kind, value, dty) -> (op, a, b) comparison that HOLDS, or ('discr', t, kind, value), or None."""
    t, kind, val, dty = g[:4]
    truth = None
    if dty.get("k") == "bool":
        if kind == "eq":
            truth = bool(val)
        elif kind == "ne" and len(val) == 1:
            truth = not bool(val[0])
    if truth is not None and t.op == "bin" and t.args[0] in NEG:
        op = t.args[0] if truth else NEG[t.args[0]]
        return (op, t.args[1], t.args[2])
    if truth is not None and t.op == "un" and t.args[0] == "Not":
        return fact_of_guard((t.args[1], "eq", 0 if truth else 1, dty))
    if truth is not None:
        return ("Bool", t, truth)
    if t.op == "discr":
        return ("discr", t.args[0], kind, val)
    return ("val", t, kind, val)


def canon_le(fact):
    """Integer comparison fact -> canonical (linear form L) meaning  L <= 0, or None.
    Eq/Ne are returned as ('eq'|'ne', linear form of a-b)."""
    op = fact[0]
    if op not in NEG:
        return None
    a, b = fact[1], fact[2]
    la, ca = lin(a)
    lb, cb = lin(b)

    def sub(x, cx, y, cy, extra):
        d = dict(x)
        for atom, k in y:
            d[atom] = d.get(atom, 0) - k
        return (frozenset((p, q) for p, q in d.items() if q != 0), cx - cy + extra)
    if op == "Le":
        return ("le",) + sub(la, ca, lb, cb, 0)
    if op == "Lt":
        return ("le",) + sub(la, ca, lb, cb, 1)
    if op == "Ge":
        return ("le",) + sub(lb, cb, la, ca, 0)
    if op == "Gt":
        return ("le",) + sub(lb, cb, la, ca, 1)
    if op == "Eq":
        f = sub(la, ca, lb, cb, 0)
        return ("eq",) + _sign_norm(f)
    if op == "Ne":
        f = sub(la, ca, lb, cb, 0)
        return ("ne",) + _sign_norm(f)
    return None


def _sign_norm(f):
    atoms, c = f
    if not atoms:
        return (atoms, abs(c))
    first = min(atoms, key=lambda p: p[0].n)
    if first[1] < 0:
        return (frozenset((a, -k) for a, k in atoms), -c)
    return f


def lin_str(f, names=None):
    atoms, c = f
    parts = ["%s%s" % ("" if k == 1 else ("-" if k == -1 else "%d*" % k), show(a, names)) for a, k in sorted(atoms, key=lambda p: p[0].n)]
    if c or not parts:
        parts.append(str(c))
    return " + ".join(parts)


# ---------------------------------------------------------------- bit provenance
TOP = "T"


def bits_of(t, width=None):
    """Bit provenance of an unsigned integer term: list (LSB first) of 0 | 1 | (atom, bit) | TOP.
    Length = bit width of the term's type (or `width`)."""
    ty = ty_of(t)
    w = width or (ty["bits"] if ty and ty.get("k") in ("uint", "int") else 64)
    if is_const(t) and isinstance(const_val(t), int):
        v = const_val(t) & ((1 << w) - 1)
        return [(v >> i) & 1 for i in range(w)]
    if t.op == "cast" and t.args[0] == "IntToInt":
        src = t.args[1]
        sty = ty_of(src)
        if sty and sty.get("k") == "uint":
            sb = bits_of(src)
            return (sb + [0] * w)[:w]
        if sty and sty.get("k") == "int":
            sb = bits_of(src)
            if w <= len(sb):
                return sb[:w]
            return sb + [TOP if sb[-1] != 0 else 0] * (w - len(sb))
        return [TOP] * w
    if t.op == "bin":
        op, a, b = t.args
        if op in ("BitAnd", "BitOr", "BitXor"):
            ba, bb = bits_of(a, w), bits_of(b, w)
            out = []
            for x, y in zip(ba, bb):
                out.append(_bitop(op, x, y))
            return out
        if op in ("Shl", "Shr") and is_const(b):
            n = const_val(b)
            ba = bits_of(a, w)
            if n < 0 or n >= w:
                return [TOP] * w
            if op == "Shl":
                return ([0] * n + ba)[:w]
            aty = ty_of(a)
            fill = 0 if (aty and aty.get("k") == "uint") else (0 if ba[-1] == 0 else TOP)
            return ba[n:] + [fill] * n
    if t.op == "call" and isinstance(t.args[0], str) and t.args[0].startswith("core::num::<impl u") and t.args[0].endswith(("::from_be_bytes", "::from_le_bytes")):
        arr = t.args[1][0] if t.args[1] else None
        if arr is not None and arr.op == "array":
            bytes_ = list(arr.args[0])
            if t.args[0].endswith("from_be_bytes"):
                bytes_ = bytes_[::-1]
            out = []
            for bt in bytes_:      # least significant byte first
                out.extend(bits_of(bt, 8))
            return (out + [0] * w)[:w]
    ty = ty_of(t)
    if ty and ty.get("k") in ("uint", "int") and ty["bits"] <= w:
        return [(t, i) for i in range(ty["bits"])] + [0 if ty["k"] == "uint" else TOP] * (w - ty["bits"])
    if ty and ty.get("k") == "bool":
        return [(t, 0)] + [0] * (w - 1)
    return [TOP] * w


def _bitop(op, x, y):
    if op == "BitAnd":
        if x == 0 or y == 0:
            return 0
        if x == 1:
            return y
        if y == 1:
            return x
        return x if x == y and x != TOP else TOP
    if op == "BitOr":
        if x == 1 or y == 1:
            return 1
        if x == 0:
            return y
        if y == 0:
            return x
        return x if x == y and x != TOP else TOP
    if op == "BitXor":
        if x == 0:
            return y
        if y == 0:
            return x
        if x in (0, 1) and y in (0, 1):
            return x ^ y
        return TOP
    return TOP


def bits_str(bs, names=None):
    """Compact rendering: runs of (atom, lo..hi)."""
    out = []
    i = 0
    n = len(bs)
    while i < n:
        b = bs[i]
        if isinstance(b, tuple):
            j = i
            while j + 1 < n and isinstance(bs[j + 1], tuple) and bs[j + 1][0] is b[0] and bs[j + 1][1] == bs[j][1] + 1:
                j += 1
            out.append("[%d..%d]=%s[%d..%d]" % (i, j, show(b[0], names), b[1], bs[j][1]))
            i = j + 1
        else:
            j = i
            while j + 1 < n and bs[j + 1] == b:
                j += 1
            if b != 0:
                out.append("[%d..%d]=%s" % (i, j, b))
            i = j + 1
    return " ".join(out) if out else "0"


def expect_bits(bs, spec):
    """spec: list of (lo_bit, atom, atom_lo_bit, count); everything else must be 0."""
    want = [0] * len(bs)
    for lo, atom, alo, cnt in spec:
        for k in range(cnt):
            if lo + k < len(want):
                want[lo + k] = (atom, alo + k)
    for x, y in zip(bs, want):
        if isinstance(y, tuple):
            if not (isinstance(x, tuple) and x[0] is y[0] and x[1] == y[1]):
                return False
        elif x != y:
            return False
    return True
