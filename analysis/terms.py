"""Term-valued dataflow over MIR (SSA-style value numbering, no path enumeration).

A term denotes "the value of this place at this program point" as an expression over the
function's arguments, constants, call results and phi atoms.  Terms are hash-consed, so
structural equality is identity.  References are transparent: `&x` is ('ref', objpath(x)) and
reading through it reads x at the point of the read.

Point = (block, idx) with idx in 0..len(stmts); idx == len(stmts) is the terminator.
"""
from facts import ty_str, callee_of

U = {"k": "uint", "bits": 64, "name": "usize"}
BOOL = {"k": "bool"}


class T:
    __slots__ = ("op", "args", "n")
    _tab = {}
    _cnt = 0

    def __init__(self, op, args):
        self.op = op
        self.args = args
        T._cnt += 1
        self.n = T._cnt

    def __repr__(self):
        return show(self)

    def __lt__(self, other):
        return self.n < other.n


def mk(op, *args):
    key = (op,) + args
    t = T._tab.get(key)
    if t is None:
        t = T(op, args)
        T._tab[key] = t
    return t


_TY = {}  # term -> type record


def set_ty(t, ty):
    if ty is not None and t not in _TY:
        _TY[t] = ty
    return t


def ty_of(t):
    return _TY.get(t)


# results of checked arithmetic (x.0 of *WithOverflow): only read after the overflow assert passed
CHECKED = set()

CMP = ("Eq", "Ne", "Lt", "Le", "Gt", "Ge")
OVF = {"AddWithOverflow": "Add", "SubWithOverflow": "Sub", "MulWithOverflow": "Mul",
       "AddUnchecked": "Add", "SubUnchecked": "Sub", "MulUnchecked": "Mul",
       "ShlUnchecked": "Shl", "ShrUnchecked": "Shr"}


def show(t, names=None, depth=0):
    """Readable rendering (used in report keys: no block numbers or line numbers inside)."""
    if not isinstance(t, T):
        if isinstance(t, tuple):
            return "(" + ", ".join(show(x, names, depth + 1) for x in t) + ")"
        return str(t)
    if depth > 12:
        return "…"
    op, a = t.op, t.args
    s = lambda x: show(x, names, depth + 1)
    if op == "arg":
        return (names or {}).get(a[1], "arg%d" % a[1]) if a[0] is None or True else ""
    if op == "const":
        if a[0] in ("f32", "f64"):
            return "%s:0x%x" % (a[0], a[1])
        return "%s" % (a[1],) if a[0] not in ("bool",) else ("true" if a[1] else "false")
    if op == "bin":
        return "%s(%s, %s)" % (a[0], s(a[1]), s(a[2]))
    if op == "ovf":
        return "ovf:%s(%s, %s)" % (a[0], s(a[1]), s(a[2]))
    if op == "un":
        return "%s(%s)" % (a[0], s(a[1]))
    if op == "cast":
        return "(%s as %s)" % (s(a[1]), a[2])
    if op == "field":
        return "%s.%s" % (s(a[0]), a[1])
    if op == "index":
        return "%s[%s]" % (s(a[0]), s(a[1]))
    if op == "downcast":
        return "%s@%s" % (s(a[0]), a[1])
    if op == "discr":
        return "discr(%s)" % s(a[0])
    if op == "len":
        return "len(%s)" % s(a[0])
    if op == "ref":
        return "&" + s(a[0])
    if op == "loc":
        return (names or {}).get(a[1], "_%d" % a[1])
    if op == "mem":
        return "*" + s(a[0])
    if op == "pf":
        return "%s.%s" % (s(a[0]), a[1])
    if op == "pi":
        return "%s[%s]" % (s(a[0]), s(a[1]))
    if op == "pd":
        return "%s@%s" % (s(a[0]), a[1])
    if op == "call":
        return "%s(%s)" % (short(a[0]), ", ".join(s(x) for x in a[1]))
    if op == "agg":
        return "%s::%s(%s)" % (short(a[0]), a[2], ", ".join(s(x) for x in a[3]))
    if op in ("tuple", "array"):
        return op + "(" + ", ".join(s(x) for x in a[0]) + ")"
    if op == "phi":
        return "phi(%s)" % (names or {}).get(a[1], "_%d" % a[1])
    if op == "havoc":
        return "havoc(%s)" % (names or {}).get(a[1], "_%d" % a[1])
    if op == "upd":
        return "upd(%s)" % s(a[0])
    if op == "fn":
        return "fn:" + short(a[0])
    if op == "memval":
        return "memval(%s)" % s(a[0])
    return op + "(" + ", ".join(s(x) for x in a) + ")"


def short(path):
    """Last two segments of a def path, enough for readable keys."""
    if path is None:
        return "?"
    parts = path.split("::")
    return "::".join(parts[-2:]) if len(parts) > 2 else path


def const_term(c):
    ty = c["ty"]
    k = ty["k"]
    if "fn" in c:
        return set_ty(mk("fn", c["fn"], _freeze(c.get("fnargs"))), ty)
    if "val" in c:
        if k == "float":
            return set_ty(mk("const", "f%d" % ty["bits"], c["bits"]), ty)
        if k == "bool":
            return set_ty(mk("const", "bool", c["bits"]), ty)
        if k == "char":
            return set_ty(mk("const", "char", c["bits"]), ty)
        return set_ty(mk("const", ty["name"], c["val"]), ty)
    if k == "closure":
        return set_ty(mk("closure", ty["path"], ()), ty)
    if k == "tuple" and not ty["elems"]:
        return set_ty(mk("const", "unit", 0), ty)
    return set_ty(mk("opaque_const", ty_str(ty), c.get("s", "")), ty)


def _freeze(o):
    if isinstance(o, list):
        return tuple(_freeze(x) for x in o)
    if isinstance(o, dict):
        return tuple(sorted((k, _freeze(v)) for k, v in o.items()))
    return o


def is_const(t):
    return isinstance(t, T) and t.op == "const"


def const_val(t):
    return t.args[1]


import re as _re
_WIDEN = _re.compile(r"core::convert::num::<impl core::convert::From<[ui]\d+> for [ui](\d+|size)>::from|<T as core::convert::Into<U>>::into|core::convert::num::<impl core::convert::From<bool> for [ui](\d+|size)>::from")
_FROM_BYTES = _re.compile(r"core::num::<impl [ui](\d+|size)>::from_(be|le)_bytes")


class FA:
    """Per-function analysis: SSA-style value lookup, terms, guards."""

    def __init__(self, fn, prog=None):
        self.fn = fn
        self.prog = prog
        self.names = fn.names()
        self._defs = None      # local -> list of (b, i) def sites (i = len(stmts) for call dest)
        self._defs_in_block = None  # b -> list of (i, local)
        self._phi = None       # local -> set(blocks)
        self._df = None
        self._defterm = {}
        self._endval = {}
        self._mem_events = None
        self._inprog = set()
        self._guards = {}

    # ---------------- definitions ------------------------------------
    def _collect_defs(self):
        fn = self.fn
        defs = {}
        inb = {}
        # closures whose captures are all shared references: calling them through `&mut` (FnMut::call_mut, as iterator adaptors do) cannot
        # change what they hold, so a mutable borrow of such a closure is not a definition of it
        ro_closures = set()
        for b in fn.reachable():
            for s in fn.blocks[b]["stmts"]:
                if s["k"] == "assign" and not s["place"]["proj"] and s["rv"]["k"] == "aggregate" and s["rv"].get("agg") == "closure":
                    okc = True
                    for o in s["rv"].get("ops", []):
                        ty = None
                        if o["k"] in ("copy", "move") and not o["place"]["proj"]:
                            ty = fn.locals[o["place"]["local"]]
                        if not (ty and ty.get("k") == "ref" and not ty.get("mut")):
                            okc = False
                    if okc:
                        ro_closures.add(s["place"]["local"])
        for b in sorted(fn.reachable()):
            blk = fn.blocks[b]
            lst = []
            for i, s in enumerate(blk["stmts"]):
                if s["k"] == "assign":
                    pl = s["place"]
                    if not any(p["k"] == "deref" for p in pl["proj"]):
                        lst.append((i, pl["local"], "assign"))
                    rv = s["rv"]
                    if rv["k"] == "ref" and rv["mut"]:
                        rp = rv["place"]
                        if not any(p["k"] == "deref" for p in rp["proj"]) and not (rp["local"] in ro_closures and not rp["proj"]):
                            lst.append((i, rp["local"], "borrow"))
                elif s["k"] == "setdiscr":
                    pl = s["place"]
                    if not any(p["k"] == "deref" for p in pl["proj"]):
                        lst.append((i, pl["local"], "setdiscr"))
            t = blk["term"]
            if t["k"] == "call":
                pl = t["dest"]
                if not any(p["k"] == "deref" for p in pl["proj"]):
                    lst.append((len(blk["stmts"]), pl["local"], "call"))
            inb[b] = lst
            for (i, l, kind) in lst:
                defs.setdefault(l, []).append((b, i, kind))
        self._defs = defs
        self._defs_in_block = inb

    def defs(self, local):
        if self._defs is None:
            self._collect_defs()
        return self._defs.get(local, [])

    def _dom_frontiers(self):
        if self._df is None:
            fn = self.fn
            idom = fn.idom()
            df = {b: set() for b in idom}
            for b in idom:
                ps = [p for p in fn.pred(b) if p in idom]
                if len(ps) >= 2:
                    for p in ps:
                        r = p
                        while r != idom[b]:
                            df[r].add(b)
                            r = idom[r]
            self._df = df
        return self._df

    def phis(self, local):
        """Blocks that need a phi for `local` (iterated dominance frontier of its def blocks)."""
        if self._phi is None:
            self._phi = {}
        if local not in self._phi:
            ds = self.defs(local)
            blocks = {b for (b, _, _) in ds}
            if local <= self.fn.argc:
                blocks.add(0)  # arguments / return place are "defined" at entry
            res = set()
            if len(ds) + (1 if local <= self.fn.argc and local != 0 else 0) > 1 or len(blocks) > 1:
                df = self._dom_frontiers()
                work = list(blocks)
                while work:
                    x = work.pop()
                    for y in df.get(x, ()):
                        if y not in res:
                            res.add(y)
                            if y not in blocks:
                                work.append(y)
            self._phi[local] = res
        return self._phi[local]

    # ---------------- value lookup -----------------------------------
    def val(self, local, point):
        """Term for the whole value of `local` just before `point`."""
        b, idx = point
        if self._defs is None:
            self._collect_defs()
        best = None
        for (i, l, kind) in self._defs_in_block.get(b, ()):
            if l == local and i < idx:
                best = (i, kind)
        if best is not None:
            return self.defterm(local, b, best[0], best[1])
        return self.start_val(local, b)

    def start_val(self, local, b):
        if b in self.phis(local):
            return set_ty(mk("phi", id(self.fn), local, b), self.fn.locals[local])
        if b == 0:
            if 1 <= local <= self.fn.argc:
                return set_ty(mk("arg", id(self.fn), local), self.fn.locals[local])
            return set_ty(mk("undef", id(self.fn), local), self.fn.locals[local])
        return self.end_val(local, self.fn.idom()[b])

    def end_val(self, local, b):
        key = (local, b)
        r = self._endval.get(key)
        if r is None:
            r = self.val(local, (b, len(self.fn.blocks[b]["stmts"]) + 1))
            self._endval[key] = r
        return r

    def header_phis(self, h):
        """phi atoms of integer locals at loop header h"""
        out = []
        for l, ty in enumerate(self.fn.locals):
            if ty.get("k") in ("uint", "int"):
                try:
                    v = self.start_val(l, h)
                except Exception:
                    continue
                if v.op == "phi" and v.args[2] == h and v.args[1] == l:
                    out.append(v)
        return out

    def phi_operands(self, t):
        """[(pred_block, term)] of a phi atom."""
        _, local, b = t.args
        return [(p, self.end_val(local, p)) for p in self.fn.pred(b) if p in self.fn.idom()]

    def defterm(self, local, b, i, kind):
        key = (local, b, i, kind)
        r = self._defterm.get(key)
        if r is not None:
            return r
        if key in self._inprog:
            # cyclic definition through memory/borrows: cut with an opaque atom
            return set_ty(mk("cyc", id(self.fn), local, b, i), self.fn.locals[local])
        self._inprog.add(key)
        try:
            blk = self.fn.blocks[b]
            lty = self.fn.locals[local]
            if kind == "call":
                pl = blk["term"]["dest"]
                v = self.call_term(b)
                r = v if not pl["proj"] else self._upd(local, pl, v, (b, i))
            elif kind == "borrow":
                r = set_ty(mk("havoc", id(self.fn), local, b, i), lty)
            elif kind == "setdiscr":
                r = set_ty(mk("havoc", id(self.fn), local, b, i), lty)
            else:
                s = blk["stmts"][i]
                v = self.rv_term(s["rv"], (b, i))
                pl = s["place"]
                if not pl["proj"]:
                    r = v
                    if ty_of(r) is None:
                        set_ty(r, lty)
                else:
                    r = self._upd(local, pl, v, (b, i))
        finally:
            self._inprog.discard(key)
        self._defterm[key] = r
        return r

    def _upd(self, local, pl, v, point):
        prev = self.val(local, point)
        path = tuple(self._proj_key(p, point) for p in pl["proj"])
        return set_ty(mk("upd", prev, path, v), self.fn.locals[local])

    def _proj_key(self, p, point):
        k = p["k"]
        if k == "field":
            return ("f", p["i"])
        if k == "index":
            return ("i", self.val(p["local"], point))
        if k == "constindex":
            return ("i", set_ty(mk("const", "usize", p["offset"]), U))
        if k == "downcast":
            return ("d", p["variant"])
        return (k,)

    # ---------------- operands / places / rvalues ----------------------
    def op_term(self, op, point):
        k = op["k"]
        if k == "const":
            return const_term(op)
        if k in ("copy", "move"):
            return self.place_term(op["place"], point)
        return mk("opaque", op.get("s", "?"))

    def place_type(self, pl):
        ty = self.fn.locals[pl["local"]]
        for p in pl["proj"]:
            k = p["k"]
            if k == "deref":
                ty = ty.get("to") if ty and ty.get("k") in ("ref", "ptr") else None
            elif k == "field":
                ty = p["ty"]
            elif k in ("index", "constindex"):
                ty = ty.get("elem") if ty and ty.get("k") in ("array", "slice") else None
            elif k == "downcast":
                pass
            elif k == "subslice":
                pass
            else:
                ty = None
        return ty

    def objpath(self, pl, point):
        """Object path (an lvalue term) of a place."""
        proj = pl["proj"]
        if proj and proj[0]["k"] == "deref":
            ptr = self.val(pl["local"], point)
            base = self.pointee(ptr)
            rest = proj[1:]
        else:
            base = mk("loc", id(self.fn), pl["local"])
            rest = proj
        ty = self.fn.locals[pl["local"]]
        if proj and proj[0]["k"] == "deref":
            ty = ty.get("to") if ty.get("k") in ("ref", "ptr") else None
        set_ty(base, ty)
        for p in rest:
            k = p["k"]
            if k == "deref":
                # read the pointer stored at base, then its pointee
                ptr = self.read_obj(base, point)
                base = self.pointee(ptr)
                ty = ty.get("to") if ty and ty.get("k") in ("ref", "ptr") else None
            elif k == "field":
                base = mk("pf", base, p["i"])
                ty = p["ty"]
            elif k == "index":
                base = mk("pi", base, self.val(p["local"], point))
                ty = ty.get("elem") if ty and ty.get("k") in ("array", "slice") else None
            elif k == "constindex":
                base = mk("pi", base, set_ty(mk("const", "usize", p["offset"]), U))
                ty = ty.get("elem") if ty and ty.get("k") in ("array", "slice") else None
            elif k == "downcast":
                base = mk("pd", base, p["variant"])
            else:
                base = mk("px", base, k)
                ty = None
            set_ty(base, ty)
        return base

    def pointee(self, ptr):
        if ptr.op == "ref":
            return ptr.args[0]
        t = mk("mem", ptr)
        pt = ty_of(ptr)
        if pt and pt.get("k") in ("ref", "ptr"):
            set_ty(t, pt["to"])
        return t

    def place_term(self, pl, point):
        if not pl["proj"]:
            return self.val(pl["local"], point)
        return self.read_obj(self.objpath(pl, point), point)

    def read_obj(self, P, point):
        """Value stored at object path P at `point`."""
        chain = []
        r = P
        while r.op in ("pf", "pi", "pd", "px"):
            chain.append(r)
            r = r.args[0]
        chain.reverse()
        if r.op == "loc":
            v = self.val(r.args[1], point)
            for c in chain:
                v = self.project(v, c)
            return v
        if r.op == "mem":
            # element k of a sub-slice base[a..] / base[a..b] / base[..b] is element a + k of base
            ptr = r.args[0]
            if chain and chain[0].op == "pi" and ptr.op == "call" and ptr.args[0] in SLICE_INDEX and len(ptr.args[1]) == 2:
                rg = ptr.args[1][1]
                if rg.op == "agg" and rg.args[0].startswith("core::ops::Range"):
                    name = rg.args[0].rsplit("::", 1)[1]
                    lo = None
                    if name in ("Range", "RangeFrom"):
                        lo = rg.args[3][0]
                    elif name in ("RangeTo", "RangeFull"):
                        lo = set_ty(mk("const", "usize", 0), U)
                    if lo is not None:
                        bptr = ptr.args[1][0]
                        bobj = self.pointee(bptr) if bptr.op == "ref" else mk("mem", bptr)
                        k = chain[0].args[1]
                        if is_const(lo) and const_val(lo) == 0:
                            idx = k
                        elif is_const(lo) and is_const(k):
                            idx = set_ty(mk("const", "usize", const_val(lo) + const_val(k)), U)
                        else:
                            idx = set_ty(mk("bin", "Add", lo, k), U)
                            CHECKED.add(idx)
                        Q = set_ty(mk("pi", bobj, idx), ty_of(chain[0]))
                        for c in chain[1:]:
                            Q = set_ty(mk(c.op, Q, *c.args[1:]), ty_of(c))
                        return self.read_obj(Q, point)
            return self.memread(P, r, chain, point)
        return mk("opaque_read", P)

    def project(self, v, c):
        """Apply one path element (pf/pi/pd) to a value term."""
        ty = ty_of(c)
        if c.op == "pf":
            i = c.args[1]
            w = self._select(v, ("f", i))
            if w is not None:
                return w
            if v.op == "agg":
                ops = v.args[3]
                if i < len(ops):
                    return ops[i]
            if v.op == "tuple":
                ops = v.args[0]
                if i < len(ops):
                    return ops[i]
            if v.op == "closure":
                ops = v.args[1]
                if i < len(ops):
                    return ops[i]
            if v.op == "tupov":
                inner = v.args[0]
                if i == 0:
                    return inner
                return set_ty(mk("ovf", inner.args[0], inner.args[1], inner.args[2]), BOOL)
            if v.op == "downcast" and v.args[0].op == "agg":
                ops = v.args[0].args[3]
                if i < len(ops):
                    return ops[i]
            return set_ty(mk("field", v, i), ty)
        if c.op == "pi":
            idx = c.args[1]
            w = self._select(v, ("i", idx))
            if w is not None:
                return w
            if v.op == "array" and is_const(idx) and const_val(idx) < len(v.args[0]):
                return v.args[0][const_val(idx)]
            return set_ty(mk("index", v, idx), ty)
        if c.op == "pd":
            if v.op in ("phi", "field") and not getattr(self, "_no_phi_select", False):
                # (x as Variant_k) is evaluated only where x's discriminant is k: of the values merged in x, those built in place as another
                # variant cannot be the one read.  If exactly one merged value can be of variant k, the projection reads that one (also through
                # nested payloads: ((r as Ok).0 as Some) with r merged from Ok(Some(e)), Ok(None), Err(..)).
                cands = self._candidates(v, 0)
                if cands is not None:
                    hit = []
                    for x in cands:
                        kx = self._variant_of(x)
                        if kx is None:
                            hit = None
                            break
                        if kx == c.args[1] and not any(x is y for y in hit):
                            hit.append(x)
                    if hit is not None and len(hit) == 1:
                        v = hit[0]
            return set_ty(mk("downcast", v, c.args[1]), ty_of(v))
        return set_ty(mk("proj", v, c.args[1]), ty)

    def _variant_of(self, x):
        if x.op == "agg" and len(x.args) >= 3 and isinstance(x.args[1], int) and self._is_enum_agg(x):
            return x.args[1]
        if x.op == "call" and isinstance(x.args[0], str) and x.args[0].endswith("::from_residual") and "option::Option<T> as" in x.args[0]:
            return 0          # Option's residual is None
        if x.op == "call" and isinstance(x.args[0], str) and x.args[0].endswith("::from_residual"):
            return 1
        return None

    def _candidates(self, t, depth):
        """the values a term built from phis / payload projections of in-place enum aggregates can stand for; None if unknown"""
        if depth > 6:
            return None
        if t.op == "agg" or (t.op == "call" and isinstance(t.args[0], str) and t.args[0].endswith("::from_residual")):
            return [t]
        if t.op == "phi":
            busy = getattr(self, "_selecting", None)
            if busy is None:
                busy = self._selecting = set()
            if t in busy:
                return None
            busy.add(t)
            try:
                out = []
                try:
                    ops = self.phi_operands(t)
                except Exception:
                    return None
                for pb, w in ops:
                    if w is t:
                        continue
                    c = self._candidates(w, depth + 1)
                    if c is None:
                        return None
                    out.extend(c)
                return out
            finally:
                busy.discard(t)
        if t.op == "field" and t.args[0].op == "downcast":
            base = self._candidates(t.args[0].args[0], depth + 1)
            if base is None:
                return None
            out = []
            for x in base:
                kx = self._variant_of(x)
                if kx is None:
                    return None
                if kx == t.args[0].args[1]:
                    if x.op != "agg" or t.args[1] >= len(x.args[3]):
                        return None
                    out.append(x.args[3][t.args[1]])
            return out
        return None

    def _select_variant(self, phi, k, depth):
        if depth > 3 or phi in getattr(self, "_selecting", ()):
            return None
        sel = getattr(self, "_selecting", None)
        if sel is None:
            sel = self._selecting = set()
        sel.add(phi)
        try:
            try:
                ops = self.phi_operands(phi)
            except Exception:
                return None
            cands = []
            for pb, w in ops:
                if w is phi:
                    continue
                if w.op == "agg" and len(w.args) >= 3 and isinstance(w.args[1], int) and w.args[2] is not None and w.args[0] not in (None,) and self._is_enum_agg(w):
                    if w.args[1] == k:
                        cands.append(w)
                    continue
                if w.op == "call" and isinstance(w.args[0], str) and w.args[0].endswith("::from_residual"):
                    if k == (0 if "option::Option<T> as" in w.args[0] else 1):
                        cands.append(w)          # a residual of a Result is an Err (variant 1), of an Option None (variant 0)
                    continue
                if w.op == "phi":
                    x = self._select_variant(w, k, depth + 1)
                    if x is None:
                        return None
                    cands.append(x)
                    continue
                return None                       # an operand of unknown variant: keep the phi
            uniq = []
            for x in cands:
                if not any(x is y for y in uniq):
                    uniq.append(x)
            return uniq[0] if len(uniq) == 1 else None
        finally:
            sel.discard(phi)

    def _is_enum_agg(self, w):
        # agg(path, variant_index, variant_name, ops): enum variants carry a variant name; structs are built with index 0 and their own name
        adt = self.prog.adts.get(w.args[0]) if self.prog is not None else None
        if w.args[0] in ("core::option::Option", "core::result::Result", "core::ops::ControlFlow"):
            return True
        return bool(adt) and len(adt.get("variants", [])) > 1

    def _select(self, v, key):
        """If v is a functional update whose last store is exactly at path [key], return the stored value."""
        if v.op == "upd" and v.args[1] == (key,):
            return v.args[2]
        return None

    # ---------------- memory (through pointers) -----------------------
    def mem_events(self):
        """Stores through a dereference and calls that receive a `&mut` (may write through it)."""
        if self._mem_events is None:
            ev = []
            fn = self.fn
            for b in sorted(fn.reachable()):
                blk = fn.blocks[b]
                for i, s in enumerate(blk["stmts"]):
                    if s["k"] == "assign" and any(p["k"] == "deref" for p in s["place"]["proj"]):
                        ev.append(("store", b, i, s))
                t = blk["term"]
                if t["k"] == "call":
                    for a in t["args"]:
                        if a["k"] in ("copy", "move"):
                            ty = self.place_type(a["place"])
                            if ty and ty.get("k") == "ref" and ty["mut"]:
                                ev.append(("call", b, len(blk["stmts"]), a))
            self._mem_events = ev
        return self._mem_events

    def _root_of(self, P):
        r = P
        while r.op in ("pf", "pi", "pd", "px"):
            r = r.args[0]
        return r

    def _before(self, eb, ei, point):
        """Can the event at (eb, ei) execute before `point` is reached?"""
        b, idx = point
        if eb == b and ei < idx:
            return True
        return self.fn.can_reach(eb, b)

    def memread(self, P, root, chain, point):
        ty = ty_of(P)
        pty = ty_of(root.args[0])
        if pty is not None and pty.get("k") == "ref" and not pty["mut"]:
            # pointee of a live shared reference: immutable (no interior mutability in this crate:
            # #![forbid(unsafe_code)], no Cell/RefCell/atomics - checked by rule U-cell in C02)
            return set_ty(mk("memval", P), ty)
        reaching = []
        for ev in self.mem_events():
            kind, eb, ei, payload = ev
            if not self._before(eb, ei, point):
                continue
            if kind == "store":
                Q = self.objpath(payload["place"], (eb, ei))
                qroot = self._root_of(Q)
                if qroot is root:
                    if _overlap(P, Q):
                        reaching.append((ev, Q))
                else:
                    # different pointer: may alias only a location of the same type
                    qt = ty_of(Q)
                    if ty is None or qt is None or ty_str(qt) == ty_str(ty):
                        reaching.append((ev, Q))
            else:
                ptr = self.place_term(payload["place"], (eb, ei))
                Q = self.pointee(ptr)
                qroot = self._root_of(Q)
                if qroot is root and _overlap(P, Q):
                    reaching.append((ev, Q))
                elif qroot is not root and qroot.op == "mem":
                    # a different &mut: by Rust's aliasing rules it cannot overlap *root unless derived
                    # from it.  Pointers that are function arguments, or that were LOADED from memory (a `&mut`
                    # stored in a field points to another allocation than the object holding it), are not derived
                    # from root; pointers returned by calls may be (index_mut, iter_mut().next(), ...): conservative.
                    if qroot.args[0].op not in ("arg", "ref", "memval"):
                        reaching.append((ev, Q))
        if not reaching:
            return set_ty(mk("memval", P), ty)
        if len(reaching) == 1:
            ev, Q = reaching[0]
            kind, eb, ei, payload = ev
            if kind == "store" and Q is P and self._dominates_point((eb, ei), point) \
                    and not self.fn.can_reach(eb, eb):
                return self.rv_term(payload["rv"], (eb, ei))
        return set_ty(mk("memunk", P, point[0], point[1]), ty)

    def _dominates_point(self, p, q):
        (pb, pi), (qb, qi) = p, q
        if pb == qb:
            return pi < qi
        return self.fn.dominates(pb, qb)

    # ---------------- rvalues ----------------------------------------
    def rv_term(self, rv, point):
        k = rv["k"]
        if k == "use":
            return self.op_term(rv["op"], point)
        if k == "binop":
            a = self.op_term(rv["a"], point)
            b = self.op_term(rv["b"], point)
            op = rv["op"]
            if op.endswith("WithOverflow"):
                inner = set_ty(mk("bin", OVF[op], a, b), ty_of(a))
                CHECKED.add(inner)
                return mk("tupov", inner)
            op = OVF.get(op, op)
            t = mk("bin", op, a, b)
            return set_ty(t, BOOL if op in CMP else ty_of(a))
        if k == "unop":
            a = self.op_term(rv["a"], point)
            if rv["op"] == "PtrMetadata":
                return self.len_term(self.pointee(a) if a.op == "ref" else mk("mem", a))
            return set_ty(mk("un", rv["op"], a), ty_of(a))
        if k == "cast":
            a = self.op_term(rv["op"], point)
            kind = rv["kind"]
            if kind.startswith("PointerCoercion"):
                # unsizing &[T;N] -> &[T] etc: transparent
                return a
            return set_ty(mk("cast", kind, a, ty_str(rv["ty"])), rv["ty"])
        if k == "ref":
            return mk("ref", self.objpath(rv["place"], point))
        if k == "rawptr":
            return mk("ref", self.objpath(rv["place"], point))
        if k == "discr":
            return mk("discr", self.place_term(rv["place"], point))
        if k == "aggregate":
            ops = tuple(self.op_term(o, point) for o in rv["ops"])
            agg = rv["agg"]
            if agg == "adt":
                return mk("agg", rv["path"], rv["variant"], rv["vname"], ops)
            if agg == "tuple":
                return mk("tuple", ops)
            if agg == "array":
                return mk("array", ops)
            if agg == "closure":
                return mk("closure", rv["path"], ops)
            return mk("aggother", agg, ops)
        if k == "repeat":
            return mk("repeat", self.op_term(rv["op"], point), rv["count"])
        return mk("opaque_rv", rv.get("s", k))

    def call_term(self, b):
        """Term for the result of the call terminating block b (identity includes the site)."""
        blk = self.fn.blocks[b]
        t = blk["term"]
        point = (b, len(blk["stmts"]))
        args = tuple(self.op_term(a, point) for a in t["args"])
        callee = callee_of(t)
        dty = self.place_type(t["dest"])
        if callee is None:
            fnop = self.op_term(t["fnop"], point)
            return set_ty(mk("callind", fnop, args, id(self.fn), b), dty)
        # lossless integer widening written as From/Into: the same term as the `as` cast
        if _WIDEN.fullmatch(callee) and len(args) == 1 and dty.get("k") in ("uint", "int"):
            sty = ty_of(args[0])
            if sty and sty.get("k") in ("uint", "int", "bool"):
                return set_ty(mk("cast", "IntToInt", args[0], ty_str(dty)), dty)
        if _FROM_BYTES.fullmatch(callee):
            return set_ty(mk("call", callee, args), dty)
        # pure, argument-determined library functions: identity without the site
        if callee in PURE:
            m = PURE[callee]
            if m == "len":
                a0 = args[0]
                return self.len_term(self.pointee(a0))
            return set_ty(mk("call", callee, args), dty)
        if callee in PURE_OBS:
            # pure observer of its receiver: identity = (callee, current VALUE of the receiver object), no site,
            # so two calls on an unmodified object are the same term and a mutation in between makes them differ
            vals = tuple(self.read_obj(a.args[0], point) if a.op == "ref" else a for a in args)
            return set_ty(mk("call", callee, vals), dty)
        return set_ty(mk("call", callee, args, id(self.fn), b), dty)

    def len_term(self, obj):
        """Length of a slice object.  For a sub-slice produced by Index::index(base, range) (which has returned, so the
        range was in bounds) the length is determined by the range: ..e -> e ; a..b -> b - a ; a.. -> len(base) - a."""
        x = obj
        while x.op in ("mem", "memval", "ref"):
            x = x.args[0]
        if x.op == "call" and x.args[0] in SLICE_INDEX and len(x.args[1]) == 2:
            r = x.args[1][1]
            if r.op == "agg" and r.args[0].startswith("core::ops::Range"):
                name = r.args[0].rsplit("::", 1)[1]
                ops = r.args[3]
                if name == "RangeTo":
                    return ops[0]
                if name == "Range":
                    t = set_ty(mk("bin", "Sub", ops[1], ops[0]), U)
                    CHECKED.add(t)
                    return t
                if name == "RangeFrom":
                    base = x.args[1][0]
                    bl = self.len_term(self.pointee(base) if base.op == "ref" else mk("mem", base))
                    t = set_ty(mk("bin", "Sub", bl, ops[0]), U)
                    CHECKED.add(t)
                    return t
        return set_ty(mk("len", obj), U)

    def call_args(self, b):
        blk = self.fn.blocks[b]
        t = blk["term"]
        point = (b, len(blk["stmts"]))
        return tuple(self.op_term(a, point) for a in t["args"])

    # ---------------- guards ------------------------------------------
    def guards(self, b):
        """[(cond_term, kind, value)] facts that hold whenever block b is entered.

        kind 'eq': cond == value ; 'ne': cond not in value(tuple).
        Derived from edges (d -> s) such that s dominates b and d is the only predecessor of s,
        and from successful asserts.
        """
        r = self._guards.get(b)
        if r is not None:
            return r
        fn = self.fn
        out = []
        chain = fn.dom_chain(b)
        # chain = [b, idom(b), ..., 0]; look at each edge idom-chain-wise
        for j in range(len(chain) - 1):
            s, d = chain[j], chain[j + 1]
            # the edge from d towards s: find the successor x of d on the dom chain (x dominates b)
            # x must be a direct successor of d with d its only predecessor
            if s in fn.succ(d) and fn.pred(s) == [d]:
                t = fn.term(d)
                nst = len(fn.blocks[d]["stmts"])
                if t["k"] == "switch":
                    c = self.op_term(t["discr"], (d, nst))
                    vals = [v for v, tb in t["arms"] if tb == s]
                    if s == t["otherwise"]:
                        if not vals:
                            out.append((c, "ne", tuple(v for v, _ in t["arms"]), t["dty"], "switch"))
                    elif len(vals) == 1:
                        out.append((c, "eq", vals[0], t["dty"], "switch"))
                elif t["k"] == "assert":
                    c = self.op_term(t["cond"], (d, nst))
                    out.append((c, "eq", 1 if t["expected"] else 0, BOOL, "assert"))
        self._guards[b] = out
        return out

    def edge_guard(self, d, s):
        """Facts that hold on the edge d -> s (from d's terminator alone)."""
        fn = self.fn
        t = fn.term(d)
        nst = len(fn.blocks[d]["stmts"])
        if t["k"] == "switch":
            c = self.op_term(t["discr"], (d, nst))
            vals = [v for v, tb in t["arms"] if tb == s]
            if s == t["otherwise"] and not vals:
                return [(c, "ne", tuple(v for v, _ in t["arms"]), t["dty"], "switch")]
            if len(vals) == 1 and s != t["otherwise"]:
                return [(c, "eq", vals[0], t["dty"], "switch")]
        elif t["k"] == "assert":
            c = self.op_term(t["cond"], (d, nst))
            return [(c, "eq", 1 if t["expected"] else 0, BOOL, "assert")]
        return []


def _overlap(P, Q):
    """Do two object paths with the same root overlap (one is a prefix of the other, indices may alias)?"""
    def chain(x):
        c = []
        while x.op in ("pf", "pi", "pd", "px"):
            c.append(x)
            x = x.args[0]
        c.reverse()
        return c
    a, b = chain(P), chain(Q)
    for x, y in zip(a, b):
        if x.op != y.op:
            return True
        if x.op == "pf" and x.args[1] != y.args[1]:
            return False
        if x.op == "pd" and x.args[1] != y.args[1]:
            return False
        if x.op == "pi":
            i, j = x.args[1], y.args[1]
            if is_const(i) and is_const(j) and const_val(i) != const_val(j):
                return False
    return True


# Library functions whose result is determined by their arguments (no hidden state); value = what.
PURE = {
    "core::slice::<impl [T]>::len": "len",
    "core::str::<impl str>::len": "len",
}


SLICE_INDEX = {
    "core::slice::index::<impl core::ops::Index<I> for [T]>::index",
    "core::slice::index::<impl core::ops::IndexMut<I> for [T]>::index_mut",
}

# Observers: result depends only on the value of the receiver (crate fns: checked to be store-free single-expression
# bodies by rule U-obs; tinyvec/core ones by their documented contract).
PURE_OBS = {
    "tinyvec::ArrayVec::<A>::len", "tinyvec::ArrayVec::<A>::capacity",
    "util::data_vec::DataVec::<T, N>::len", "util::data_vec::DataVec::<T, N>::capacity",
    "util::Df88591String::<N>::len", "util::grid16p::Grid16P::<T>::len",
    "core::option::Option::<T>::is_none", "core::option::Option::<T>::is_some",
    "core::result::Result::<T, E>::is_err", "core::result::Result::<T, E>::is_ok",
}


def subterms(t, seen=None):
    """All sub-terms of t (including t), each once."""
    if seen is None:
        seen = set()
    out = []
    st = [t]
    while st:
        x = st.pop()
        if isinstance(x, T):
            if x in seen:
                continue
            seen.add(x)
            out.append(x)
            st.extend(x.args)
        elif isinstance(x, tuple):
            st.extend(x)
    return out


def mentions(t, pred):
    return any(pred(x) for x in subterms(t))


def same_agg_through_phi(fa, e, depth=0):
    """a phi all of whose operands are the same field-less enum variant built in place (a value duplicated by jump threading) reads as that variant"""
    if e.op != "phi" or fa is None or depth > 3:
        return e
    ops = [same_agg_through_phi(fa, w, depth + 1) for pb, w in fa.phi_operands(e)]
    if ops and all(o.op == "agg" and not o.args[3] for o in ops) and len({(o.args[0], o.args[2]) for o in ops}) == 1:
        return ops[0]
    return e


def err_variant(v, fa=None):
    """Name of the RtcmError variant built in place by an `Err(RtcmError::X)` term; None when the payload is not a variant built on the spot (an
    error handed on from another Result - a folded `?`, a match arm `Err(e) => Err(e)`): such a return adds no rejection of its own."""
    try:
        e = v.args[3][0]
    except Exception:
        return None
    if fa is not None:
        e = same_agg_through_phi(fa, e)
    if e.op == "agg" and len(e.args) >= 3 and isinstance(e.args[2], str):
        return e.args[2]
    return None
