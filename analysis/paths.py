"""Finite case analysis: enumeration of the feasible acyclic entry->return paths of a small loop-free function,
with the branch facts along each path (pruned by simple consistency of facts on the same term).
This is an abstract walk of the CFG over symbolic terms - nothing is executed."""
from terms import FA, mk, T


class TooMany(Exception):
    pass


def consistent(facts, new):
    """facts: dict term -> ('eq', v) | ('ne', set).  Returns updated copy or None if `new` contradicts."""
    t, kind, val = new[0], new[1], new[2]
    cur = facts.get(t)
    if kind == "eq":
        if cur is not None:
            if cur[0] == "eq" and cur[1] != val:
                return None
            if cur[0] == "ne" and val in cur[1]:
                return None
        f = dict(facts)
        f[t] = ("eq", val)
        return f
    vals = set(val)
    if cur is not None:
        if cur[0] == "eq":
            if cur[1] in vals:
                return None
            return facts
        vals |= cur[1]
    f = dict(facts)
    f[t] = ("ne", vals)
    return f


def resolve_on_path(fa, t, blocks, memo=None):
    """The value of term t along the given path: every phi is replaced by the operand of the predecessor the path came from."""
    from terms import set_ty, ty_of, CHECKED
    if memo is None:
        memo = {}
    pos = {}
    for i, b in enumerate(blocks):
        pos[b] = i

    def go(x):
        if isinstance(x, tuple):
            return tuple(go(y) for y in x)
        if not isinstance(x, T):
            return x
        r = memo.get(x)
        if r is not None:
            return r
        if x.op == "phi" and x.args[0] == id(fa.fn) and x.args[2] in pos and pos[x.args[2]] > 0:
            pred = blocks[pos[x.args[2]] - 1]
            r = go(fa.end_val(x.args[1], pred))
        elif x.op in ("const", "arg", "loc", "closure") or not x.args:
            r = x
        else:
            na = tuple(go(a) for a in x.args)
            if all(a is b for a, b in zip(na, x.args)):
                r = x
            else:
                r = mk(x.op, *na)
                set_ty(r, ty_of(x))
                if x in CHECKED:
                    CHECKED.add(r)
        memo[x] = r
        return r
    return go(t)


def enum_paths(fa, max_paths=20000, domain=None, resolve=False):
    """Yield (blocks, facts_dict, ret_term, fact_list) for every feasible path of a loop-free function.
    domain(term) -> optional set of all possible values of a switched term (lets 'ne' facts become 'eq')."""
    f = fa.fn
    fa.defs(0)
    if f.loops():
        raise ValueError("enum_paths: function has loops: " + f.path)
    out = []
    stack = [(0, [0], {}, [], None)]
    n = 0
    while stack:
        b, blocks, facts, flist, last0 = stack.pop()
        # last definition of the return place on this path
        for (i, l, kind) in fa._defs_in_block.get(b, ()) if fa._defs is not None else ():
            if l == 0:
                last0 = (b, i, kind)
        t = f.term(b)
        if t["k"] == "return":
            n += 1
            if n > max_paths:
                raise TooMany(f.path)
            rv = fa.defterm(0, *last0) if last0 is not None else mk("undef", id(f), 0)
            if resolve:
                rv = resolve_on_path(fa, rv, blocks)
            out.append((blocks, facts, rv, flist))
            continue
        succs = f.succ(b)
        for s in succs:
            eg = fa.edge_guard(b, s)
            nf = facts
            ok = True
            nl = flist
            for g in eg:
                if g[4] == "assert":
                    continue
                g2 = g
                if g[0].op == "const":
                    # branch on a literal (e.g. `if $round {` with round: true): only the matching edge is feasible
                    cv = g[0].args[1]
                    if (g[1] == "eq" and cv != g[2]) or (g[1] == "ne" and cv in g[2]):
                        ok = False
                        break
                    continue
                if domain is not None and g[1] == "ne":
                    dom = domain(g[0])
                    if dom is not None:
                        rest = set(dom) - set(g[2])
                        if len(rest) == 1:
                            g2 = (g[0], "eq", next(iter(rest)), g[3], g[4])
                nf = consistent(nf, g2)
                if nf is None:
                    ok = False
                    break
                nl = nl + [g2]
            if ok:
                stack.append((s, blocks + [s], nf, nl, last0))
    return out
