"""Check runner plumbing: fact building (with a content-hash cache), results, known findings, evidence."""
import hashlib
import json
import os
import subprocess
import sys
import time
from collections import Counter, OrderedDict

VERIF = os.path.dirname(os.path.dirname(os.path.abspath(__file__)))
REPO = os.environ.get("VERIF_REPO", "/repo")
CACHE = os.path.join(VERIF, "scratch", "cache")
# selftest runs (tools/mutant.sh) redirect evidence/replay so that /verif/evidence only ever describes /repo
OUT_DIR = os.environ.get("VERIF_OUT_DIR", VERIF)

CONFIGS = {
    # key: (cargo args, overflow checks)
    "K0": (["--no-default-features", "--features", "all_msgs,std"], "on"),
    "K1": ([], "on"),
    "K2": (["--no-default-features", "--features", "all_msgs"], "on"),
    "K3": (["--no-default-features", "--features", "all_msgs,std,serde"], "on"),
    "K5": (["--no-default-features", "--features", "all_msgs,std"], "off"),
}


def _tree_hash(repo):
    h = hashlib.sha256()
    files = []
    for root, dirs, fs in os.walk(os.path.join(repo, "src")):
        dirs.sort()
        for f in sorted(fs):
            files.append(os.path.join(root, f))
    for f in ("Cargo.toml", "Cargo.lock", "build.rs"):
        p = os.path.join(repo, f)
        if os.path.exists(p):
            files.append(p)
    for p in files:
        h.update(p.encode())
        with open(p, "rb") as fh:
            h.update(hashlib.sha256(fh.read()).digest())
    drv = os.path.join(VERIF, "driver", "target", "release", "mirfacts")
    if os.path.exists(drv):
        st = os.stat(drv)
        h.update(("%d:%d" % (st.st_size, int(st.st_mtime))).encode())
    return h.hexdigest()[:24]


LAST_RC = 1


class Ctx:
    def __init__(self, tier="quick", seed=0, repo=REPO):
        self.tier = tier
        self.seed = seed
        self.repo = repo
        self._progs = {}
        self._hash = None
        self.t0 = time.time()
        self.built = []

    def tree_hash(self):
        if self._hash is None:
            self._hash = _tree_hash(self.repo)
        return self._hash

    def facts_path(self, key, cargo_args=None, overflow="on"):
        """Build (or fetch from the content-addressed cache) the facts file for a configuration.

        The cache key covers every file under <repo>/src, Cargo.toml, Cargo.lock and the driver
        binary, so any edit of the working tree produces a fresh export.  VERIF_NOCACHE=1 disables it.
        """
        if cargo_args is None:
            cargo_args, overflow = CONFIGS[key]
        os.makedirs(CACHE, exist_ok=True)
        ck = hashlib.sha256((self.tree_hash() + "|" + " ".join(cargo_args) + "|" + overflow).encode()).hexdigest()[:24]
        path = os.path.join(CACHE, "%s-%s.jsonl" % (key.replace("/", "_"), ck))
        if os.environ.get("VERIF_NOCACHE") == "1" or not os.path.exists(path):
            tmp = path + ".tmp%d" % os.getpid()
            env = dict(os.environ)
            env["MIRFACTS_OVERFLOW"] = overflow
            r = subprocess.run([os.path.join(VERIF, "tools", "mkfacts.sh"), tmp, self.repo] + cargo_args,
                               env=env, capture_output=True, text=True)
            if r.returncode != 0:
                if os.path.exists(tmp):
                    os.unlink(tmp)
                raise BuildError(key, cargo_args, r.stderr.strip())
            os.replace(tmp, path)
            self.built.append(key)
            self._prune()
        return path

    def _prune(self, limit_bytes=3 << 30):
        """keep the cache below ~3 GB (oldest files first)"""
        try:
            fs = sorted((os.path.getmtime(os.path.join(CACHE, f)), os.path.getsize(os.path.join(CACHE, f)), f) for f in os.listdir(CACHE))
            total = sum(x[1] for x in fs)
            for _, size, f in fs:
                if total <= limit_bytes:
                    break
                os.unlink(os.path.join(CACHE, f))
                total -= size
        except OSError:
            pass

    def prog(self, key="K0"):
        if key not in self._progs:
            sys.path.insert(0, os.path.dirname(os.path.abspath(__file__)))
            from facts import Program
            pr = Program(self.facts_path(key))
            if os.environ.get("VERIF_NOINLINE") != "1":
                import inline
                inline.apply(pr)
            self._progs[key] = pr
        return self._progs[key]


class BuildError(Exception):
    def __init__(self, key, args, msg):
        super().__init__("configuration %s (%s) does not build: %s" % (key, " ".join(args), msg))
        self.key = key
        self.msg = msg


class Result:
    """Obligations of one property check."""

    def __init__(self, pid):
        self.pid = pid
        self.obs = []          # (rule, key, ok, detail, loc)
        self.by_rule = OrderedDict()
        self.samples = []
        self.notes = []
        self.functions = set()
        self.extra = {}

    def ob(self, rule, key, ok, detail="", loc=None, sample=None):
        """Record one rule instance. key must not contain line numbers."""
        self.obs.append((rule, key, bool(ok), detail, loc))
        c = self.by_rule.setdefault(rule, [0, 0])
        c[0] += 1
        if ok:
            c[1] += 1
            if sample is not None and sum(1 for s in self.samples if s.get("rule") == rule) < 2:
                self.samples.append({"rule": rule, "instance": key, "facts": sample})
        return bool(ok)

    def missing(self, rule, what):
        """Fail closed: an anchor the rule needs was not found."""
        self.ob(rule, "missing-anchor | " + what, False, "anchor not found / count below floor: " + what)

    def floor(self, rule, what, count, minimum):
        self.ob(rule, "floor | %s" % what, count >= minimum,
                "%s: found %d, floor %d" % (what, count, minimum), sample={"count": count, "floor": minimum})

    def violations(self):
        return [o for o in self.obs if not o[2]]

    def fn(self, f):
        self.functions.add(f.path if hasattr(f, "path") else f)


class Filtered:
    """View of a Result that records only the obligations of the given rules (used when a property imports part of
    another rule family, so that it does not alarm about clauses that are not its own)."""

    def __init__(self, res, allowed, key_prefixes=None, key_contains=None):
        self.res = res
        self.allowed = set(allowed)
        self.extra = res.extra
        # optional: within the allowed rules, only obligations whose key starts with one of these prefixes
        self.key_prefixes = tuple(key_prefixes) if key_prefixes else None
        # optional: {rule: (substring, ...)} - for those rules only obligations whose key contains one of the substrings
        self.key_contains = key_contains or {}

    def ob(self, rule, *a, **k):
        if rule in self.allowed:
            if self.key_prefixes is not None and a and not str(a[0]).startswith(self.key_prefixes):
                return True
            subs = self.key_contains.get(rule)
            if subs and a and not any(x in str(a[0]) for x in subs):
                return True
            return self.res.ob(rule, *a, **k)
        return True

    def floor(self, rule, *a, **k):
        if rule in self.allowed:
            self.res.floor(rule, *a, **k)

    def missing(self, rule, *a, **k):
        self.res.missing(rule, *a, **k)

    def fn(self, f):
        self.res.fn(f)


def fmt_loc(loc):
    if not loc:
        return ""
    if isinstance(loc, dict):
        return "%s:%s" % (loc.get("file"), loc.get("line"))
    return str(loc)


def load_known():
    p = os.path.join(VERIF, "known_findings.json")
    if not os.path.exists(p):
        return {"findings": [], "fixed": []}
    with open(p) as f:
        return json.load(f)


def finish(ctx, res, meta):
    """Print the report, write evidence + replay, return the exit status."""
    pid = res.pid
    known = load_known()
    known_keys = {}
    for k in known.get("findings", []):
        if k["property"] == pid:
            known_keys[k["key"]] = k
    viol = res.violations()
    new = []
    kf = []
    seen_known = set()
    site_entries = [k for k in known.get("findings", []) if k["property"] == pid and k.get("site")]
    for (rule, key, ok, detail, loc) in viol:
        full = "%s | %s" % (rule, key)
        hit = known_keys.get(full)
        if hit is None:
            # the same failing call site under another spelling of its operand (a refactor renamed / re-bound the value):
            # rule + function + operation + the literal operand identify the site; anything else stays a new violation
            for k in site_entries:
                st = k["site"]
                if rule == st["rule"] and key.startswith(st["function"] + " | " + st["op"] + "(") and key.endswith(", " + st["literal"] + ")") \
                        and key.count(" | ") == 1:
                    hit = k
                    break
        if hit is not None:
            kk = hit["key"]
            if kk not in seen_known:
                kf.append((kk, hit))
                seen_known.add(kk)
        else:
            new.append((rule, key, detail, loc))
    global LAST_RC
    LAST_RC = 1 if new else 0
    lines = []
    for full, k in kf:
        lines.append("KNOWN-FINDING: property=%s %s -- %s" % (pid, full, k.get("what", "")))
    nob = len(res.obs)
    ndis = sum(1 for o in res.obs if o[2])
    wall = time.time() - ctx.t0
    lines.append("[%s] tier=%s obligations=%d discharged=%d known-findings=%d violations=%d functions=%d wall=%.1fs" % (
        pid, ctx.tier, nob, ndis, len(kf), len(new), len(res.functions), wall))
    for rule, (n, d) in res.by_rule.items():
        lines.append("   rule %-12s instances=%-5d discharged=%d" % (rule, n, d))
    rc = 0
    if new:
        rc = 1
        os.makedirs(os.path.join(OUT_DIR, "replay"), exist_ok=True)
        payload = {"property": pid, "tier": ctx.tier, "tree": ctx.tree_hash(), "violations": [
            {"rule": r, "key": k, "detail": d, "loc": fmt_loc(l)} for (r, k, d, l) in new]}
        hh = hashlib.sha256(json.dumps(payload["violations"], sort_keys=True).encode()).hexdigest()[:12]
        rp = os.path.join(OUT_DIR, "replay", "%s-%s.json" % (pid, hh))
        with open(rp, "w") as f:
            json.dump(payload, f, indent=1)
        for (r, k, d, l) in new[:8]:
            lines.append("  violation: %s | %s\n      at %s\n      %s" % (r, k, fmt_loc(l), d))
        if len(new) > 8:
            lines.append("  ... %d more (see replay file)" % (len(new) - 8))
        lines.append("VIOLATION property=%s replay=%s" % (pid, rp))
    # evidence
    level = meta["level"]
    distinct = len({(o[0], o[1]) for o in res.obs})
    cov = {
        "obligations": nob,
        "discharged": ndis,
        "evaluations": max(nob, 1),
        "distinct_nontrivial": distinct,
        "rule": meta.get("rule", "one obligation per (rule, instance key); an instance is a resolved construct of "
                                 "the current /repo tree (function, call site, table row, configuration); distinct = distinct keys"),
        "samples": res.samples[:12] if res.samples else [{"note": "no discharged instance to sample"}],
        "checker_cmd": "./check %s --tier %s" % (pid, ctx.tier),
        "trusted_base": meta.get("trusted_base", []),
        "explanation": meta.get("explanation", ""),
        "exhaustive": bool(meta.get("exhaustive", False)),
        "per_rule": {r: {"instances": n, "discharged": d} for r, (n, d) in res.by_rule.items()},
        "functions_analysed": len(res.functions),
        "configurations_built_this_run": ctx.built,
        "known_findings_reported": [k for k, _ in kf],
        "tree_hash": ctx.tree_hash(),
    }
    cov.update({k: (sorted(v) if isinstance(v, set) else v) for k, v in res.extra.items()})
    ev = {
        "property_id": pid,
        "tier": ctx.tier if ctx.tier in ("quick", "thorough") else "quick",
        "seed": int(ctx.seed),
        "level": level,
        "coverage": cov,
        "assumptions": meta.get("assumptions", []),
        "wall_s": round(wall, 2),
        "violations": len(new),
    }
    os.makedirs(os.path.join(OUT_DIR, "evidence"), exist_ok=True)
    with open(os.path.join(OUT_DIR, "evidence", "%s.json" % pid), "w") as f:
        json.dump(ev, f, indent=1, sort_keys=True)
    # the VIOLATION line first would be lost behind a long report if the reader stops early: print it last but
    # make sure everything is flushed in one write
    sys.stdout.write("\n".join(lines) + "\n")
    sys.stdout.flush()
    return rc
