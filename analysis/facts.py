"""Loading of the mirfacts JSONL export and CFG utilities.

Everything here is purely structural: nothing of the analysed crate is executed.
"""
import json
import os
import re
import sys

_LT = re.compile(r"::<'[A-Za-z_0-9]+>|<'[A-Za-z_0-9]+>|'[A-Za-z_0-9]+ ")
_STD = re.compile(r"\b(?:std|alloc)::")


def norm_path(p):
    """Canonical def path: no lifetimes, std:: and core:: unified (no_std builds print core::)."""
    if p is None:
        return None
    p = _LT.sub("", p)
    p = re.sub(r"\bstd::", "core::", p)
    p = re.sub(r"\balloc::", "core::", p)
    return p


def _norm_obj(o):
    """Normalise every path-like string inside a decoded JSON object (in place)."""
    if isinstance(o, dict):
        for k, v in o.items():
            if isinstance(v, str) and k in ("path", "callee", "resolved", "fn", "trait", "impl", "s", "def"):
                o[k] = norm_path(v)
            else:
                _norm_obj(v)
    elif isinstance(o, list):
        for v in o:
            _norm_obj(v)
    return o


def ty_str(t):
    """Short printable form of a type record."""
    if t is None:
        return "?"
    k = t.get("k")
    if k in ("int", "uint"):
        return t["name"]
    if k == "float":
        return "f%d" % t["bits"]
    if k in ("bool", "char", "str", "never"):
        return k if k != "never" else "!"
    if k == "ref":
        return ("&mut " if t["mut"] else "&") + ty_str(t["to"])
    if k == "ptr":
        return ("*mut " if t["mut"] else "*const ") + ty_str(t["to"])
    if k == "slice":
        return "[%s]" % ty_str(t["elem"])
    if k == "array":
        return "[%s; %s]" % (ty_str(t["elem"]), t["len"])
    if k == "tuple":
        return "(%s)" % ", ".join(ty_str(e) for e in t["elems"])
    if k == "adt":
        a = [ty_str(x) if x.get("k") != "const" else str(x.get("val", x.get("s"))) for x in t["args"]]
        return t["path"] + ("<%s>" % ", ".join(a) if a else "")
    if k == "fndef":
        return "fn " + t["path"]
    if k == "closure":
        return "closure " + t["path"]
    if k == "param":
        return t["name"]
    return t.get("s", k)


def int_range(t):
    """Value range of an integer-like type record, or None."""
    k = t.get("k")
    if k == "uint":
        return (0, (1 << t["bits"]) - 1)
    if k == "int":
        return (-(1 << (t["bits"] - 1)), (1 << (t["bits"] - 1)) - 1)
    if k == "bool":
        return (0, 1)
    if k == "char":
        return (0, 0x10FFFF)
    return None


class Fn:
    __slots__ = ("rec", "path", "blocks", "locals", "argc", "debug", "_succ", "_pred", "_idom", "_reach",
                 "_dom_depth", "_pdom", "loc", "_defs", "_names", "_order", "_rd")

    def __init__(self, rec):
        self.rec = rec
        self.path = rec["path"]
        self.blocks = rec["blocks"]
        self.locals = rec["locals"]
        self.argc = rec["argc"]
        self.debug = rec["debug"]
        self.loc = rec["loc"]
        self._succ = None
        self._pred = None
        self._idom = None
        self._reach = None
        self._pdom = None
        self._defs = None
        self._names = None
        self._order = None
        self._rd = None
        self._dom_depth = None

    # ---- CFG -------------------------------------------------------------
    def term(self, b):
        return self.blocks[b]["term"]

    def succ(self, b):
        if self._succ is None:
            self._succ = [self._succ_of(i) for i in range(len(self.blocks))]
        return self._succ[b]

    def _succ_of(self, b):
        t = self.blocks[b]["term"]
        k = t["k"]
        if k == "goto":
            return [t["target"]]
        if k == "switch":
            out = []
            for _, tb in t["arms"]:
                if tb not in out:
                    out.append(tb)
            if t["otherwise"] not in out:
                out.append(t["otherwise"])
            return out
        if k in ("drop", "assert"):
            return [t["target"]]
        if k == "call":
            return [t["target"]] if t["target"] is not None else []
        return []

    def pred(self, b):
        if self._pred is None:
            self._pred = [[] for _ in self.blocks]
            for i in self.reachable():
                for s in self.succ(i):
                    self._pred[s].append(i)
        return self._pred[b]

    def reachable(self):
        if self._reach is None:
            seen = {0}
            st = [0]
            order = []
            while st:
                b = st.pop()
                order.append(b)
                for s in self.succ(b):
                    if s not in seen:
                        seen.add(s)
                        st.append(s)
            self._reach = seen
        return self._reach

    def rpo(self):
        if self._order is None:
            seen = set()
            post = []
            # iterative DFS
            st = [(0, iter(self.succ(0)))]
            seen.add(0)
            while st:
                b, it = st[-1]
                adv = False
                for s in it:
                    if s not in seen:
                        seen.add(s)
                        st.append((s, iter(self.succ(s))))
                        adv = True
                        break
                if not adv:
                    post.append(b)
                    st.pop()
            self._order = post[::-1]
        return self._order

    def idom(self):
        """Immediate dominators (Cooper-Harvey-Kennedy)."""
        if self._idom is None:
            order = self.rpo()
            num = {b: i for i, b in enumerate(order)}
            idom = {0: 0}
            changed = True
            while changed:
                changed = False
                for b in order[1:]:
                    new = None
                    for p in self.pred(b):
                        if p in idom:
                            if new is None:
                                new = p
                            else:
                                f1, f2 = p, new
                                while f1 != f2:
                                    while num[f1] > num[f2]:
                                        f1 = idom[f1]
                                    while num[f2] > num[f1]:
                                        f2 = idom[f2]
                                new = f1
                    if new is not None and idom.get(b) != new:
                        idom[b] = new
                        changed = True
            self._idom = idom
            depth = {0: 0}
            for b in order[1:]:
                if b in idom:
                    depth[b] = depth[idom[b]] + 1
            self._dom_depth = depth
        return self._idom

    def dominates(self, a, b):
        """block a dominates block b (reflexive)."""
        idom = self.idom()
        if b not in idom or a not in idom:
            return False
        while True:
            if a == b:
                return True
            if b == 0:
                return False
            b = idom[b]

    def dom_chain(self, b):
        """b, idom(b), ..., 0"""
        idom = self.idom()
        out = []
        if b not in idom:
            return out
        while True:
            out.append(b)
            if b == 0:
                break
            b = idom[b]
        return out

    def reach_from(self, start, removed_edges=(), removed_blocks=()):
        """Blocks reachable from `start` (inclusive) with some edges/blocks deleted."""
        rem = set(removed_edges)
        rb = set(removed_blocks)
        if start in rb:
            return set()
        seen = {start}
        st = [start]
        while st:
            b = st.pop()
            for s in self.succ(b):
                if (b, s) in rem or s in rb:
                    continue
                if s not in seen:
                    seen.add(s)
                    st.append(s)
        return seen

    def can_reach(self, a, b):
        """Is there a path of length >= 1 from block a to block b?"""
        seen = set()
        st = list(self.succ(a))
        while st:
            x = st.pop()
            if x == b:
                return True
            if x in seen:
                continue
            seen.add(x)
            st.extend(self.succ(x))
        return False

    def return_blocks(self):
        return [b for b in self.reachable() if self.term(b)["k"] == "return"]

    def back_edges(self):
        out = []
        for b in self.reachable():
            for s in self.succ(b):
                if self.dominates(s, b):
                    out.append((b, s))
        return out

    def loops(self):
        """natural loops: header -> set of blocks"""
        res = {}
        for (t, h) in self.back_edges():
            body = res.setdefault(h, {h})
            st = [t]
            while st:
                x = st.pop()
                if x in body:
                    continue
                body.add(x)
                st.extend(self.pred(x))
        return res

    # ---- names -----------------------------------------------------------
    def names(self):
        if self._names is None:
            self._names = {}
            for n, pl in self.debug:
                if not pl["proj"]:
                    self._names.setdefault(pl["local"], n)
        return self._names

    def calls(self):
        """yield (block, term) for every call terminator in reachable blocks"""
        for b in sorted(self.reachable()):
            t = self.term(b)
            if t["k"] == "call":
                yield b, t


def callee_of(t):
    """Resolved callee path of a call terminator (impl method if resolved, else the declared path)."""
    return t.get("resolved") or t.get("callee")


_DIG = re.compile(r"[0-9]+")


def _norm(p):
    return _DIG.sub("N", p)


def _alias_moved_items(data):
    """An item the rules know by its path (oracles/known_functions.json, known_types.json) that was MOVED to another module - same name,
    different prefix, the known path gone - is renamed back to the known path in the raw facts, so that a module reorganisation does not
    read as `anchor missing`.  Only unambiguous cases: exactly one new item carries the name, exactly one known item of that name is absent.
    (A renamed item is a different matter: its role has to be re-learnt by a person.)"""
    base = os.path.join(os.path.dirname(os.path.dirname(os.path.abspath(__file__))), "oracles")
    try:
        kf = set(json.load(open(os.path.join(base, "known_functions.json")))["paths"])
        kt = set(json.load(open(os.path.join(base, "known_types.json")))["paths"])
    except (OSError, ValueError, KeyError):
        return data
    plain = lambda q: not q.startswith("<") and "{closure" not in q and "::_::" not in q and "{impl" not in q
    for kind, known in (("adt", kt), ("fn", kf)):
        present = set(re.findall(r'"rec":\s*"%s",\s*"path":\s*"([^"]+)"' % kind, data))
        have = {_norm(q) for q in present}
        new = [q for q in present if plain(q) and _norm(q) not in known and "::" in q]
        absent = [p_ for p_ in known if plain(p_) and p_ not in have and "::" in p_]
        if not new or not absent:
            continue
        by_tail = {}
        for p_ in absent:
            by_tail.setdefault(p_.rsplit("::", 1)[1], []).append(p_)
        new_by_tail = {}
        for q in new:
            new_by_tail.setdefault(_norm(q.rsplit("::", 1)[1]), []).append(q)
        for tail, qs in new_by_tail.items():
            cands = by_tail.get(tail, [])
            prefixes = {q.rsplit("::", 1)[0] for q in qs}
            if len(cands) != 1 or len(prefixes) != 1:
                continue
            target_prefix = cands[0].rsplit("::", 1)[0]
            for q in qs:
                p_new = target_prefix + "::" + q.rsplit("::", 1)[1]
                if p_new in present:
                    continue
                data = re.sub(r'(?<![A-Za-z0-9_:])' + re.escape(q) + r'(?![A-Za-z0-9_])', p_new, data)
    return data


class Program:
    def __init__(self, path):
        self.fns = {}
        self.adts = {}
        self.impls = []
        self.consts = {}
        self.helper_attrs = []
        self.promoted = {}
        self.constbodies = {}
        self.crate = None
        self.end = None
        import gc
        with open(path) as f:
            data = f.read()
        # canonical paths: drop lifetimes, unify std::/core::/alloc:: (done on the raw text: fast)
        data = _LT.sub("", data)
        for a in ('"', " ", "<", "(", "&", "[", ","):
            data = data.replace(a + "std::", a + "core::").replace(a + "alloc::", a + "core::")
        data = _alias_moved_items(data)
        was = gc.isenabled()
        gc.disable()  # millions of small objects: the cyclic GC only costs time here
        try:
            for line in data.splitlines():
                r = json.loads(line)
                k = r["rec"]
                if k == "fn":
                    if r["path"] in self.fns:
                        # two items whose printed paths coincide (rustc tells them apart by a disambiguator the printed path drops: the
                        # `__SerializeWith` helper types serde's derive emits once per `serialize_with` field): both are kept
                        n_ = 2
                        while "%s#%d" % (r["path"], n_) in self.fns:
                            n_ += 1
                        r["path"] = "%s#%d" % (r["path"], n_)
                        self.dup_paths = getattr(self, "dup_paths", []) + [r["path"]]
                    self.fns[r["path"]] = Fn(r)
                elif k == "adt":
                    self.adts[r["path"]] = r
                elif k == "impl":
                    self.impls.append(r)
                elif k == "const":
                    self.consts[r["path"]] = r
                elif k == "helper_attr":
                    self.helper_attrs.append(r)
                elif k == "promoted":
                    self.promoted[r["path"]] = r
                elif k == "constbody":
                    self.constbodies[r["path"]] = r
                elif k == "crate":
                    self.crate = r
                elif k == "end":
                    self.end = r
        finally:
            if was:
                gc.enable()
                gc.freeze()
        if self.end is None or self.crate is None:
            raise RuntimeError("facts file %s is incomplete (no end record)" % path)
        if self.end["functions"] != len(self.fns):
            raise RuntimeError("facts file %s: function count mismatch" % path)
        self._materialise_trait_defaults()

    # a provided (default) trait method inherited by an impl is, for that carrier, the default body with the impl's associated type put in.
    # The rules know the carriers' methods by their impl paths (`<U8 as BitValue>::sign_fix`); an impl that inherits the method instead of
    # spelling it out gets a synthetic function record with that path.  The associated type is read off a method the impl must define itself.
    ASSOC_WITNESS = {("df::bit_value::BitValue", "ValueType"): ("u8_cast", 0)}

    def _materialise_trait_defaults(self):
        import copy
        added = 0
        for i in self.impls:
            tr = i.get("trait")
            if not tr or not isinstance(i.get("self"), dict):
                continue
            self_s = i["self"].get("s") or i["self"].get("path")
            defaults = {q.rsplit("::", 1)[1]: g for q, g in self.fns.items() if q.startswith(tr + "::") and "::" not in q[len(tr) + 2:] and "Self" in (g.rec.get("generics") or [])}
            if not defaults:
                continue
            for name, g in defaults.items():
                ipath = "<%s as %s>::%s" % (self_s, tr, name)
                if ipath in self.fns:
                    continue
                sub = {}
                ok = True
                for ty in g.rec["locals"]:
                    s_ = ty.get("s") if isinstance(ty, dict) else None
                    if isinstance(ty, dict) and ty.get("k") in ("other", "param", "projection") and s_:
                        m = re.fullmatch(r"<Self as %s>::(\w+)" % re.escape(tr), s_)
                        w = self.ASSOC_WITNESS.get((tr, m.group(1))) if m else None
                        wf = self.fns.get("<%s as %s>::%s" % (self_s, tr, w[0])) if w else None
                        if wf is None:
                            ok = False
                            break
                        sub[s_] = wf.rec["locals"][w[1]]
                if not ok:
                    continue
                rec = copy.deepcopy(g.rec)
                rec["path"] = ipath
                rec["generics"] = []
                rec["impl"] = i.get("path")
                rec["inherited_default"] = g.path
                rec["locals"] = [copy.deepcopy(sub.get(ty.get("s"), ty)) if isinstance(ty, dict) and ty.get("k") in ("other", "param", "projection") else ty for ty in rec["locals"]]
                self.fns[ipath] = Fn(rec)
                added += 1
        self.synthetic_defaults = added

    def absorbed_fns(self):
        """helpers and closures whose body was inlined at every place that calls them (inline.py) and that nothing else refers to: their
        stand-alone copy is dead for call-site rules - the inlined copies are analysed with their callers' facts"""
        if getattr(self, "_absorbed", None) is not None:
            return self._absorbed
        inl = getattr(self, "inlined", {}) or {}
        was_inlined = set()
        for caller, items in inl.items():
            for x in items:
                if x in self.fns:
                    was_inlined.add(x)
        still = set()
        for q, g in self.fns.items():
            for blk in g.rec["blocks"]:
                t = blk["term"]
                if t["k"] == "call":
                    c = t.get("resolved") or t.get("callee")
                    if c in was_inlined:
                        still.add(c)
                    for a in t.get("args", []):
                        ty = None
                        if a.get("k") in ("move", "copy") and not a["place"]["proj"]:
                            ty = g.rec["locals"][a["place"]["local"]]
                        while ty and ty.get("k") == "ref":
                            ty = ty.get("to")
                        if ty and ty.get("k") == "closure" and ty.get("path") in was_inlined:
                            still.add(ty["path"])
                    fo = t.get("fnop") or {}
                    for a in t.get("args", []):
                        if a.get("k") == "const" and (a.get("ty") or {}).get("k") == "fndef" and a["ty"].get("path") in was_inlined:
                            still.add(a["ty"]["path"])
        # a function that only an absorbed function still calls is absorbed too (iterate)
        out = was_inlined - still
        changed = True
        while changed:
            changed = False
            for c in list(still):
                callers = [q for q, g in self.fns.items() if any(blk["term"]["k"] == "call" and (blk["term"].get("resolved") or blk["term"].get("callee")) == c for blk in g.rec["blocks"])]
                if callers and all(q in out for q in callers):
                    still.discard(c)
                    out.add(c)
                    changed = True
        self._absorbed = out
        return out

    def derived_clone_fns(self, adt_path):
        """paths of `clone` functions of a #[derive(Clone)] impl for the given type: a derived clone copies a value field by field, so it
        preserves every invariant the constructor establishes (rules of the form "values are built only by X" accept it)"""
        out = set()
        short = adt_path.rsplit("::", 1)[-1]
        for im in self.impls:
            if im.get("derived") and (im.get("trait") or "").endswith("clone::Clone") and (im.get("self") or {}).get("path") == adt_path:
                for p in self.fns:
                    if p.endswith("::clone") and "Clone" in p and short in p:
                        out.add(p)
        return out

    def fn(self, path):
        return self.fns.get(path)

    def find(self, regex):
        rx = re.compile(regex)
        return [f for p, f in sorted(self.fns.items()) if rx.search(p)]

    def closure_from(self, roots):
        """Call-graph closure (crate-local functions) from the given root paths."""
        seen = set()
        st = [r for r in roots if r in self.fns]
        while st:
            p = st.pop()
            if p in seen:
                continue
            seen.add(p)
            f = self.fns[p]
            for b, t in f.calls():
                for c in (t.get("resolved"), t.get("callee")):
                    if c in self.fns and c not in seen:
                        st.append(c)
                # closures / fn items passed as arguments
                for a in t["args"]:
                    ty = a.get("ty") if a["k"] == "const" else None
                    if ty and ty["k"] in ("closure", "fndef") and ty["path"] in self.fns:
                        st.append(ty["path"])
            # closures constructed in the body
            for blk in f.blocks:
                for s in blk["stmts"]:
                    if s["k"] == "assign" and s["rv"]["k"] == "aggregate" and s["rv"].get("agg") == "closure":
                        if s["rv"]["path"] in self.fns:
                            st.append(s["rv"]["path"])
        return seen


if __name__ == "__main__":
    p = Program(sys.argv[1])
    print(len(p.fns), "functions", len(p.adts), "adts", len(p.impls), "impls")
