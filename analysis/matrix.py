"""Feature matrix (C19): cargo-check every single-feature configuration with the driver attached and summarise it."""
import hashlib
import json
import os
import shutil
import subprocess
import tempfile
import threading
import queue
import sys

import engine
from facts import Program, callee_of

HERE = os.path.dirname(os.path.abspath(__file__))
sys.path.insert(0, os.path.join(HERE, "rules"))


def fn_hash(f):
    """Hash of the resolved body of a function (blocks + local types); identical source + identical resolution => identical hash."""
    h = hashlib.sha256()
    h.update(json.dumps(f.rec["blocks"], sort_keys=True).encode())
    h.update(json.dumps(f.rec["locals"], sort_keys=True).encode())
    return h.hexdigest()[:16]


def summarise(path, want_hashes=True):
    """Load one configuration's facts and reduce them to what the C19 rules need."""
    import dispatch
    prog = Program(path)
    if os.environ.get("VERIF_NOINLINE") != "1":
        import inline
        inline.apply(prog)
    res = engine.Result("tmp")
    out = {"features": prog.crate["features"], "extern_crates": prog.crate.get("extern_crates", []), "functions": len(prog.fns)}
    dec = dispatch.decode_table(prog, res)
    num = dispatch.number_table(prog, res)
    enc = dispatch.encode_table(prog, res)
    adt = dispatch.adt_table(prog)
    out["dispatch_problems"] = ["%s | %s" % (o[0], o[1]) for o in res.violations()][:5]
    out["decode_arms"] = sorted(dec["arms"]) if dec else None
    out["decode_table"] = {str(k): v for k, v in (dec["table"].items() if dec else [])}
    out["number_arms"] = sorted(k for k in (num or {}) if k is not None)
    out["encode_arms"] = sorted((enc or {"table": {}})["table"])
    out["variants"] = sorted(v[0] for k, v in (adt or {}).items() if k not in dispatch.SPECIAL)
    if want_hashes:
        roots = []
        for n, e in (dec["table"].items() if dec else []):
            if e.get("callee"):
                roots.append(e["callee"])
        for n, e in (enc or {"table": {}})["table"].items():
            roots.append(e[0])
        import panics
        cl = panics.closure(prog, roots)
        out["hashes"] = {p: fn_hash(prog.fns[p]) for p in sorted(cl)}
    return out


def run_matrix(ctx, configs, want_hashes=True, workers=16):
    """configs: {key: [cargo args]} -> {key: summary | {'error': msg}}.  Results are cached by tree hash."""
    os.makedirs(engine.CACHE, exist_ok=True)
    ck = hashlib.sha256((ctx.tree_hash() + json.dumps(configs, sort_keys=True) + str(want_hashes)).encode()).hexdigest()[:24]
    cpath = os.path.join(engine.CACHE, "matrix-%s.json" % ck)
    if os.environ.get("VERIF_NOCACHE") != "1" and os.path.exists(cpath):
        with open(cpath) as f:
            return json.load(f)
    root = tempfile.mkdtemp(prefix="vmatrix.")
    results = {}
    q = queue.Queue()
    for k in sorted(configs):
        q.put(k)
    sysroot = subprocess.run(["rustc", "+nightly", "--print", "sysroot"], capture_output=True, text=True).stdout.strip()
    drv = os.path.join(engine.VERIF, "driver", "target", "release", "mirfacts")
    lock = threading.Lock()

    def worker(i):
        tdir = os.path.join(root, "t%d" % i)
        while True:
            try:
                k = q.get_nowait()
            except queue.Empty:
                return
            out = os.path.join(root, "facts-%d.jsonl" % i)
            if os.path.exists(out):
                os.unlink(out)
            env = dict(os.environ)
            env.update({"LD_LIBRARY_PATH": sysroot + "/lib", "RUSTFLAGS": "-Zmir-opt-level=0 -Awarnings -Coverflow-checks=on",
                        "RUSTC_WORKSPACE_WRAPPER": drv, "MIRFACTS_OUT": out, "CARGO_NET_OFFLINE": "true", "CARGO_TARGET_DIR": tdir})
            r = subprocess.run(["cargo", "+nightly", "check", "--offline", "--quiet", "--manifest-path", os.path.join(ctx.repo, "Cargo.toml"), "--lib"]
                               + configs[k], env=env, capture_output=True, text=True)
            if r.returncode != 0 or not os.path.exists(out):
                msg = [l for l in r.stderr.splitlines() if l.startswith("error")][:2]
                # location of the first error
                loc = [l.strip() for l in r.stderr.splitlines() if l.strip().startswith("-->")][:1]
                with lock:
                    results[k] = {"error": "; ".join(msg + loc) or ("cargo check rc=%d" % r.returncode)}
                continue
            # summarise in a child process (CPU-bound Python: threads would serialise on the GIL)
            pr = subprocess.run([sys.executable, os.path.abspath(__file__), "--summarise", out, "1" if want_hashes else "0"],
                                capture_output=True, text=True)
            try:
                s = json.loads(pr.stdout)
            except Exception:
                s = {"error": "analysis of the configuration failed: %s" % (pr.stderr.strip().splitlines()[-1:] or ["?"])[0]}
            with lock:
                results[k] = s
            try:
                os.unlink(out)
            except OSError:
                pass

    threads = [threading.Thread(target=worker, args=(i,)) for i in range(workers)]
    for t in threads:
        t.start()
    for t in threads:
        t.join()
    # a configuration that failed is tried once more, alone and in a fresh target directory: a build that fails for a reason of its own fails
    # again; one that was starved (out of memory with 16 compilers at once on a loaded machine) or skipped by cargo's freshness cache does not
    again = sorted(k for k, v in results.items() if "error" in v)
    if again and len(again) <= 8:
        first = {k: results[k] for k in again}
        for n_, k in enumerate(again):
            q.put(k)
            results.pop(k, None)
            worker(1000 + n_)
            if k not in results:
                results[k] = first[k]
    shutil.rmtree(root, ignore_errors=True)
    with open(cpath + ".tmp", "w") as f:
        json.dump(results, f)
    os.replace(cpath + ".tmp", cpath)
    return results


if __name__ == "__main__":
    if len(sys.argv) >= 3 and sys.argv[1] == "--summarise":
        print(json.dumps(summarise(sys.argv[2], sys.argv[3] == "1" if len(sys.argv) > 3 else True)))
