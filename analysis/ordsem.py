"""Symbolic evaluation of <SigId as Ord>::cmp over the finite set of orderings of its inputs (Y-ord, engine Y-sem).

cmp(a, b) may look at its two signal descriptors only through
  * to_id(descriptor)            - recognised (Some(position)) or not (None), and
  * comparisons of like parts     - position with position, band with band, attribute with attribute (or with a literal).
The interpreter below carries the six parts as opaque symbols; every operation on a symbol other than an order-preserving widening or
a comparison makes the run undecided (the template rule of sigtab.py is then the judge).  Under that discipline the result of cmp is a
function of   (recognised(a), recognised(b), order(pos_a, pos_b), order(band_a, band_b), order(attr_a, attr_b))   only, so running the
body once per consistent combination (42 of them) decides the clause for every pair of descriptors:

  both recognised        -> the order of the positions      (positions equal => same descriptor, Y-tab injectivity => all parts equal)
  only b recognised      -> Greater          only a recognised -> Less
  neither                -> the order of the bands, and for equal bands the order of the attributes

How the comparison is written (match on a tuple, rank numbers, then_with chains, helper functions) does not matter.
"""
import re
import bitsem
from bitsem import State, BV, Ref, Adt, Tup, Undecided, Panic, Closure
from guardsem import TabInterp

ORD = "core::cmp::Ordering"
DISCR = {"Less": 255, "Equal": 0, "Greater": 1}
VARIANT = {"Less": 0, "Equal": 1, "Greater": 2}
CMP_RE = re.compile(r"core::cmp::impls::<impl core::cmp::Ord for (u8|u16|u32|u64|usize|char|bool)>::cmp")
STRUCT_CMP_RE = re.compile(r"<core::(result::Result<T, E>|option::Option<T>) as core::cmp::Ord>::cmp|core::tuple::<impl core::cmp::Ord for \(.*\)>::cmp")
WIDEN_RE = re.compile(r"core::convert::num::<impl core::convert::From<(u8|u16|u32|char)> for (u16|u32|u64|usize|u128|i16|i32|i64|isize)>::from")


class SymV(object):
    """an unknown unsigned quantity in [lo, hi] that may only be compared"""
    __slots__ = ("name", "lo", "hi")

    def __init__(self, name, lo, hi):
        self.name, self.lo, self.hi = name, lo, hi

    def __repr__(self):
        return self.name


def ordering(name):
    return Adt(ORD, VARIANT[name], name, [])


class OrdInterp(TabInterp):
    def __init__(self, prog, f, toid, scen, id_range=(0, 255)):
        TabInterp.__init__(self, prog, f, 64)
        self.toid = toid
        self.id_range = id_range
        self.scen = scen       # {"rec": {"l": bool, "r": bool}, "rel": {"id": o, "band": o, "attr": o}}   o in lt/eq/gt
        self.choices = {"full": False}

    # ---- the oracle
    def sym_cmp(self, x, y):
        if isinstance(x, BV):
            x = x.concrete() if x.concrete() is not None else x
        if isinstance(y, BV):
            y = y.concrete() if y.concrete() is not None else y
        if isinstance(x, int) and isinstance(y, int):
            return "lt" if x < y else ("gt" if x > y else "eq")
        if isinstance(x, SymV) and isinstance(y, SymV):
            if x.name == y.name:
                return "eq"
            kx, sx = x.name.split("_")
            ky, sy = y.name.split("_")
            if kx != ky:
                raise Undecided("comparison of unlike parts %s and %s" % (x.name, y.name))
            o = self.scen["rel"][kx]
            return o if (sx, sy) == ("l", "r") else {"lt": "gt", "gt": "lt", "eq": "eq"}[o]
        if isinstance(x, SymV) and isinstance(y, int):
            if x.hi < y:
                return "lt"
            if x.lo > y:
                return "gt"
            raise Undecided("comparison of %s with the literal %d" % (x.name, y))
        if isinstance(y, SymV) and isinstance(x, int):
            return {"lt": "gt", "gt": "lt", "eq": "eq"}[self.sym_cmp(y, x)]
        raise Undecided("comparison of unmodelled values")

    def compare(self, op, x, y):
        if isinstance(x, SymV) or isinstance(y, SymV):
            o = self.sym_cmp(x, y)
            return 1 if {"Eq": o == "eq", "Ne": o != "eq", "Lt": o == "lt", "Le": o != "gt", "Gt": o == "gt", "Ge": o != "lt"}[op] else 0
        return TabInterp.compare(self, op, x, y)

    def binop(self, st, op, x, y, tya, dest_ty):
        if isinstance(x, SymV) or isinstance(y, SymV):
            if op in ("Eq", "Ne", "Lt", "Le", "Gt", "Ge"):
                return self.compare(op, x, y)
            raise Undecided("arithmetic (%s) on a part of the descriptor" % op)
        return TabInterp.binop(self, st, op, x, y, tya, dest_ty)

    def cast(self, v, src_ty, dst_ty):
        if isinstance(v, SymV):
            s, d = bitsem.ty_bits(src_ty), bitsem.ty_bits(dst_ty)
            src_unsigned = (src_ty.get("k") == "char") or (s and not s[1])
            if src_unsigned and d and (d[0] > (s[0] if s else 32) or (d[0] == (s[0] if s else 32) and not d[1])):
                return v            # zero-extension keeps value and order
            raise Undecided("a part of the descriptor is cast to a narrower or signed type")
        return TabInterp.cast(self, v, src_ty, dst_ty)

    def rvalue(self, st, rv, dest_place):
        if rv["k"] == "discr":
            v = self.read(st, rv["place"])
            if isinstance(v, Adt) and v.path == ORD:
                return DISCR[v.vname]
        return TabInterp.rvalue(self, st, rv, dest_place)

    def struct_cmp(self, st, x, y, depth):
        if depth > 4:
            raise Undecided("comparison of deeply nested values")
        x, y = self._deref(st, x), self._deref(st, y)
        if isinstance(x, Adt) and isinstance(y, Adt) and x.path == y.path and x.path in ("core::result::Result", "core::option::Option"):
            if x.variant != y.variant:
                return "lt" if x.variant < y.variant else "gt"
            fx, fy = x.fields, y.fields
        elif isinstance(x, Adt) and isinstance(y, Adt) and x.path == y.path == "core::cmp::Reverse":
            o = self.struct_cmp(st, x.fields[0], y.fields[0], depth + 1)          # Reverse<T>: the order of T turned round
            return {"lt": "gt", "gt": "lt", "eq": "eq"}[o]
        elif isinstance(x, Tup) and isinstance(y, Tup) and len(x.fields) == len(y.fields):
            fx, fy = x.fields, y.fields
        elif isinstance(x, (Adt, Tup)) or isinstance(y, (Adt, Tup)):
            raise Undecided("comparison of unlike structured values")
        else:
            return self.sym_cmp(x, y)
        for a, b in zip(fx, fy):
            o = self.struct_cmp(st, a, b, depth + 1)
            if o != "eq":
                return o
        return "eq"

    def _deref(self, st, v):
        for _ in range(4):
            if isinstance(v, Ref):
                v = self._get(st, v.loc)
            else:
                break
        return v

    def call(self, st, t):
        c = t.get("resolved") or t["callee"]
        if c == self.toid:
            a = self._deref(st, self.operand(st, t["args"][0]))
            if not (isinstance(a, Adt) and len(a.fields) == 2 and all(isinstance(x, SymV) for x in a.fields)):
                raise Undecided("to_id of something that is not one of the two descriptors")
            sides = {x.name.split("_")[1] for x in a.fields}
            if [x.name.split("_")[0] for x in a.fields] != ["band", "attr"] or len(sides) != 1:
                raise Undecided("to_id of a descriptor assembled from mixed parts")
            s = sides.pop()
            if self.scen["rec"][s]:
                return Adt("core::option::Option", 1, "Some", [SymV("id_" + s, self.id_range[0], self.id_range[1])])
            return Adt("core::option::Option", 0, "None", [])
        if CMP_RE.fullmatch(c):
            x = self._deref(st, self.operand(st, t["args"][0]))
            y = self._deref(st, self.operand(st, t["args"][1]))
            o = self.sym_cmp(x, y)
            return ordering({"lt": "Less", "eq": "Equal", "gt": "Greater"}[o])
        if STRUCT_CMP_RE.fullmatch(c):
            # derived / library Ord of Result, Option and tuples: variant first (Ok < Err, None < Some), then the payloads left to right
            x = self._deref(st, self.operand(st, t["args"][0]))
            y = self._deref(st, self.operand(st, t["args"][1]))
            return ordering({"lt": "Less", "eq": "Equal", "gt": "Greater"}[self.struct_cmp(st, x, y, 0)])
        if c in ("core::result::Result::<T, E>::is_ok", "core::result::Result::<T, E>::is_err", "core::option::Option::<T>::is_some", "core::option::Option::<T>::is_none"):
            v = self._deref(st, self.operand(st, t["args"][0]))
            if isinstance(v, Adt) and v.vname in ("Ok", "Err", "Some", "None"):
                return 1 if {"is_ok": v.vname == "Ok", "is_err": v.vname == "Err", "is_some": v.vname == "Some", "is_none": v.vname == "None"}[c.rsplit("::", 1)[1]] else 0
        if c == "core::cmp::Reverse" and len(t["args"]) == 1:
            return Adt("core::cmp::Reverse", 0, "Reverse", [self.operand(st, t["args"][0])])
        if c == "<core::cmp::Reverse<T> as core::cmp::Ord>::cmp":
            x = self._deref(st, self.operand(st, t["args"][0]))
            y = self._deref(st, self.operand(st, t["args"][1]))
            return ordering({"lt": "Less", "eq": "Equal", "gt": "Greater"}[self.struct_cmp(st, x, y, 0)])
        if c == "core::option::Option::<T>::zip":
            a0 = self._deref(st, self.operand(st, t["args"][0]))
            a1 = self._deref(st, self.operand(st, t["args"][1]))
            if isinstance(a0, Adt) and isinstance(a1, Adt) and a0.path == a1.path == "core::option::Option":
                if a0.vname == "Some" and a1.vname == "Some":
                    return Adt("core::option::Option", 1, "Some", [Tup([a0.fields[0], a1.fields[0]])])
                return Adt("core::option::Option", 0, "None", [])
        if WIDEN_RE.fullmatch(c) or c == "core::convert::From::from":
            v = self.operand(st, t["args"][0])
            if isinstance(v, SymV):
                d = bitsem.ty_bits(self.place_ty(t["dest"]))
                if d and d[0] >= 16:
                    return v
                raise Undecided("conversion of a part of the descriptor")
        if c in ("core::cmp::Ordering::then", "core::cmp::Ordering::then_with", "core::cmp::Ordering::reverse", "core::cmp::Ordering::is_eq",
                 "core::cmp::Ordering::is_ne", "core::cmp::Ordering::is_lt", "core::cmp::Ordering::is_gt"):
            args = [self.operand(st, a) for a in t["args"]]
            o = args[0]
            if isinstance(o, Adt) and o.path == ORD:
                short = c.rsplit("::", 1)[1]
                if short == "then":
                    return args[1] if o.vname == "Equal" else o
                if short == "then_with":
                    if o.vname != "Equal":
                        return o
                    if isinstance(args[1], Closure):
                        return self.exec_closure(st, args[1], [])
                if short == "reverse":
                    return ordering({"Less": "Greater", "Equal": "Equal", "Greater": "Less"}[o.vname])
                if short.startswith("is_"):
                    return 1 if {"is_eq": o.vname == "Equal", "is_ne": o.vname != "Equal", "is_lt": o.vname == "Less", "is_gt": o.vname == "Greater"}[short] else 0
        return TabInterp.call(self, st, t)


def scenarios():
    """[(case label, scenario, expected Ordering name)]"""
    out = []
    O = ("lt", "eq", "gt")
    name = {"lt": "Less", "eq": "Equal", "gt": "Greater"}
    for i in O:
        for b in O:
            for a in O:
                same = (b == "eq" and a == "eq")
                if (i == "eq") != same:
                    continue          # equal positions <=> the same descriptor (Y-tab: to_id is injective on recognised descriptors)
                out.append(("both recognised", {"rec": {"l": True, "r": True}, "rel": {"id": i, "band": b, "attr": a}}, name[i]))
    for b in O:
        for a in O:
            if b == "eq" and a == "eq":
                continue              # one descriptor cannot be both recognised and not
            out.append(("unrecognised vs recognised", {"rec": {"l": False, "r": True}, "rel": {"id": "eq", "band": b, "attr": a}}, "Greater"))
            out.append(("recognised vs unrecognised", {"rec": {"l": True, "r": False}, "rel": {"id": "eq", "band": b, "attr": a}}, "Less"))
    for b in O:
        for a in O:
            label = "both unrecognised, bands differ" if b != "eq" else "both unrecognised, same band"
            out.append((label, {"rec": {"l": False, "r": False}, "rel": {"id": "eq", "band": b, "attr": a}}, name[b] if b != "eq" else name[a]))
    return out


def check(prog, cmp_path, toid_path, sigid_path, id_range=(0, 255)):
    """{'label': [problem, ..]} per case label, or raises Undecided"""
    f = prog.fn(cmp_path)
    probs = {}
    runs = 0
    for label, scen, want in scenarios():
        it = OrdInterp(prog, f, toid_path, scen, id_range)
        st = State()
        for slot, s in ((-10, "l"), (-11, "r")):
            st.locals[slot] = Adt(sigid_path, 0, None, [SymV("band_" + s, 0, 255), SymV("attr_" + s, 0, 0x10FFFF)])
        st.locals[1] = Ref(("local", -10, (), st.frame))
        st.locals[2] = Ref(("local", -11, (), st.frame))
        try:
            r = it.run_fn(st)
        except (Undecided, Panic):
            raise
        except Exception as e:      # an abstract value the base interpreter does not expect: not decided here
            raise Undecided("internal: %r" % (e,))
        runs += 1
        got = r.vname if isinstance(r, Adt) and r.path == ORD else repr(r)
        probs.setdefault(label, [])
        if got != want:
            rel = scen["rel"]
            probs[label].append("positions %s, bands %s, attributes %s: cmp returns %s, expected %s" % (
                rel["id"] if scen["rec"]["l"] and scen["rec"]["r"] else "-", rel["band"], rel["attr"], got, want))
    return probs, runs


def check_is_valid(prog, path, toid_path, sigid_path, by_ref):
    """is_valid(s) evaluated for a recognised and an unrecognised descriptor: (True | False, detail); raises Undecided"""
    f = prog.fn(path)
    out = []
    for rec, want in ((True, 1), (False, 0)):
        scen = {"rec": {"l": rec, "r": rec}, "rel": {"id": "eq", "band": "eq", "attr": "eq"}}
        it = OrdInterp(prog, f, toid_path, scen)
        st = State()
        st.locals[-10] = Adt(sigid_path, 0, None, [SymV("band_l", 0, 255), SymV("attr_l", 0, 0x10FFFF)])
        st.locals[1] = Ref(("local", -10, (), st.frame)) if by_ref else st.locals[-10]
        try:
            r = it.run_fn(st)
        except (Undecided, Panic):
            raise
        except Exception as e:
            raise Undecided("internal: %r" % (e,))
        if isinstance(r, BV):
            r = r.concrete()
        if r not in (0, 1, True, False):
            raise Undecided("is_valid returns an unmodelled value")
        if int(r) != want:
            out.append("is_valid answers %s for a descriptor to_id %s" % (bool(r), "recognises" if rec else "does not recognise"))
    return (not out), "; ".join(out) or "evaluated for a recognised and for an unrecognised descriptor [Y-sem]"
