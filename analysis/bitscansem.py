"""Inductive abstract interpretation of the MSM mask helpers when they are written as a *bit scan*

    while mask != 0 { let i = mask.leading_zeros(); out.push(elem(i)); mask &= !(1 << (W-1-i)); }

(engine S-asc / bit-scan).  guardsem.py decides these helpers by if-conversion over the symbolic mask bits; that needs a trip count that
does not depend on the mask.  Here the trip count is data dependent, so the clause is proved by induction on the length P of the
cleared prefix instead - the same scheme as scansem.py:

  invariant at the loop head    mask = Orig with its first P positions (MSB first) cleared
                                out  = [elem(j) | j < P, bit j of Orig set]  in ascending order of j          ("Pre(P)")
  step                          mask != 0, i = leading_zeros(mask): positions P..i-1 are clear and position i is set, so Pre(P) = Pre(i)
                                and the invariant is re-based at i;  push(elem(i)) gives Pre(i+1);  clearing bit i gives the mask for i+1
  exit                          mask == 0: no set bit at or after P, so Pre(P) is the complete list - the specification

Positions are MSB first: position j of a W-bit mask is bit W-1-j, its identifier is j+1.  The element function is read off the spec:
  mask_to_id_vec_uN:      elem(j) = j + 1
  cell_mask_id_vec:       Orig = cell_mask << (64 - |S||G|)  (so only positions < |S||G| can be set),  elem(j) = (S[j / |G|], G[j % |G|])
Every push is checked against the capacity (|Pre(P)| <= P), every index, shift and subtraction against the range of i.
Anything outside this shape makes the run undecided and S-asc then reports the helper as before.
"""
import bitsem
from bitsem import (Interp, State, BV, Lin, Ref, Adt, Tup, Opaque, Undecided, Panic, lin_parts, mklin, add, sub, lin_range, bf_atom)
from framesem import FrameInterp, FrameState
import scansem


class MaskSuf(object):
    """the original mask value `bv` with its first p positions (MSB first) cleared"""
    __slots__ = ("p", "bv")

    def __init__(self, p, bv):
        self.p, self.bv = p, bv

    def gen_with(self, o):
        if isinstance(o, MaskSuf) and o.bv.bits == self.bv.bits:
            g = scansem._gen(self.p, o.p)
            return scansem.POISON if g is scansem.POISON else MaskSuf(g, self.bv)
        return scansem.POISON

    def shifted(self, d):
        return MaskSuf(scansem._shift(self.p, d), self.bv)

    def at_zero(self):
        return MaskSuf(scansem._at_zero(self.p), self.bv)

    def same(self, o):
        return isinstance(o, MaskSuf) and o.bv.bits == self.bv.bits and lin_parts(o.p) == lin_parts(self.p)

    def __repr__(self):
        return "mask[first %s positions cleared]" % (self.p,)


class OneHot(object):
    __slots__ = ("pos", "w", "inverted")

    def __init__(self, pos, w, inverted=False):
        self.pos, self.w, self.inverted = pos, w, inverted


class MaskTest(object):
    """unknown truth of  mask == 0  (neg: != 0)"""
    __slots__ = ("m", "neg")

    def __init__(self, m, neg):
        self.m, self.neg = m, neg


class VecAbs(object):
    """Pre(prefix) followed by the explicitly pushed elements `extra`"""

    def __init__(self, prefix, extra, cap):
        self.prefix, self.extra, self.cap = prefix, list(extra), cap

    def gen_with(self, o):
        if isinstance(o, VecAbs) and o.cap == self.cap and len(o.extra) == len(self.extra) == 0:
            g = scansem._gen(self.prefix, o.prefix)
            return scansem.POISON if g is scansem.POISON else VecAbs(g, [], self.cap)
        return scansem.POISON

    def shifted(self, d):
        return VecAbs(scansem._shift(self.prefix, d), [scansem._shift(x, d) for x in self.extra], self.cap)

    def at_zero(self):
        return VecAbs(scansem._at_zero(self.prefix), [scansem._at_zero(x) for x in self.extra], self.cap)

    def same(self, o):
        return isinstance(o, VecAbs) and o.cap == self.cap and lin_parts(o.prefix) == lin_parts(self.prefix) and len(o.extra) == len(self.extra) and \
            all(scansem._same(x, y) for x, y in zip(self.extra, o.extra))

    def __repr__(self):
        return "Pre(%s)%s" % (self.prefix, (" ++ %s" % ([scansem._show(x) for x in self.extra],)) if self.extra else "")


class ConstVec(object):
    """a fixed list of symbolic identifiers (the satellite / signal id lists inside cell_mask_id_vec)"""

    def __init__(self, tag, n):
        self.tag, self.n = tag, n


def last_live_position(bv):
    """the last MSB-first position whose bit is not the constant 0 (-1 if none)"""
    w = len(bv.bits)
    for j in range(w - 1, -1, -1):
        if bv.bits[w - 1 - j] != 0:
            return j
    return -1


class BitScanInterp(FrameInterp):
    def __init__(self, prog, f, header, elem, hooks=None):
        FrameInterp.__init__(self, prog, f)
        self.header = header
        self.elem = elem               # position (lin) -> abstract element expected for it
        self.hooks = hooks or {}
        self.arrivals = []

    def stop_at(self, st, b):
        if b == self.header:
            self.arrivals.append(st)
            return True
        return False

    def on_resume(self, st):
        bitsem.QMAX = getattr(st, "qmax", bitsem.QMAX)

    def to_int(self, v):
        if isinstance(v, BV):
            c = v.concrete()
            if c is not None:
                return c
        return v

    def as_mask(self, st, v):
        if isinstance(v, MaskSuf):
            return v
        if isinstance(v, BV) and v.concrete() is None:
            return MaskSuf(0, v)
        return None

    # ---- comparisons of the mask with zero
    def compare(self, op, x, y):
        for a, b in ((x, y), (y, x)):
            m = self.as_mask(None, a)
            bz = b.concrete() if isinstance(b, BV) else b
            if m is not None and bz == 0 and op in ("Eq", "Ne"):
                return MaskTest(m, op == "Ne")
        if isinstance(x, (MaskSuf, OneHot)) or isinstance(y, (MaskSuf, OneHot)):
            raise Undecided("comparison of the scanned mask with something other than zero")
        return Interp.compare(self, op, self.to_int(x), self.to_int(y))

    def mask_known(self, st, m):
        """True: known nonzero, False: known zero, None"""
        j = last_live_position(m.bv)
        lo, hi = lin_range(m.p)
        if lo > j:
            return False
        f = getattr(st, "mfact", None)
        if f is not None and f[1] == m.bv.bits and lin_parts(f[2]) == lin_parts(m.p):
            return f[0] == "nonzero"
        return None

    def fork_switch(self, st, d):
        """outcomes of a branch on a MaskTest: [(value of the discriminant, state mutation)]"""
        if not isinstance(d, MaskTest):
            return None
        k = self.mask_known(st, d.m)
        if k is not None:
            truth = (k is True) if d.neg else (k is False)
            return [(1 if truth else 0, lambda s2: None)]
        m = d.m

        def nz(s2):
            s2.mfact = ("nonzero", m.bv.bits, m.p)

        def z(s2):
            s2.mfact = ("zero", m.bv.bits, m.p)
        return [(1 if d.neg else 0, nz), (0 if d.neg else 1, z)]

    def binop(self, st, op, x, y, tya, dest_ty):
        wo = op.endswith("WithOverflow")
        base = op[:-12] if wo else op
        if base in ("Eq", "Ne", "Lt", "Le", "Gt", "Ge"):
            return self.compare(base, x, y)
        x, y = self.to_int(x), self.to_int(y)
        if base == "Shl" and x == 1 and isinstance(y, Lin) and not isinstance(x, bool):
            tb = bitsem.ty_bits(tya) or (64, False)
            lo, hi = lin_range(y)
            if lo < 0 or hi >= tb[0]:
                raise Panic("shift of a %d-bit one by %s" % (tb[0], y))
            return OneHot(sub(tb[0] - 1, y), tb[0])
        if base in ("BitAnd", "BitXor", "Sub") and (isinstance(x, (MaskSuf, BV)) and isinstance(y, OneHot) or isinstance(y, (MaskSuf, BV)) and isinstance(x, OneHot)):
            mv, oh = (x, y) if isinstance(y, OneHot) else (y, x)
            if base == "Sub" and mv is not x:
                raise Undecided("one-hot minus mask")
            m = self.as_mask(st, mv)
            if m is None:
                raise Undecided("bit operation on a concrete value and a symbolic position")
            if base == "BitAnd" and not oh.inverted:
                raise Undecided("the mask is reduced to a single bit")
            if base in ("BitXor", "Sub"):
                if oh.inverted:
                    raise Undecided("xor / subtraction with an inverted one-hot value")
                # clears the bit only when it is known to be set
                bs = getattr(st, "bit_set", None)
                if bs is None or lin_parts(bs) != lin_parts(oh.pos):
                    raise Undecided("a bit is toggled that is not known to be set")
            if len(m.bv.bits) != oh.w:
                raise Undecided("mask and one-hot value of different widths")
            d = lin_parts(sub(oh.pos, m.p))
            if d == (0, 0):
                r = MaskSuf(add(m.p, 1), m.bv)
            elif lin_parts(m.p) == (0, 0) and getattr(st, "raw_first", None) == m.bv.bits and lin_parts(oh.pos) == (1, 0):
                r = MaskSuf(Lin(1, 1), m.bv)       # the original, whose first set bit is at the position just found, with that bit cleared
            else:
                lo, hi = lin_range(sub(oh.pos, m.p))
                if hi < 0:
                    r = m              # the bit is already in the cleared prefix
                else:
                    raise Undecided("a bit behind the first uncleared position is cleared")
            return Tup([r, 0]) if wo else r
        if isinstance(x, (MaskSuf, OneHot)) or isinstance(y, (MaskSuf, OneHot)):
            raise Undecided("arithmetic %s on the scanned mask" % base)
        if base in ("Div", "Rem") and isinstance(x, Lin) and isinstance(y, int) and not isinstance(y, bool) and y > 0:
            lo, hi = lin_range(x)
            if lo < 0:
                raise Undecided("division of a possibly negative position")
            return Opaque("div" if base == "Div" else "rem", (lin_parts(x), y))
        return FrameInterp.binop(self, st, op, x, y, tya, dest_ty)

    def rvalue(self, st, rv, dest_place):
        if rv["k"] == "unop" and rv.get("op") == "Not":
            v = self.operand(st, rv.get("a") or rv.get("arg") or rv.get("operand"))
            if isinstance(v, OneHot):
                return OneHot(v.pos, v.w, not v.inverted)
            if isinstance(v, MaskTest):
                return MaskTest(v.m, not v.neg)
        return FrameInterp.rvalue(self, st, rv, dest_place)

    def cast(self, v, src_ty, dst_ty):
        if isinstance(v, (MaskSuf, OneHot)):
            raise Undecided("cast of the scanned mask")
        return FrameInterp.cast(self, v, src_ty, dst_ty)

    def _vec(self, st, r):
        v = self._get(st, r.loc) if isinstance(r, Ref) else r
        return v

    def call(self, st, t):
        c = t.get("resolved") or t["callee"]
        short = c.rsplit("::", 1)[-1]
        if c in self.hooks:
            return self.hooks[c](self, st, t)
        if c == "tinyvec::ArrayVec::<A>::new":
            import libmodel
            return VecAbs(0, [], libmodel.capacity_of_type(self.place_ty(t["dest"])))
        if bitsem.re.fullmatch(r"core::num::<impl u(8|16|32|64)>::leading_zeros", c):
            v = self.operand(st, t["args"][0])
            m = self.as_mask(st, v)
            if m is None:
                raise Undecided("leading_zeros of something that is not the scanned mask")
            if self.mask_known(st, m) is not True:
                raise Undecided("leading_zeros of a mask that is not known to be nonzero on this path")
            return self.rebase(st, m)
        if c == "tinyvec::ArrayVec::<A>::push":
            args = [self.operand(st, a) for a in t["args"]]
            v = self._vec(st, args[0])
            if not isinstance(v, VecAbs):
                raise Undecided("push onto something that is not the output vector")
            lo, hi = lin_range(v.prefix)
            if v.cap is None or hi + len(v.extra) >= v.cap:
                raise Panic("push onto a possibly full vector (at most %s + %d elements, capacity %s)" % (v.prefix, len(v.extra), v.cap))
            v.extra.append(args[1])
            self.normalise(st, v)
            return bitsem.UNIT
        if c == "tinyvec::ArrayVec::<A>::len":
            v = self._vec(st, self.operand(st, t["args"][0]))
            if isinstance(v, ConstVec):
                return v.n
            raise Undecided("length of the output vector")
        if c == "<tinyvec::ArrayVec<A> as core::ops::Index<I>>::index":
            args = [self.operand(st, a) for a in t["args"]]
            v = self._vec(st, args[0])
            i = args[1]
            if isinstance(v, ConstVec) and isinstance(i, Opaque) and i.tag in ("div", "rem"):
                (a, c_), k = i.args
                lo, hi = lin_range(mklin(a, c_))
                top = hi // k if i.tag == "div" else k - 1
                if top >= v.n:
                    raise Panic("index %s of a list of %d" % (i.tag, v.n))
                slot = -600 - (abs(hash((v.tag, i.tag, i.args))) % 100)
                st.locals[slot] = Opaque("elem", (v.tag, i.tag, i.args))
                return Ref(("local", slot, (), st.frame))
            raise Undecided("index into a list by an unmodelled value")
        if c.startswith("core::panicking::"):
            raise Panic("call of %s" % c)
        return FrameInterp.call(self, st, t)

    def rebase(self, st, m):
        """i = leading_zeros(mask): the first set position at or after m.p; the position variable now denotes i"""
        pa, pc = lin_parts(m.p)
        top = last_live_position(m.bv)

        def conv(v, depth=0):
            if isinstance(v, MaskSuf):
                if v.bv.bits == m.bv.bits and lin_parts(v.p) == (pa, pc):
                    return MaskSuf(Lin(1, 0), v.bv)
                return None
            if isinstance(v, BV) and v.bits == m.bv.bits:
                return v          # the untouched original (position 0); what is known about it is kept in st.raw_first
            if isinstance(v, VecAbs):
                if lin_parts(v.prefix) == (pa, pc) and not v.extra:
                    return VecAbs(Lin(1, 0), [], v.cap)
                return None
            if isinstance(v, Lin):
                return None
            if isinstance(v, (Tup, Adt)):
                fs = [conv(x, depth + 1) for x in v.fields]
                if any(x is None for x in fs):
                    return None
                v.fields = fs
                return v
            if scansem._mentions_q(v):
                return None
            return v
        seen_frames = set()
        for frame in list(st.frames.values()) + [st.locals]:
            if id(frame) in seen_frames:
                continue
            seen_frames.add(id(frame))
            for k in list(frame.keys()):
                nv = conv(frame[k])
                if nv is None:
                    del frame[k]
                else:
                    frame[k] = nv
        st.mfact = ("nonzero", m.bv.bits, Lin(1, 0))
        st.raw_first = m.bv.bits if (pa, pc) == (0, 0) else None      # the untouched original has its first set bit at the new position
        st.bit_set = Lin(1, 0)
        st.qmax = top
        bitsem.QMAX = top
        return Lin(1, 0)

    def normalise(self, st, v):
        """Pre(p) ++ [elem(p)] with bit p known set  =  Pre(p+1)"""
        bs = getattr(st, "bit_set", None)
        if len(v.extra) == 1 and bs is not None and lin_parts(bs) == lin_parts(v.prefix):
            want = self.elem(v.prefix)
            if scansem._same(want, self.resolve_elem(st, v.extra[0])):
                v.prefix = add(v.prefix, 1)
                v.extra = []
                st.bit_set = None
                st.pushed = getattr(st, "pushed", 0) + 1

    def resolve_elem(self, st, e):
        if isinstance(e, BV) and e.concrete() is not None:
            return e.concrete()
        if isinstance(e, Tup):
            return Tup([self.resolve_elem(st, x) for x in e.fields])
        return e


class _Driver(BitScanInterp):
    """run(): FrameInterp.run with a fork on MaskTest discriminants"""

    def run(self, st, start=0):
        work = [(st, start)]
        first = True
        steps = 0
        while work:
            st, b = work.pop()
            self.on_resume(st)
            while True:
                steps += 1
                if steps > 5000:
                    raise Undecided("abstract execution does not terminate within 5000 blocks")
                if not first and self.stop_at(st, b):
                    break
                first = False
                blk = self.blocks[b]
                for s in blk["stmts"]:
                    if s["k"] != "assign":
                        continue
                    self.line = s.get("line")
                    v = self.rvalue(st, s["rv"], s["place"])
                    self._set(st, self.resolve(st, s["place"]), v)
                t = blk["term"]
                self.line = t.get("line", self.line)
                k = t["k"]
                if k == "goto":
                    b = t["target"]
                    continue
                if k == "return":
                    self.results.append((st, st.locals.get(0)))
                    break
                if k == "assert":
                    c = self.operand(st, t["cond"])
                    if isinstance(c, BV):
                        c = c.concrete()
                    if not isinstance(c, int):
                        raise Undecided("assert %s on an undecided value" % t["kind"])
                    if bool(c) != bool(t["expected"]):
                        raise Panic("%s" % t["kind"])
                    b = t["target"]
                    continue
                if k == "switch":
                    d = self.operand(st, t["discr"])
                    outs = self.fork_switch(st, d)
                    if outs is not None:
                        if len(outs) == 1:
                            b = self.arm(t, outs[0][0])
                            continue
                        for val, fn in outs:
                            s2 = st.clone()
                            fn(s2)
                            work.append((s2, self.arm(t, val)))
                        break
                    if isinstance(d, BV):
                        d = d.concrete()
                    if not isinstance(d, int):
                        raise Undecided("branch on an unmodelled value")
                    b = self.arm(t, d)
                    continue
                if k == "call":
                    r = self.call(st, t)
                    self._set(st, self.resolve(st, t["dest"]), r)
                    if t["target"] is None:
                        raise Undecided("diverging call")
                    b = t["target"]
                    continue
                if k == "drop":
                    b = t["target"]
                    continue
                if k == "unreachable":
                    raise Undecided("reached an `unreachable` terminator")
                raise Undecided("terminator " + k)
            if len(work) > 32:
                raise Undecided("more than 32 abstract paths")


# hooks into scansem's generic state helpers
def _install():
    if getattr(scansem, "_bitscan_hooks", False):
        return
    g0, s0, z0, e0, h0 = scansem._gen, scansem._shift, scansem._at_zero, scansem._same, scansem._has_poison

    def gen(a, b):
        if isinstance(a, BV) and isinstance(b, MaskSuf) and a.bits == b.bv.bits:
            a = MaskSuf(0, a)
        if hasattr(a, "gen_with"):
            return a.gen_with(b)
        if isinstance(a, ConstVec):
            return a if isinstance(b, ConstVec) and (a.tag, a.n) == (b.tag, b.n) else scansem.POISON
        return g0(a, b)

    def shift(v, d):
        if hasattr(v, "shifted"):
            return v.shifted(d)
        return s0(v, d)

    def at_zero(v):
        if hasattr(v, "at_zero"):
            return v.at_zero()
        return z0(v)

    def same(a, b, depth=0):
        if isinstance(a, MaskSuf) and isinstance(b, BV):
            return lin_parts(a.p) == (0, 0) and a.bv.bits == b.bits
        if isinstance(b, MaskSuf) and isinstance(a, BV):
            return lin_parts(b.p) == (0, 0) and b.bv.bits == a.bits
        if hasattr(a, "same"):
            return a.same(b)
        if isinstance(a, ConstVec):
            return isinstance(b, ConstVec) and (a.tag, a.n) == (b.tag, b.n)
        return e0(a, b, depth)
    scansem._gen, scansem._shift, scansem._at_zero, scansem._same = gen, shift, at_zero, same
    scansem._bitscan_hooks = True


def _induction(prog, f, bv_args, elem, hooks, judge, maxpos):
    """common driver: returns (problems, paths, form) or raises Undecided / Panic"""
    _install()
    loops = f.loops()
    if len(loops) != 1:
        raise Undecided("the helper has %d loops" % len(loops))
    header = list(loops.keys())[0]
    saved = (bitsem.QMIN, bitsem.QMAX)
    problems = []
    try:
        bitsem.QMIN, bitsem.QMAX = 0, maxpos + 1
        # phase 0
        it0 = _Driver(prog, f, header, elem, hooks)
        st = FrameState()
        st.qmax = maxpos + 1
        for i, v in bv_args.items():
            st.locals[i] = v
        it0.run(st)
        for fin, ret in it0.results:
            judge(it0, fin, ret, problems, "before the loop")
        if not it0.arrivals:
            return problems, len(it0.results), "the loop is not reached"
        S0 = it0.arrivals[0]
        # phase 1
        it1 = _Driver(prog, f, header, elem, hooks)
        s1 = S0.clone()
        s1.qmax = maxpos + 1
        it1.run(s1, start=header)
        if not it1.arrivals:
            raise Undecided("no path of the loop body returns to the loop head")
        S1 = it1.arrivals[0]
        G = {}
        moved = []
        scansem._GEN_MEMO.clear()
        for k in S0.locals:
            if k in S1.locals:
                g = scansem._gen(S0.locals[k], S1.locals[k])
                if not scansem._has_poison(g) and g is not scansem.POISON:
                    G[k] = g
                    if not scansem._same(g, S0.locals[k]):
                        moved.append(k)
        if not moved:
            raise Undecided("no loop-carried position found")
        for k, g in G.items():
            if not scansem._same(scansem._at_zero(g), S0.locals[k]):
                raise Undecided("generalised state does not start at the entry state (local _%d)" % k)
        # phase 2
        bitsem.QMAX = maxpos + 1
        it2 = _Driver(prog, f, header, elem, hooks)
        sk = FrameState()
        sk.qmax = maxpos + 1
        memo = {}
        sk.locals = {k: bitsem._copy_val(v, memo) for k, v in G.items()}
        sk.frames = {0: sk.locals}
        it2.run(sk, start=header)
        for fin, ret in it2.results:
            judge(it2, fin, ret, problems, "after the loop")
        if not it2.arrivals:
            problems.append("no path continues the scan after a set bit was handled")
        for arr in it2.arrivals:
            bitsem.QMAX = getattr(arr, "qmax", maxpos + 1)
            bad = [k for k, g in G.items() if k not in arr.locals or not scansem._same(scansem._shift(g, 1), arr.locals[k])]
            if bad:
                problems.append("after handling the first set position i the loop state _%d is %s, expected %s (element pushed for position i, "
                                "bit i cleared, nothing else)" % (bad[0], scansem._show(arr.locals.get(bad[0])), scansem._show(scansem._shift(G[bad[0]], 1))))
        return problems, len(it2.results) + len(it2.arrivals) + len(it0.results), "bit scan, loop-carried: " + ", ".join("_%d" % k for k in sorted(moved))
    finally:
        bitsem.QMIN, bitsem.QMAX = saved


def check_idvec(prog, path, n):
    """(True | False | None, detail) like guardsem.check_idvec, for the bit-scan form"""
    f = prog.fn(path)
    if f is None:
        return None, "not found"
    bv = BV([bf_atom(("M", k)) for k in range(n)], False)

    def elem(p):
        return add(p, 1)

    def judge(it, fin, ret, problems, where):
        if not isinstance(ret, VecAbs):
            problems.append("%s: the result is not the output vector" % where)
            return
        if ret.extra:
            problems.append("%s: the vector ends with %s, which is not the identifier of a set bit in its place" % (where, [scansem._show(x) for x in ret.extra]))
            return
        f_ = getattr(fin, "mfact", None)
        done = (f_ is not None and f_[0] == "zero" and f_[1] == bv.bits and lin_parts(f_[2]) == lin_parts(ret.prefix)) or lin_range(ret.prefix)[0] >= n
        if not done:
            problems.append("%s: returns the identifiers of the first %s positions only, without knowing that no later bit is set" % (where, ret.prefix))
    try:
        problems, paths, form = _induction(prog, f, {1: bv}, elem, {}, judge, n - 1)
    except Undecided as e:
        return None, "bit-scan induction: %s" % e
    except Panic as e:
        return False, "can panic: %s" % e
    except (AttributeError, TypeError, KeyError, IndexError, ValueError) as e:
        return None, "bit-scan induction: internal %r" % (e,)
    if problems:
        return False, "; ".join(problems[:3])
    return True, "result = [id for id in 1..=%d if mask bit (%d - id)] in ascending order (induction on the cleared prefix: %s; %d paths)" % (n, n, form, paths)


def check_cellvec(prog):
    """(True | False | None, detail, partitions)"""
    f = prog.fn("msg::cell_mask_id_vec")
    if f is None:
        return None, "not found", 0
    nparts = 0
    for a in range(0, 65):
        for b in range(0, 33):
            n = a * b
            S, G_ = ConstVec("S", a), ConstVec("G", b)
            hooks = {"msg::mask_to_id_vec_u64": lambda self, st, t, S=S: S, "msg::mask_to_id_vec_u32": lambda self, st, t, G_=G_: G_}
            cm = BV([bf_atom(("C", k)) for k in range(64)], False)
            args = {1: BV([bf_atom(("SM", k)) for k in range(64)], False), 2: BV([bf_atom(("GM", k)) for k in range(32)], False), 3: cm}

            def elem(p, b=b):
                pp = lin_parts(p)
                return Tup([Opaque("elem", ("S", "div", (pp, b))), Opaque("elem", ("G", "rem", (pp, b)))])

            def judge(it, fin, ret, problems, where, a=a, b=b, n=n):
                if n == 0 or n > 64:
                    if not (isinstance(ret, Adt) and ret.vname == "None"):
                        problems.append("|S|=%d, |G|=%d: expected None" % (a, b))
                    return
                if not (isinstance(ret, Adt) and ret.vname == "Some" and isinstance(ret.fields[0], Tup) and len(ret.fields[0].fields) == 2):
                    problems.append("|S|=%d, |G|=%d: expected Some((satellites, cells))" % (a, b))
                    return
                sv, cv = ret.fields[0].fields
                if not (isinstance(sv, ConstVec) and sv.tag == "S"):
                    problems.append("|S|=%d, |G|=%d: the first component is not the satellite id list" % (a, b))
                if not isinstance(cv, VecAbs) or cv.extra:
                    problems.append("|S|=%d, |G|=%d: the cell list is %s" % (a, b, scansem._show(cv)))
                    return
                f_ = getattr(fin, "mfact", None)
                done = (f_ is not None and f_[0] == "zero" and lin_parts(f_[2]) == lin_parts(cv.prefix)) or lin_range(cv.prefix)[0] >= n
                # the scanned value must be the cell mask left-aligned: position j <-> cell-mask bit n-1-j
                if f_ is not None:
                    want = tuple([0] * (64 - n) + [bf_atom(("C", k)) for k in range(n)])
                    if tuple(f_[1]) != want:
                        problems.append("|S|=%d, |G|=%d: the scanned value is not the cell mask aligned so that cell i is position i" % (a, b))
                if not done:
                    problems.append("|S|=%d, |G|=%d: returns the cells of the first %s positions only" % (a, b, cv.prefix))
            try:
                problems, paths, form = _induction(prog, f, args, elem, hooks, judge, max(n, 1) - 1 if n <= 64 else 63)
            except Undecided as e:
                return None, "bit-scan induction (|S|=%d, |G|=%d): %s" % (a, b, e), nparts
            except Panic as e:
                return False, "|S|=%d, |G|=%d: can panic: %s" % (a, b, e), nparts
            except (AttributeError, TypeError, KeyError, IndexError, ValueError) as e:
                return None, "bit-scan induction (|S|=%d, |G|=%d): internal %r" % (a, b, e), nparts
            nparts += 1
            if problems:
                return False, "|S|=%d, |G|=%d: " % (a, b) + "; ".join(problems[:2]), nparts
    return True, "cells are rebuilt row-major under cell-mask bit |S||G|-1-i for every (|S|, |G|) with product 1..=64; None otherwise " \
                 "(induction on the cleared prefix, %d partitions)" % nparts, nparts
