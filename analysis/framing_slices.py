"""Slice-expression recognition shared by the framing rules and the library model."""
from terms import T

INDEX = "core::slice::index::<impl core::ops::Index<I> for [T]>::index"
INDEX_MUT = "core::slice::index::<impl core::ops::IndexMut<I> for [T]>::index_mut"


def strip_ref(t):
    """&*x, *&x ... -> x (object or value level)."""
    while isinstance(t, T) and t.op in ("ref", "mem", "memval"):
        t = t.args[0]
    return t


def as_slice(t):
    """Term of a sub-slice expression -> (base object term, lo, hi, kind) ; lo/hi are terms or None."""
    x = strip_ref(t)
    if x.op == "call" and x.args[0] in (INDEX, INDEX_MUT, "core::array::<impl core::ops::Index<I> for [T; N]>::index",
                                         "core::array::<impl core::ops::IndexMut<I> for [T; N]>::index_mut") and len(x.args[1]) == 2:
        base = strip_ref(x.args[1][0])
        r = x.args[1][1]
        if r.op == "agg":
            name = r.args[0].rsplit("::", 1)[1]
            ops = r.args[3]
            if name == "Range":
                return (base, ops[0], ops[1], "Range")
            if name == "RangeTo":
                return (base, None, ops[0], "RangeTo")
            if name == "RangeFrom":
                return (base, ops[0], None, "RangeFrom")
            if name == "RangeFull":
                return (base, None, None, "RangeFull")
    return None


