"""Hand-written contracts of external (core / tinyvec / crc-any) functions and of a few crate helpers.

Each entry is one line with its reason.  Pinned to the versions in /repo/Cargo.lock
(tinyvec 1.13.3, crc-any 2.5.1) and the nightly core; engine reports a note when the lock differs.
"""
import re
from terms import T, mk, is_const, const_val, ty_of, show
from facts import int_range, callee_of

ISIZE_MAX = (1 << 63) - 1

# ---- functions that may panic, with the condition under which they do ---------------------------
#   value: (kind, description).  kind drives which discharge rule applies.
PANICS = {
    "tinyvec::ArrayVec::<A>::push": ("push", "panics iff len == CAPACITY"),
    "tinyvec::ArrayVec::<A>::set_len": ("set_len", "panics iff new_len > CAPACITY"),
    "tinyvec::ArrayVec::<A>::extend_from_slice": ("extend", "panics iff len + slice.len() > CAPACITY"),
    "tinyvec::ArrayVec::<A>::remove": ("index", "panics iff index >= len"),
    "<tinyvec::ArrayVec<A> as core::ops::Index<I>>::index": ("index", "slice indexing: panics iff out of bounds"),
    "<tinyvec::ArrayVec<A> as core::ops::IndexMut<I>>::index_mut": ("index", "slice indexing: panics iff out of bounds"),
    "core::slice::index::<impl core::ops::Index<I> for [T]>::index": ("slice", "panics unless start <= end <= len"),
    "core::slice::index::<impl core::ops::IndexMut<I> for [T]>::index_mut": ("slice", "panics unless start <= end <= len"),
    "core::array::<impl core::ops::Index<I> for [T; N]>::index": ("slice", "panics unless start <= end <= N"),
    "core::array::<impl core::ops::IndexMut<I> for [T; N]>::index_mut": ("slice", "panics unless start <= end <= N"),
    "core::option::Option::<T>::unwrap": ("unwrap", "panics iff None"),
    "core::option::Option::<T>::expect": ("unwrap", "panics iff None"),
    "core::result::Result::<T, E>::unwrap": ("unwrap_res", "panics iff Err"),
    "core::result::Result::<T, E>::expect": ("unwrap_res", "panics iff Err"),
    "core::panicking::panic": ("panic", "always panics"),
    "core::panicking::panic_fmt": ("panic", "always panics"),
    "core::panicking::panic_explicit": ("panic", "always panics"),
    "core::panicking::unreachable_display": ("panic", "always panics"),
    "core::slice::<impl [T]>::sort_unstable_by": ("sort", "may panic only if the comparator is not a total order (or panics itself)"),
    "core::slice::<impl [T]>::sort_by": ("sort", "may panic only if the comparator is not a total order"),
    "core::slice::<impl [T]>::sort_unstable_by_key": ("sort", "orders by Ord of the key: may panic only if the key function panics or the key's Ord is not total"),
    "core::slice::<impl [T]>::sort_by_key": ("sort", "orders by Ord of the key: may panic only if the key function panics or the key's Ord is not total"),
    "core::char::methods::<impl char>::encode_utf8": ("encode_utf8", "panics iff the buffer is shorter than len_utf8 (<= 4)"),
}

# ---- functions known not to panic and to terminate (no obligations) ---------------------------------
SAFE = {
    "<core::result::Result<T, E> as core::ops::Try>::branch",
    "<core::option::Option<T> as core::ops::Try>::branch",
    "<core::option::Option<T> as core::ops::FromResidual<core::option::Option<core::convert::Infallible>>>::from_residual",
    "<core::result::Result<T, F> as core::ops::FromResidual<core::result::Result<core::convert::Infallible, E>>>::from_residual",
    "<I as core::iter::IntoIterator>::into_iter",
    "<&tinyvec::ArrayVec<A> as core::iter::IntoIterator>::into_iter",
    "<tinyvec::ArrayVec<A> as core::iter::IntoIterator>::into_iter",
    "<core::slice::IterMut<'a, T> as core::iter::Iterator>::next", "<core::slice::IterMut<T> as core::iter::Iterator>::next",
    "<core::slice::Iter<'a, T> as core::iter::Iterator>::next", "<core::slice::Iter<T> as core::iter::Iterator>::next",
    "core::iter::range::<impl core::iter::Iterator for core::ops::Range<A>>::next",
    "core::iter::range::<impl core::iter::Iterator for core::ops::RangeInclusive<A>>::next",
    "core::ops::RangeInclusive::<Idx>::new",
    "<tinyvec::ArrayVecIterator<A> as core::iter::Iterator>::next",
    "<core::iter::Enumerate<I> as core::iter::Iterator>::next",
    "<core::iter::Filter<I, P> as core::iter::Iterator>::next", "<core::iter::Filter<I, P> as core::iter::Iterator>::count",
    "<core::iter::Skip<I> as core::iter::Iterator>::next", "<core::iter::Take<I> as core::iter::Iterator>::next",
    "<core::iter::Zip<A, B> as core::iter::Iterator>::next", "<core::iter::Rev<I> as core::iter::Iterator>::next",
    "<core::iter::Copied<I> as core::iter::Iterator>::next", "<core::iter::Cloned<I> as core::iter::Iterator>::next",
    "<core::iter::Map<I, F> as core::iter::Iterator>::next",
    "<core::str::Chars as core::iter::Iterator>::next", "<core::str::Chars as core::iter::Iterator>::count",
    "<core::str::Bytes as core::iter::Iterator>::next", "<core::str::Bytes as core::iter::ExactSizeIterator>::len",
    "core::iter::Iterator::enumerate", "core::iter::Iterator::skip", "core::iter::Iterator::take", "core::iter::Iterator::filter",
    "core::iter::Iterator::map", "core::iter::Iterator::collect", "core::iter::Iterator::count",
    "core::slice::<impl [T]>::len", "core::slice::<impl [T]>::iter", "core::slice::<impl [T]>::iter_mut",
    "core::str::<impl str>::len", "core::str::<impl str>::chars", "core::str::<impl str>::bytes", "core::str::<impl str>::as_bytes",
    "core::str::from_utf8", "core::char::methods::<impl char>::len_utf8", "core::char::methods::<impl char>::from_u32",
    "core::char::convert::<impl core::convert::From<u8> for char>::from",
    "core::num::NonZero::<T>::new", "core::num::NonZero::<T>::get", "core::char::convert::<impl core::convert::TryFrom<char> for u8>::try_from",
    "tinyvec::ArrayVec::<A>::len", "tinyvec::ArrayVec::<A>::new", "tinyvec::ArrayVec::<A>::capacity", "tinyvec::ArrayVec::<A>::clear",
    "tinyvec::ArrayVec::<A>::iter", "tinyvec::ArrayVec::<A>::iter_mut", "tinyvec::ArrayVec::<A>::pop",
    "tinyvec::ArrayVec::<A>::as_slice", "tinyvec::ArrayVec::<A>::as_mut_slice",
    "<tinyvec::ArrayVec<A> as core::ops::Deref>::deref", "<tinyvec::ArrayVec<A> as core::ops::DerefMut>::deref_mut",
    "<tinyvec::ArrayVec<A> as core::clone::Clone>::clone", "<tinyvec::ArrayVec<A> as core::default::Default>::default",
    "<tinyvec::ArrayVec<A> as core::cmp::PartialEq>::eq",
    "core::option::Option::<T>::is_none", "core::option::Option::<T>::is_some", "core::result::Result::<T, E>::is_err",
    "core::result::Result::<T, E>::is_ok", "core::result::Result::<T, E>::ok",
    "core::cmp::impls::<impl core::cmp::Ord for u8>::cmp", "core::cmp::impls::<impl core::cmp::Ord for char>::cmp",
    "core::cmp::impls::<impl core::cmp::PartialOrd for u8>::partial_cmp",
    "core::default::Default::default",
    "core::array::<impl core::default::Default for [T; core::::array::{impl#49}::{constant#0}]>::default",
    "crc_any::CRC::crc24lte_a", "crc_any::CRC::digest", "crc_any::CRC::get_crc",
    "core::clone::Clone::clone", "core::intrinsics::discriminant_value",
}

SAFE_PATTERNS = [
    # derived / primitive comparisons of core types: total (the element comparisons are primitive or crate functions inventoried on their own)
    re.compile(r"<core::(result::Result<T, E>|option::Option<T>|cmp::Reverse<T>) as core::cmp::(Ord|PartialOrd|PartialEq)>::(cmp|partial_cmp|eq|ne|lt|le|gt|ge)"),
    re.compile(r"core::cmp::Reverse"),
    re.compile(r"core::slice::iter::<impl core::iter::IntoIterator for &(mut )?\[T\]>::into_iter"),   # = slice.iter(): pure

    re.compile(r"core::num::<impl [iu](8|16|32|64|128|size)>::wrapping_(add|sub|neg|mul|shl|shr)"),
    re.compile(r"core::num::<impl [iu](8|16|32|64|128|size)>::(saturating|checked|overflowing)_(add|sub|mul|neg)"),
    re.compile(r"core::num::<impl [iu](8|16|32|64|128|size)>::(count_ones|count_zeros|leading_zeros|trailing_zeros|min|max)"),
    re.compile(r"core::num::<impl [iu](8|16|32|64|128|size)>::(from|to)_(be|le|ne)_bytes"),
    # total functions of core: they return for every argument (closure arguments are crate functions and are inventoried on
    # their own; iterator adaptors over finite iterators terminate)
    re.compile(r"core::slice::<impl \[T\]>::(fill|first|last|first_mut|last_mut|get|get_mut|is_empty|contains|starts_with|ends_with|split_first|split_last|reverse|iter|iter_mut)"),
    re.compile(r"core::option::Option::<T>::(ok_or|ok_or_else|map|map_or|map_or_else|and_then|or|or_else|unwrap_or|unwrap_or_else|unwrap_or_default|filter|copied|cloned|as_ref|as_mut|take|is_some_and|is_none_or|xor|zip|iter)"),
    re.compile(r"core::result::Result::<T, E>::(map|map_or|map_or_else|map_err|and_then|or_else|unwrap_or|unwrap_or_else|unwrap_or_default|ok|err|as_ref|as_mut|is_ok_and|is_err_and|iter)"),
    re.compile(r"core::ops::(Range|RangeInclusive|RangeFrom|RangeTo|RangeToInclusive)::<Idx>::(contains|is_empty|start|end)"),
    re.compile(r"core::str::(error::)?Utf8Error::(valid_up_to|error_len)"),    # field accessors
    re.compile(r"core::tuple::<impl core::cmp::(PartialEq|Eq|PartialOrd|Ord) for \([A-Z, ]+\)>::(eq|ne|cmp|partial_cmp|lt|le|gt|ge)"),   # field-wise on primitives
    re.compile(r"core::cmp::(min|max|Ord::min|Ord::max|PartialOrd::(lt|le|gt|ge)|PartialEq::(eq|ne))"),
    re.compile(r"core::cmp::impls::<impl core::cmp::(Ord|PartialOrd|PartialEq) for ([iu](8|16|32|64|128|size)|char|bool)>::(cmp|partial_cmp|eq|ne|lt|le|gt|ge|min|max)"),
    re.compile(r"core::iter::Iterator::(position|any|all|find|find_map|filter_map|rev|zip|chain|copied|cloned|last|nth|peekable|take_while|skip_while|map_while|inspect|fuse|flatten|flat_map|for_each|fold|max|min|max_by_key|min_by_key|max_by|min_by|by_ref)"),
    re.compile(r"<core::slice::Iter<('a, )?T> as core::iter::(Iterator|DoubleEndedIterator|ExactSizeIterator)>::(position|rposition|any|all|find|find_map|count|last|nth|len|next_back|for_each|fold)"),
    re.compile(r"<core::slice::IterMut<('a, )?T> as core::iter::(Iterator|DoubleEndedIterator|ExactSizeIterator)>::(position|any|all|find|count|last|nth|len|next_back|for_each|fold)"),
    re.compile(r"core::mem::(swap|replace|take)"),
    re.compile(r"core::bool::<impl bool>::(then|then_some)"),
    re.compile(r"core::char::methods::<impl char>::(is_ascii\w*|to_ascii_\w+|is_alphabetic|is_numeric|is_alphanumeric|is_whitespace|is_control|len_utf16|from_u32)"),
    re.compile(r"core::num::<impl u8>::(is_ascii\w*|to_ascii_\w+)"),
    re.compile(r"core::num::<impl [iu](8|16|32|64|128|size)>::(swap_bytes|reverse_bits|rotate_left|rotate_right|to_be|to_le|from_be|from_le|abs_diff|unsigned_abs|signum|is_positive|is_negative|is_power_of_two)"),
    # lossless integer conversions (From exists only where no value is lost)
    re.compile(r"core::convert::num::<impl core::convert::From<([iu](8|16|32|64|128)|bool)> for [iu](8|16|32|64|128|size)>::from"),
]


def is_safe(callee):
    return callee in SAFE or any(p.fullmatch(callee) for p in SAFE_PATTERNS)


# iterator `next` functions that are finite (terminate after <= len items) - used by T-loop
FINITE_NEXT = {
    "<core::slice::IterMut<'a, T> as core::iter::Iterator>::next", "<core::slice::IterMut<T> as core::iter::Iterator>::next",
    "<core::slice::Iter<'a, T> as core::iter::Iterator>::next", "<core::slice::Iter<T> as core::iter::Iterator>::next",
    "core::iter::range::<impl core::iter::Iterator for core::ops::Range<A>>::next",
    "core::iter::range::<impl core::iter::Iterator for core::ops::RangeInclusive<A>>::next",
    "<tinyvec::ArrayVecIterator<A> as core::iter::Iterator>::next",
    "<core::iter::Enumerate<I> as core::iter::Iterator>::next",
    "<core::iter::Filter<I, P> as core::iter::Iterator>::next",
    "<core::iter::Skip<I> as core::iter::Iterator>::next", "<core::iter::Take<I> as core::iter::Iterator>::next",
    "<core::str::Chars as core::iter::Iterator>::next", "<core::str::Bytes as core::iter::Iterator>::next",
    "<util::Df88591StringChars as core::iter::Iterator>::next",
    "<core::iter::Zip<A, B> as core::iter::Iterator>::next", "<core::iter::Rev<I> as core::iter::Iterator>::next",
    "<core::iter::Copied<I> as core::iter::Iterator>::next", "<core::iter::Cloned<I> as core::iter::Iterator>::next",
    "<core::iter::Map<I, F> as core::iter::Iterator>::next",
}

POSITION = re.compile(r"<core::slice::Iter<('a, )?T> as core::iter::Iterator>::position")
RANGE_NEXT = "core::iter::range::<impl core::iter::Iterator for core::ops::Range<A>>::next"
RANGE_INCL_NEXT = "core::iter::range::<impl core::iter::Iterator for core::ops::RangeInclusive<A>>::next"
INTO_ITER = "<I as core::iter::IntoIterator>::into_iter"


def capacity_of_type(ty):
    """Capacity of DataVec<_, N> / ArrayVec<[T; N]> / Df88591String<N> / ArrayString<N> / [T; N] types."""
    if ty is None:
        return None
    k = ty.get("k")
    if k == "ref":
        return capacity_of_type(ty["to"])
    if k == "array":
        return ty["len"] if isinstance(ty["len"], int) else None
    if k == "adt":
        p = ty["path"]
        if p in ("util::data_vec::DataVec", "util::DataVec"):
            a = ty["args"]
            if len(a) == 2 and a[1].get("k") == "const" and "val" in a[1]:
                return a[1]["val"]
        if p == "tinyvec::ArrayVec":
            a = ty["args"]
            if a and a[0].get("k") == "array":
                return a[0]["len"] if isinstance(a[0]["len"], int) else None
        if p in ("util::Df88591String", "util::array_string::ArrayString", "util::ArrayString"):
            a = ty["args"]
            if a and a[0].get("k") == "const" and "val" in a[0]:
                return a[0]["val"]
    return None


def obj_type(t):
    """Type of the object a receiver term refers to (through refs)."""
    x = t
    ty = ty_of(x)
    if ty is not None:
        while ty.get("k") == "ref":
            ty = ty["to"]
        return ty
    if x.op == "ref":
        return ty_of(x.args[0])
    return None


LEN_FNS = {
    "tinyvec::ArrayVec::<A>::len", "util::data_vec::DataVec::<T, N>::len", "util::Df88591String::<N>::len",
    "util::grid16p::Grid16P::<T>::len",
}
CAP_FNS = {"tinyvec::ArrayVec::<A>::capacity", "util::data_vec::DataVec::<T, N>::capacity"}


def len_interval(t, iv, b):
    """('len', obj): slice/str length.  Arrays: exactly N; anything else 0..isize::MAX."""
    obj = t.args[0]
    ty = ty_of(obj)
    if ty is not None and ty.get("k") == "array" and isinstance(ty["len"], int):
        return (ty["len"], ty["len"])
    # deref of a DataVec/ArrayVec (Deref -> [T]): bounded by the capacity
    x = obj
    while x.op in ("mem", "memval", "ref"):
        x = x.args[0]
    if x.op == "opaque_const":
        # a constant array behind a reference (`&CONST_TABLE`): the length is in the type
        m = re.search(r";\s*(\d+)\]$", str(x.args[0]).strip())
        if m:
            return (int(m.group(1)), int(m.group(1)))
    if x.op == "call" and x.args[0] in ("<util::data_vec::DataVec<T, N> as core::ops::Deref>::deref",
                                         "<tinyvec::ArrayVec<A> as core::ops::Deref>::deref",
                                         "util::data_vec::DataVec::<T, N>::as_slice", "util::data_vec::DataVec::<T, N>::as_mut_slice",
                                         "<util::data_vec::DataVec<T, N> as core::ops::DerefMut>::deref_mut",
                                         "<tinyvec::ArrayVec<A> as core::ops::DerefMut>::deref_mut"):
        cap = capacity_of_type(obj_type(x.args[1][0]))
        if cap is not None:
            return (0, cap)
    return (0, ISIZE_MAX)


def _term_fn(t):
    """(Fn, block) of a call term that carries its site."""
    import intervals
    if len(t.args) >= 4:
        return intervals.FN_BY_ID.get(t.args[2]), t.args[3]
    return None, None


def call_generic_args(t):
    f, b = _term_fn(t)
    if f is None:
        return None
    term = f.term(b)
    return term.get("rargs") or term.get("cargs")


BITS = {"U8": ("u", 8), "U16": ("u", 16), "U32": ("u", 32), "U64": ("u", 64), "U128": ("u", 128),
        "I8": ("s", 8), "I16": ("s", 16), "I32": ("s", 32), "I64": ("s", 64), "I128": ("s", 128),
        "SM8": ("sm", 8), "SM16": ("sm", 16), "SM32": ("sm", 32), "SM64": ("sm", 64), "SM128": ("sm", 128)}


def carrier_of(gargs):
    """generic args of put/parse -> (name, kind, bits)"""
    if not gargs:
        return None
    for a in gargs:
        if a.get("k") == "adt" and a["path"].startswith("df::bit_value::"):
            n = a["path"].rsplit("::", 1)[1]
            if n in BITS:
                return (n,) + BITS[n]
    return None


def parse_value_range(kind, bits, w):
    """Value range of Parser::parse::<IT>(w) for 0 <= w <= bits (contract assumed by C07's undecided part)."""
    if w <= 0:
        return (0, 0)
    if kind == "u":
        return (0, (1 << w) - 1)
    if kind == "s":
        return (-(1 << (w - 1)), (1 << (w - 1)) - 1)
    return (-((1 << (w - 1)) - 1), (1 << (w - 1)) - 1)


def call_interval(t, iv, b, depth):
    callee = t.args[0]
    args = t.args[1]
    rng = None
    ty = ty_of(t)
    if ty is not None:
        rng = int_range(ty)
    if callee in LEN_FNS:
        cap = capacity_of_type(obj_type(args[0]))
        if cap is not None:
            return (0, cap)
        return (0, ISIZE_MAX)
    if callee in CAP_FNS:
        cap = capacity_of_type(obj_type(args[0]))
        if cap is not None:
            return (cap, cap)
    if callee == "core::char::methods::<impl char>::len_utf8":
        return (1, 4)
    m_ = re.fullmatch(r"<([ui](?:8|16|32|64|128|size)) as core::ops::(Add|Sub|Mul)<&\1>>::(add|sub|mul)", callee)
    if m_ and len(args) == 2:
        x = iv.interval(args[0], b, depth + 1)
        yv = args[1]
        from terms import set_ty as _st
        yv = _st(mk("memval", yv.args[0]) if yv.op == "ref" else mk("memval", mk("mem", yv)), ty_of(args[0]))
        y = iv.interval(yv, b, depth + 1)
        if x is not None and y is not None:
            op = m_.group(2)
            r = (x[0] + y[0], x[1] + y[1]) if op == "Add" else ((x[0] - y[1], x[1] - y[0]) if op == "Sub" else (min(x[0] * y[0], x[1] * y[1]), max(x[0] * y[0], x[1] * y[1])))
            # the call returns only when the checked operation did not overflow
            if rng is not None:
                r = (max(r[0], rng[0]), min(r[1], rng[1]))
            return r
        return rng
    if re.fullmatch(r"core::num::<impl u(8|16|32|64|128|size)>::from_(be|le)_bytes", callee) and args and args[0].op == "array":
        bs = list(args[0].args[0])
        if callee.endswith("from_be_bytes"):
            bs = bs[::-1]
        hi = 0
        for k, bt in enumerate(bs):
            bi = iv.interval(bt, b, depth + 1)
            if bi is None or bi[0] < 0 or bi[1] > 255:
                bi = (0, 255)
            hi += bi[1] << (8 * k)
        return (0, hi)
    if re.fullmatch(r"core::num::<impl [iu](8|16|32|64|128|size)>::(count_ones|count_zeros|leading_zeros|trailing_zeros|leading_ones|trailing_ones)", callee):
        ty0 = ty_of(args[0]) if args else None
        return (0, ty0["bits"]) if ty0 and "bits" in ty0 else (0, 128)
    if callee in ("<core::iter::Filter<I, P> as core::iter::Iterator>::count", "<core::str::Chars as core::iter::Iterator>::count",
                  "<core::str::Bytes as core::iter::ExactSizeIterator>::len"):
        return (0, ISIZE_MAX)
    if callee == "df::parser::Parser::parse":
        # value of parse::<IT>(w): by the carrier and the width interval
        g = carrier_of(call_generic_args(t))
        if g is not None and len(args) >= 2:
            name, kind, bits = g
            wi = iv.interval(args[1], _term_fn(t)[1] if _term_fn(t)[0] is iv.fa.fn else b, depth + 1)
            if wi is not None and 0 <= wi[0] and wi[1] <= bits:
                lo = parse_value_range(kind, bits, wi[1])
                return lo
        return rng
    m = re.fullmatch(r"core::num::<impl (u8|u16|u32|u64|u128|usize)>::saturating_sub", callee)
    if m and len(args) == 2:
        ia, ib = iv.interval(args[0], b, depth + 1), iv.interval(args[1], b, depth + 1)
        if ia is not None and ib is not None:
            return (max(0, ia[0] - ib[1]), max(0, ia[1] - ib[0]))
    if callee == "df::assembler::Assembler::offset":
        r = assembler_offset_interval(t, iv, b, depth)
        return r if r is not None else (0, ISIZE_MAX)
    if callee == "df::parser::Parser::offset":
        return (0, ISIZE_MAX)
    if iv.prog is not None and callee in iv.prog.fns and ty is not None and ty.get("k") in ("uint", "int"):
        r = fn_return_interval(iv.prog, callee)
        if r is not None:
            return r
    return rng


def assembler_offset_interval(t, iv, b, depth):
    """W-win: asm.offset() for a local assembler built by Assembler::new(window, 0):
    upper bound 8*len(window) (B-guard keeps offset <= 8*len(data); P-pre checks the window),
    lower bound = sum of the constant widths of the puts whose success dominates this call (B-cursor: each adds w)."""
    fa = iv.fa
    f = fa.fn
    if len(t.args) < 4 or t.args[2] != id(f):
        return None
    recv = t.args[1][0]
    if not (recv.op == "ref" and recv.args[0].op == "loc"):
        return None
    A = recv.args[0].args[1]
    real = [d for d in fa.defs(A) if d[2] != "borrow"]
    if len(real) != 1:
        return None
    init = fa.defterm(A, *real[0])
    if not (init.op == "call" and init.args[0] == "df::assembler::Assembler::new" and is_const(init.args[1][1])):
        return None
    start = const_val(init.args[1][1])
    import framing_slices
    sl = framing_slices.as_slice(init.args[1][0])
    if sl is None or sl[1] is None or sl[2] is None:
        return None
    lo_i, hi_i = iv.interval(sl[1], real[0][0], depth + 1), iv.interval(sl[2], real[0][0], depth + 1)
    if lo_i is None or hi_i is None:
        return None
    upper = 8 * (hi_i[1] - lo_i[0])
    ob = t.args[3]
    lower = start
    for cb, ct in f.calls():
        if callee_of(ct) == "df::assembler::Assembler::put":
            a = fa.call_args(cb)
            if a[0] is recv and is_const(a[2]) and f.dominates(cb, ob) and cb != ob:
                # success: the Continue arm of `?` on this call dominates ob
                res = fa.call_term(cb)
                br = mk("discr", mk("call", "<core::result::Result<T, E> as core::ops::Try>::branch", (res,), id(f), ct["target"]))
                for g in fa.guards(ob):
                    if g[0].op == "discr" and g[0].args[0].op == "call" and g[0].args[0].args[0] == "<core::result::Result<T, E> as core::ops::Try>::branch" \
                            and g[0].args[0].args[1][0] is res and g[1] == "eq" and g[2] == 0:
                        lower += const_val(a[2])
                        break
    return (lower, max(lower, upper))


def smash_values(base, fa, seen=None, depth=0):
    """All element values that may be stored in a local array / vector value term (array smashing), or None."""
    if seen is None:
        seen = set()
    out = []
    st = [base]
    while st:
        x = st.pop()
        if x in seen:
            continue
        seen.add(x)
        if x.op == "upd":
            path = x.args[1]
            if len(path) == 1 and path[0][0] == "i":
                out.append(x.args[2])
                st.append(x.args[0])
            else:
                return None
        elif x.op == "phi":
            for pb, v in fa.phi_operands(x):
                st.append(v)
        elif x.op == "repeat":
            out.append(x.args[0])
        elif x.op == "array":
            out.extend(x.args[0])
        else:
            return None
    return out


def vec_pushed_values(vec_local, fa):
    """Terms pushed into a local ArrayVec/DataVec created empty in this function: [(block, term)] or None."""
    f = fa.fn
    real = [d for d in fa.defs(vec_local) if d[2] != "borrow"]
    if len(real) != 1:
        return None
    init = fa.defterm(vec_local, *real[0])
    if not (init.op == "call" and init.args[0] in ("tinyvec::ArrayVec::<A>::new", "util::data_vec::DataVec::<T, N>::new")):
        return None
    out = []
    for cb, ct in f.calls():
        a = fa.call_args(cb)
        if a and a[0].op == "ref" and a[0].args[0].op == "loc" and a[0].args[0].args[1] == vec_local:
            c = callee_of(ct)
            if c in ("tinyvec::ArrayVec::<A>::push", "util::data_vec::DataVec::<T, N>::push"):
                out.append((cb, a[1]))
            elif c in ("tinyvec::ArrayVec::<A>::len", "util::data_vec::DataVec::<T, N>::len", "tinyvec::ArrayVec::<A>::iter",
                       "util::data_vec::DataVec::<T, N>::iter") or c.endswith(" as core::ops::Deref>::deref"):
                pass                    # read-only views
            else:
                return None
    return out


_VECELEM = {}


def fn_vec_elem_interval(prog, path):
    """Interval of the elements of the integer vector a crate function returns (summary over everything it pushes), cached.
    Forms: a local ArrayVec created empty and filled by push; `(lo..=hi | lo..hi).filter(..).collect()`."""
    if path in _VECELEM:
        return _VECELEM[path]
    _VECELEM[path] = None
    f = prog.fn(path)
    if f is None:
        return None
    from terms import FA
    from intervals import Intervals, join
    fa = FA(f, prog)
    iv = Intervals(fa, prog)
    rets = f.return_blocks()
    if len(rets) != 1:
        return None
    rv = fa.end_val(0, rets[0])
    acc = None
    if rv.op == "call" and rv.args[0].endswith("Iterator::collect") and rv.args[1]:
        x = rv.args[1][0]
        while x.op == "call" and x.args[0] in ("core::iter::Iterator::filter", INTO_ITER) and x.args[1]:
            x = x.args[1][0]
        if x.op == "call" and x.args[0] == "core::ops::RangeInclusive::<Idx>::new" and all(is_const(a) for a in x.args[1]):
            acc = (const_val(x.args[1][0]), const_val(x.args[1][1]))
        elif x.op == "agg" and x.args[0] == "core::ops::Range" and all(is_const(a) for a in x.args[3]):
            acc = (const_val(x.args[3][0]), const_val(x.args[3][1]) - 1)
    else:
        # returned local vector
        t = f.term(rets[0])
        L = None
        for b_ in sorted(f.reachable()):
            for st in f.blocks[b_]["stmts"]:
                if st["k"] == "assign" and st["place"] == {"local": 0, "proj": []} and st["rv"]["k"] == "use" and st["rv"]["op"]["k"] in ("move", "copy") \
                        and not st["rv"]["op"]["place"]["proj"]:
                    L = st["rv"]["op"]["place"]["local"]
        if L is not None:
            pushed = vec_pushed_values(L, fa)
            if pushed:
                acc = (1, 0)
                for pb, pv in pushed:
                    i = iv.interval(pv, pb)
                    if i is None:
                        return None
                    acc = join(acc, i)
    _VECELEM[path] = acc
    return acc


def projection_interval(t, iv, b, depth):
    """Intervals of projections of call results: Option/Result payloads of modelled calls, iterator items."""
    fa = iv.fa
    # element of a by-value iteration over the vector returned by a crate function (optionally enumerated)
    if t.op == "field" and iv.prog is not None:
        x = t
        k = None
        if x.args[0].op == "field" and x.args[0].args[1] == 0 and x.args[0].args[0].op == "downcast":
            k = x.args[1]
            x = x.args[0]
        if x.op == "field" and x.args[1] == 0 and x.args[0].op == "downcast" and x.args[0].args[1] == 1 and x.args[0].args[0].op == "call":
            c = x.args[0].args[0]
            cn = c.args[0]
            if cn in ("<tinyvec::ArrayVecIterator<A> as core::iter::Iterator>::next", "<core::iter::Enumerate<I> as core::iter::Iterator>::next") and len(c.args) >= 4:
                src = iterator_source(c, fa)
                if src is not None:
                    y = src[0]
                    chain = []
                    while y.op == "call" and y.args[1] and y.args[0] in (INTO_ITER, "core::iter::Iterator::enumerate", "<tinyvec::ArrayVec<A> as core::iter::IntoIterator>::into_iter"):
                        chain.append(y.args[0])
                        y = y.args[1][0]
                    enum = "core::iter::Iterator::enumerate" in chain
                    if y.op == "call" and y.args[0] in iv.prog.fns and ((enum and k == 1) or (not enum and k is None and cn.startswith("<tinyvec"))):
                        r = fn_vec_elem_interval(iv.prog, y.args[0])
                        if r is not None:
                            return r
    # element of a local array built by stores: join of everything stored (array smashing)
    if t.op == "index":
        vals = smash_values(t.args[0], fa)
        if vals:
            from intervals import join
            acc = (1, 0)
            for v in vals:
                i = iv.interval(v, b, depth + 1) if not is_const(v) else (const_val(v), const_val(v))
                # values stored inside loops: evaluate with the facts of the storing block when known
                if i is None:
                    return None
                acc = join(acc, i)
            return acc
    # item.k of a by-value iteration over a local vector: join of the k-th component of everything pushed
    if t.op == "field" and t.args[0].op == "field" and t.args[0].args[1] == 0 and t.args[0].args[0].op == "downcast" \
            and t.args[0].args[0].args[1] == 1 and t.args[0].args[0].args[0].op == "call" \
            and t.args[0].args[0].args[0].args[0] == "<tinyvec::ArrayVecIterator<A> as core::iter::Iterator>::next":
        c = t.args[0].args[0].args[0]
        src = iterator_source(c, fa)
        if src is not None:
            v = src[0]
            if v.op == "call" and v.args[0] in ("<tinyvec::ArrayVec<A> as core::iter::IntoIterator>::into_iter", INTO_ITER):
                vec = v.args[1][0]
                # the vector value moved into the iterator: find its local
                L = None
                f = fa.fn
                ib = v.args[3]
                blk = f.term(ib)
                a0 = blk["args"][0]
                if a0["k"] in ("copy", "move") and not a0["place"]["proj"]:
                    L = a0["place"]["local"]
                    for _ in range(4):
                        ds = fa.defs(L)
                        if len(ds) == 1 and ds[0][2] == "assign":
                            st = f.blocks[ds[0][0]]["stmts"][ds[0][1]]
                            if st["rv"]["k"] == "use" and st["rv"]["op"]["k"] in ("copy", "move") and not st["rv"]["op"]["place"]["proj"]:
                                L = st["rv"]["op"]["place"]["local"]
                                continue
                        break
                if L is not None:
                    pushed = vec_pushed_values(L, fa)
                    if pushed:
                        from intervals import join
                        acc = (1, 0)
                        k = t.args[1]
                        for pb, pv in pushed:
                            comp = pv.args[0][k] if pv.op == "tuple" and k < len(pv.args[0]) else None
                            if comp is None:
                                return None
                            i = iv.interval(comp, pb, depth + 1)
                            if i is None:
                                return None
                            acc = join(acc, i)
                        return acc
    # (*item).k of a by-reference iteration (`v.iter()`) over a local vector: join of the k-th component of everything pushed
    if t.op == "memval" and t.args[0].op == "pf" and t.args[0].args[0].op == "mem":
        it_ = t.args[0].args[0].args[0]
        if it_.op == "field" and it_.args[1] == 0 and it_.args[0].op == "downcast" and it_.args[0].args[1] == 1 and it_.args[0].args[0].op == "call" \
                and it_.args[0].args[0].args[0] == "<core::slice::Iter<'a, T> as core::iter::Iterator>::next":
            src = iterator_source(it_.args[0].args[0], fa)
            if src is not None:
                v = src[0]
                while v.op == "call" and v.args[0] in (INTO_ITER,) and v.args[1]:
                    v = v.args[1][0]
                L = None
                if v.op == "call" and v.args[0] in ("core::slice::<impl [T]>::iter", "tinyvec::ArrayVec::<A>::iter", "util::data_vec::DataVec::<T, N>::iter") and v.args[1]:
                    x = v.args[1][0]
                    for _ in range(8):
                        if x.op in ("ref", "mem", "memval"):
                            x = x.args[0]
                        elif x.op == "call" and x.args[0].endswith("as core::ops::Deref>::deref") and x.args[1]:
                            x = x.args[1][0]
                        else:
                            break
                    if x.op == "loc":
                        L = x.args[1]
                if L is not None:
                    pushed = vec_pushed_values(L, fa)
                    if pushed:
                        from intervals import join
                        acc = (1, 0)
                        k = t.args[0].args[1]
                        for pb, pv in pushed:
                            comp = pv.args[0][k] if pv.op == "tuple" and isinstance(k, int) and k < len(pv.args[0]) else None
                            if comp is None:
                                return None
                            i = iv.interval(comp, pb, depth + 1)
                            if i is None:
                                return None
                            acc = join(acc, i)
                        return acc
    # Some-payload of a crate function returning Option<integer>: summary over its return sites
    if t.op == "field" and t.args[1] == 0 and t.args[0].op == "downcast" and t.args[0].args[1] == 1 and t.args[0].args[0].op == "call":
        c = t.args[0].args[0]
        if iv.prog is not None and c.args[0] in iv.prog.fns:
            r = fn_some_payload_interval(iv.prog, c.args[0])
            if r is not None:
                return r
    # Result<T,E>::Ok payload of `?`:  Try::branch(x) @Continue .0  ==  x @Ok .0
    if t.op == "field" and t.args[1] == 0 and t.args[0].op == "downcast":
        d = t.args[0]
        inner = d.args[0]
        if inner.op == "call":
            c = inner.args[0]
            if c == "<core::result::Result<T, E> as core::ops::Try>::branch" and d.args[1] == 0:
                src = inner.args[1][0]
                return iv.interval(mk("field", mk("downcast", src, 0), 0), b, depth + 1) if src.op == "call" else None
            if c == "df::parser::Parser::parse" and d.args[1] == 0:
                return call_interval(inner, iv, b, depth)
            if c in (RANGE_NEXT, RANGE_INCL_NEXT) and d.args[1] == 1:
                return range_item_interval(inner, iv, b, depth, inclusive=(c == RANGE_INCL_NEXT))
            if c.endswith("::decode") and d.args[1] == 0 and c.startswith("df::dfs::"):
                return None
    if t.op == "field" and t.args[0].op == "field":
        # Enumerate item: (index, item) = next()@Some.0 ; .0 is the index in 0..len
        pair = t.args[0]
        if pair.args[1] == 0 and pair.args[0].op == "downcast" and pair.args[0].args[1] == 1:
            c = pair.args[0].args[0]
            if c.op == "call" and c.args[0] == "<core::iter::Enumerate<I> as core::iter::Iterator>::next" and t.args[1] == 0:
                # index < number of items of the underlying iterator: bounded by the container's capacity when known
                src = iterator_source(c, fa) if len(c.args) >= 4 and c.args[2] == id(fa.fn) else None
                if src is not None:
                    v = src[0]
                    while v.op == "call" and v.args[0] in (INTO_ITER, "core::iter::Iterator::enumerate"):
                        v = v.args[1][0]
                    if v.op == "call" and v.args[0] in ("util::data_vec::DataVec::<T, N>::iter", "util::data_vec::DataVec::<T, N>::iter_mut",
                                                        "tinyvec::ArrayVec::<A>::iter", "util::Df88591String::<N>::iter"):
                        cap = capacity_of_type(obj_type(v.args[1][0]))
                        if cap is not None and cap >= 1:
                            return (0, cap - 1)
                    # by-value iteration over a vector value (e.g. the result of a crate function): capacity of its type
                    w = v
                    while w.op == "call" and w.args[1] and w.args[0] in (INTO_ITER, "<tinyvec::ArrayVec<A> as core::iter::IntoIterator>::into_iter"):
                        w = w.args[1][0]
                    cap = capacity_of_type(ty_of(w)) if ty_of(w) is not None else None
                    if cap is not None and cap >= 1:
                        return (0, cap - 1)
                return (0, ISIZE_MAX - 1)
    return None


def iterator_source(call_next, fa):
    """For a `next(&mut it)` call term return the term the iterator local was initialised with, or None.
    Requires: the receiver is a local whose only non-borrow definition is a call/aggregate, and whose `&mut`
    borrows are all passed to this same next() (so nothing else advances or replaces the iterator)."""
    recv = call_next.args[1][0]
    if not (recv.op == "ref" and recv.args[0].op == "loc"):
        return None
    X = recv.args[0].args[1]
    defs = fa.defs(X)
    real = [d for d in defs if d[2] != "borrow"]
    if len(real) != 1:
        return None
    # every `&mut X` must be the one feeding this very next() call: nothing else (nth, skip, by_ref, a second next
    # site) may advance or replace the iterator
    nb = call_next.args[3] if len(call_next.args) >= 4 else None
    for d in defs:
        if d[2] == "borrow" and d[0] != nb:
            return None
    # shared borrows / moves of the iterator into other calls (e.g. `it.clone()`, passing it on) are not accepted either
    f = fa.fn
    for b, t in f.calls():
        if b == nb or b == real[0][0]:
            continue
        for a in t["args"]:
            if a["k"] in ("copy", "move") and a["place"]["local"] == X:
                return None
    return fa.defterm(X, real[0][0], real[0][1], real[0][2]), real[0]


def range_item_interval(call_next, iv, b, depth, inclusive=False):
    fa = iv.fa
    src = iterator_source(call_next, fa)
    if src is None:
        return None
    v, site = src
    # into_iter(Range{start,end}) or the Range aggregate itself / RangeInclusive::new(a, b)
    x = v
    if x.op == "call" and x.args[0] in (INTO_ITER,):
        x = x.args[1][0]
    lo_t = hi_t = None
    if x.op == "agg" and x.args[0] == "core::ops::Range" and not inclusive:
        lo_t, hi_t = x.args[3]
    elif x.op == "call" and x.args[0] == "core::ops::RangeInclusive::<Idx>::new" and inclusive:
        lo_t, hi_t = x.args[1]
    else:
        return None
    sb = site[0]
    il = iv.interval(lo_t, sb, depth + 1)
    ih = iv.interval(hi_t, sb, depth + 1)
    if il is None or ih is None:
        return None
    if inclusive:
        return (il[0], ih[1])
    return (il[0], ih[1] - 1)


def discr_interval(t, iv, b):
    x = t.args[0]
    ty = ty_of(x)
    if ty and ty.get("k") == "adt":
        p = ty["path"]
        if p in ("core::option::Option", "core::result::Result", "core::ops::ControlFlow"):
            return (0, 1)
    return None


_RET = {}


def fn_return_interval(prog, path):
    """Interval of the integer return value of a crate function for arbitrary arguments (summary, cached)."""
    if path in _RET:
        return _RET[path]
    _RET[path] = None   # recursion guard
    f = prog.fn(path)
    if f is None:
        return None
    rty = f.locals[0]
    if rty.get("k") not in ("uint", "int"):
        return None
    from terms import FA
    from intervals import Intervals, join
    fa = FA(f, prog)
    iv = Intervals(fa, prog)
    acc = (1, 0)
    for rb in f.return_blocks():
        v = fa.end_val(0, rb)
        i = iv.interval(v, rb)
        if i is None:
            return None
        acc = join(acc, i)
    if acc is None or acc[0] > acc[1]:
        return None
    _RET[path] = acc
    return acc


_SOME = {}


def fn_some_payload_interval(prog, path):
    """Interval of x over all `Some(x)` a crate function returns (Option<integer> results)."""
    if path in _SOME:
        return _SOME[path]
    _SOME[path] = None
    f = prog.fn(path)
    if f is None:
        return None
    rty = f.locals[0]
    if not (rty.get("k") == "adt" and rty["path"] == "core::option::Option" and rty["args"] and rty["args"][0].get("k") in ("uint", "int")):
        return None
    from terms import FA
    from intervals import Intervals, join
    fa = FA(f, prog)
    iv = Intervals(fa, prog)
    acc = (1, 0)
    for b in sorted(f.reachable()):
        for i, s in enumerate(f.blocks[b]["stmts"]):
            if s["k"] == "assign" and s["place"]["local"] == 0 and not s["place"]["proj"]:
                v = fa.rv_term(s["rv"], (b, i))
                if v.op == "agg" and v.args[2] == "Some":
                    x = iv.interval(v.args[3][0], b)
                    if x is None:
                        return None
                    acc = join(acc, x)
                elif v.op == "agg" and v.args[2] == "None":
                    pass
                else:
                    return None
        t = f.term(b)
        if t["k"] == "call" and t["dest"]["local"] == 0:
            return None
    if acc[0] > acc[1]:
        return None
    _SOME[path] = acc
    return acc
