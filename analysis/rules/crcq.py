"""A-crc: the CRC object used by the crate is CRC-24Q (dependency constant check) + generator algebra (C04)."""
import glob
import os
import re


def pinned_version(repo, name):
    p = os.path.join(repo, "Cargo.lock")
    if not os.path.exists(p):
        return None
    txt = open(p).read()
    m = re.search(r'name = "%s"\nversion = "([^"]+)"' % re.escape(name), txt)
    return m.group(1) if m else None


def dep_src(name, version):
    c = sorted(glob.glob(os.path.expanduser("~/.cargo/registry/src/*/%s-%s" % (name, version))))
    return c[0] if c else None


def table_for(poly, width):
    top = 1 << (width - 1)
    mask = (1 << width) - 1
    out = []
    for i in range(256):
        r = i << (width - 8)
        for _ in range(8):
            r = ((r << 1) ^ poly) & mask if r & top else (r << 1) & mask
        out.append(r)
    return out


def pmod(a, g):
    dg = g.bit_length() - 1
    while a.bit_length() - 1 >= dg and a:
        a ^= g << (a.bit_length() - 1 - dg)
    return a


def pmulmod(a, b, g):
    r = 0
    while b:
        if b & 1:
            r ^= a
        b >>= 1
        a <<= 1
    return pmod(r, g)


def ppowmod_x(e, g):
    """x^e mod g over GF(2)"""
    result = 1
    base = 2
    while e:
        if e & 1:
            result = pmulmod(result, base, g)
        base = pmulmod(base, base, g)
        e >>= 1
    return result


def rule_a_crc(ctx, res, rule="A-crc"):
    ver = pinned_version(ctx.repo, "crc-any")
    src = dep_src("crc-any", ver) if ver else None
    if not src:
        res.missing(rule, "crc-any source for the version pinned in Cargo.lock (%s)" % ver)
        return None
    txt = open(os.path.join(src, "src", "crc_u32.rs")).read()
    m = re.search(r"pub fn crc24lte_a\(\) -> CRCu32 \{(.*?)\n    \}", txt, re.S)
    if not m:
        res.missing(rule, "CRCu32::crc24lte_a in crc-any %s" % ver)
        return None
    body = re.sub(r"//[^\n]*", "", m.group(1))
    mt = re.search(r"LookUpTable::Static\(&(\w+)\)", body)
    mp = re.search(r"create_crc_with_exists_lookup_table\(\s*lookup_table,\s*(\d+),\s*(0x[0-9A-Fa-f]+|\d+),\s*(0x[0-9A-Fa-f]+|\d+),\s*(true|false)\s*,?\s*\)", body)
    md = re.search(r"create_crc\(\s*(0x[0-9A-Fa-f]+),\s*(\d+),\s*(0x[0-9A-Fa-f]+|\d+),\s*(0x[0-9A-Fa-f]+|\d+),\s*(true|false)\s*\)", body)
    poly = None
    if mt and mp:
        width, init, xor, refl = int(mp.group(1)), int(mp.group(2), 0), int(mp.group(3), 0), mp.group(4) == "true"
        ctxt = open(os.path.join(src, "src", "constants", "crc_u32.rs")).read()
        mc = re.search(r"const %s: \[u32; 256\] = \[(.*?)\];" % mt.group(1), ctxt, re.S)
        if not mc:
            res.missing(rule, "table %s" % mt.group(1))
            return None
        tab = [int(x.replace("u32", "").strip(), 0) for x in mc.group(1).split(",") if x.strip()]
        ok = len(tab) == 256 and tab == table_for(0x864CFB, 24)
        res.ob(rule, "crc-any | crc24lte_a's lookup table is the MSB-first table of generator 0x1864CFB", ok,
               "table %s in crc-any %s differs from the table generated from 0x864CFB/24" % (mt.group(1), ver),
               sample={"table": mt.group(1), "entries": len(tab), "tab[1]": hex(tab[1]) if len(tab) > 1 else None})
        poly = 0x864CFB if ok else None
    elif md:
        poly, width, init, xor, refl = int(md.group(1), 0), int(md.group(2)), int(md.group(3), 0), int(md.group(4), 0), md.group(5) == "true"
        res.ob(rule, "crc-any | crc24lte_a uses generator 0x1864CFB", poly == 0x864CFB, "poly=%x" % poly)
    else:
        res.ob(rule, "crc-any | crc24lte_a parameters recognisable", False, body.strip()[:200])
        return None
    res.ob(rule, "crc-any | width 24, init 0, xorout 0, not reflected", (width, init, xor, refl) == (24, 0, 0, False),
           "width=%s init=%s xorout=%s reflect=%s" % (width, init, xor, refl), sample={"width": width, "init": init, "xorout": xor, "reflect": refl})
    # the u32 variant is what CRC::crc24lte_a wraps
    ltxt = open(os.path.join(src, "src", "lib.rs")).read()
    mw = re.search(r"pub fn crc24lte_a\(\) -> CRC \{\s*CRC::CRCu32\(CRCu32::crc24lte_a\(\)\)\s*\}", ltxt)
    res.ob(rule, "crc-any | CRC::crc24lte_a wraps CRCu32::crc24lte_a", mw is not None, "")
    return 0x1000000 | poly if poly else None


def rule_generator_algebra(res, g=0x1864CFB, rule="G-alg", maxbits=8 * 1029):
    """Facts about the generator that make the C04 error classes detectable (pure GF(2) arithmetic)."""
    res.ob(rule, "g(x) has degree 24 and g(0) = 1", g.bit_length() - 1 == 24 and g & 1 == 1, hex(g),
           sample="no x^k*e(x) with deg e < 24 (single bits, bursts <= 24) is a multiple of g")
    res.ob(rule, "(x+1) divides g(x): every odd-weight error is detected", bin(g).count("1") % 2 == 0, "weight of g = %d" % bin(g).count("1"),
           sample="g(1) = 0 <=> even number of terms")
    N = (1 << 23) - 1
    one = ppowmod_x(N, g) == 1
    fac = []
    n = N
    p = 2
    while p * p <= n:
        if n % p == 0:
            fac.append(p)
            while n % p == 0:
                n //= p
        p += 1
    if n > 1:
        fac.append(n)
    minimal = all(ppowmod_x(N // q, g) != 1 for q in fac)
    res.ob(rule, "ord(x mod g) = 2^23 - 1 > %d: no two-bit error inside a frame is a multiple of g" % maxbits,
           one and minimal and N > maxbits, "x^N==1:%s minimal:%s factors:%s" % (one, minimal, fac),
           sample={"order": N, "prime_factors": fac, "max_frame_bits": maxbits})
