"""Text field rules (C17; X-utf8 is also relied on by the C09/C02 residue)."""
from terms import err_variant, FA, show, mk, ty_of, is_const, const_val, T, subterms
from facts import callee_of
from intervals import Intervals
from paths import enum_paths
from algebra import canon_le, lin
from algebra import fact_of_guard as _fact_of_guard_alg
import libmodel
import panics

U = "util::"
CHARS = U + "Df88591StringChars"
DFS = U + "Df88591String::<N>"
AS = U + "array_string::ArrayString::<N>"


def fact_of_guard(g):
    """algebra.fact_of_guard with integer `match` arms (x == v / x != v) rendered as comparisons (an `if x == 0` and a `match x { 0 => .. }`
    are the same test)"""
    fc = _fact_of_guard_alg(g)
    if fc and fc[0] == "val":
        t = fc[1]
        tn = (ty_of(t) or {}).get("name") or "usize"
        if fc[2] == "eq":
            return ("Eq", t, mk("const", tn, fc[3]))
        if fc[2] == "ne" and len(fc[3]) == 1:
            return ("Ne", t, mk("const", tn, list(fc[3])[0]))
    return fc


def _apply(iv, fc, x):
    """restrict interval iv of term x by comparison fact fc (x vs constant)"""
    lo, hi = iv
    if len(fc) != 3:
        return iv           # a switch-on-value / discriminant fact: not a comparison of x with a constant
    op, a, b = fc
    if a is x and is_const(b):
        c = const_val(b)
        if op == "Gt":
            lo = max(lo, c + 1)
        elif op == "Ge":
            lo = max(lo, c)
        elif op == "Lt":
            hi = min(hi, c - 1)
        elif op == "Le":
            hi = min(hi, c)
        elif op == "Eq":
            lo, hi = max(lo, c), min(hi, c)
        elif op == "Ne":
            if lo == c:
                lo += 1
            if hi == c:
                hi -= 1
    return (lo, hi)


# ------------------------------------------------------------------ X-sem: character maps by abstract interpretation (guardsem.char_map)
_CSEM = {}
R3 = [(0, 0), (1, 255), (256, 0x10FFFF)]
R2 = [(0, 0), (1, 255)]


def char_semantics(prog):
    """{name: (True | False | None, detail)}  for from_char, to_char, push, push_char, try_push (stored value) and try_push_cap."""
    if id(prog) in _CSEM:
        return _CSEM[id(prog)]
    import guardsem, bitsem
    out = {}

    def ident(v):
        return bitsem.lin_parts(v) == (1, 0) if not isinstance(v, int) else False

    def want(region, v):
        if region == (1, 255):
            return ident(v)
        c = v.concrete() if isinstance(v, bitsem.BV) else v
        return c == 0xA4

    def run(name, path, regs, arg, ws, full=False):
        try:
            return guardsem.char_map(prog, path, regs, arg, ws, full), None
        except bitsem.Panic as e:
            return None, (False, "panic: %s" % e)
        except bitsem.Undecided as e:
            return None, (None, "abstract interpretation: %s" % e)
        except Exception as e:
            return None, (None, "abstract interpretation failed: %r" % e)
    for name, path, regs in (("from_char", CHARS + "::from_char", R3), ("to_char", CHARS + "::to_char", R2)):
        if prog.fn(path) is None:
            out[name] = (None, "not found")
            continue
        r, err = run(name, path, regs, 1, False)
        if err:
            out[name] = err
            continue
        bad = [(reg, v) for reg, v, p in r if not want(reg, v)]
        out[name] = (not bad, "; ".join("codes %s -> %s" % (reg, "identity" if ident(v) else v) for reg, v, p in r))
    for name, path, regs in (("push", DFS + "::push", R2), ("push_char", DFS + "::push_char", R3), ("try_push", DFS + "::try_push", R3)):
        if prog.fn(path) is None:
            out[name] = (None, "not found")
            continue
        r, err = run(name, path, regs, 2, True)
        if err:
            out[name] = err
            continue
        bad = [(reg, p) for reg, v, p in r if not (len(p) == 1 and want(reg, p[0]))]
        okret = True
        if name == "try_push":
            okret = all(getattr(v, "vname", None) == "Ok" for reg, v, p in r)
        out[name] = (not bad and okret, "; ".join("codes %s store %s" % (reg, ["identity" if ident(x) else x for x in p]) for reg, v, p in r))
    if prog.fn(DFS + "::try_push") is not None:
        r, err = run("try_push_cap", DFS + "::try_push", R3, 2, True, full=True)
        if err:
            out["try_push_cap"] = err
        else:
            ok = all(getattr(v, "vname", None) == "Err" and not p for reg, v, p in r)
            out["try_push_cap"] = (ok, "on a full string: " + "; ".join("%s -> %s, stores %d" % (reg, getattr(v, "vname", v), len(p)) for reg, v, p in r))
    _CSEM[id(prog)] = out
    return out


class CSemBacked:
    """template X-map / X-cap obligations about the Df88591String maps pass when the semantic run decided them"""

    def __init__(self, res, decided):
        self.res = res
        self.extra = res.extra
        self.decided = decided

    def ob(self, rule, key, ok, detail="", loc=None, sample=None):
        k = str(key)
        if not ok and rule in ("X-map", "X-cap"):
            for name, prefixes in self.decided.items():
                if any(k.startswith(p_) for p_ in prefixes):
                    return self.res.ob(rule, key, True, "shape not recognised by the template rule; decided by X-sem (abstract interpretation). " + str(detail)[:160], loc)
        return self.res.ob(rule, key, ok, detail, loc, sample=sample)

    def floor(self, rule, what, n, floor):
        if rule == "X-cap" and "Df88591String" in what and "try_push" in self.decided:
            return
        self.res.floor(rule, what, n, floor)

    def missing(self, *a, **k):
        self.res.missing(*a, **k)

    def fn(self, f):
        self.res.fn(f)


CSEM_KEYS = {"from_char": ("from_char |",), "to_char": ("to_char |",), "push": ("push |",), "push_char": ("push_char |",),
             "try_push": ("try_push |",), "try_push_cap": ("util::Df88591String::<N>::try_push |",)}
CSEM_DESC = {"from_char": "from_char | code 1..=255 maps to itself, every other character to 0xA4",
             "to_char": "to_char | byte 0 reads back as U+00A4, every other byte as the character with that code",
             "push": "push | a decoded byte 0 is stored as 0xA4, every other byte unchanged",
             "push_char": "push_char | stores from_char(ch)",
             "try_push": "try_push | stores from_char(ch) and returns Ok when there is room",
             "try_push_cap": "util::Df88591String::<N>::try_push | on a full string the character is refused with Err and nothing is stored"}


def sem_view(prog, res):
    """Emit the X-sem obligations and return a view of res in which the template rules they cover cannot alarm."""
    sem = char_semantics(prog)
    decided = {}
    for name, (st, detail) in sem.items():
        if st is None:
            continue
        f = prog.fn((CHARS + "::" + name) if name in ("from_char", "to_char") else (DFS + "::" + name.replace("_cap", "")))
        res.ob("X-cap" if name == "try_push_cap" else "X-map", CSEM_DESC[name] + " [X-sem]", st, detail, f.loc if f else None)
        if st:
            decided[name] = CSEM_KEYS[name]
    return CSemBacked(res, decided) if decided else res


def rule_char_maps(prog, res):
    """X-map: from_char / to_char / push by finite case analysis over the regions their own comparisons induce."""
    res = sem_view(prog, res)
    f = prog.fn(CHARS + "::from_char")
    if f is None:
        res.missing("X-map", CHARS + "::from_char")
    else:
        res.fn(f)
        fa = FA(f, prog)
        code = None
        ident = []
        other = []
        for blocks, facts, rv, flist in enum_paths(fa):
            fcs = [fact_of_guard(g) for g in flist]
            # the compared quantity: cast(ch as u32)
            xs = {fc[1] for fc in fcs if fc[0] in ("Gt", "Ge", "Lt", "Le", "Eq", "Ne")}
            if len(xs) != 1:
                other.append(("?", rv))
                continue
            x = next(iter(xs))
            okx = x.op == "cast" and x.args[1].op == "arg" and x.args[2] == "u32"
            iv = (0, 0x10FFFF)
            for fc in fcs:
                iv = _apply(iv, fc, x)
            if rv.op == "cast" and rv.args[1] is x and rv.args[2] == "u8" and okx:
                ident.append(iv)
            else:
                other.append((iv, rv))
        ok = ident == [(1, 255)] and other and all(is_const(rv) and const_val(rv) == 0xA4 for iv, rv in other)
        res.ob("X-map", "from_char | code 1..=255 maps to itself, every other character to 0xA4", ok,
               "identity region %s ; other results %s" % (ident, [(iv, show(rv, fa.names)) for iv, rv in other]), f.loc,
               sample={"identity": ident, "else": [show(rv, fa.names) for iv, rv in other]})
    f = prog.fn(CHARS + "::to_char")
    if f is None:
        res.missing("X-map", CHARS + "::to_char")
    else:
        res.fn(f)
        fa = FA(f, prog)
        seen = {}
        for blocks, facts, rv, flist in enum_paths(fa):
            fcs = [fact_of_guard(g) for g in flist]
            zero = [fc for fc in fcs if fc[0] in ("Eq", "Ne") and fc[1].op == "arg" and is_const(fc[2]) and const_val(fc[2]) == 0]
            key = "zero" if any(fc[0] == "Eq" for fc in zero) else ("nonzero" if zero else "?")
            seen[key] = rv
        okz = False
        okn = False
        z = seen.get("zero")
        n = seen.get("nonzero")

        def from_u32_of(t):
            # unwrap(from_u32(x))
            if t is not None and t.op == "call" and t.args[0] == "core::option::Option::<T>::unwrap":
                c = t.args[1][0]
                if c.op == "call" and c.args[0] == "core::char::methods::<impl char>::from_u32":
                    return c.args[1][0]
            return None
        zx, nx = from_u32_of(z), from_u32_of(n)
        okz = zx is not None and is_const(zx) and const_val(zx) == 0xA4
        okn = nx is not None and nx.op == "cast" and nx.args[1].op == "arg" and nx.args[2] == "u32"
        res.ob("X-map", "to_char | byte 0 reads back as U+00A4, byte c as U+00c (char::from_u32 of a value <= 255 is always Some)", okz and okn and len(seen) == 2,
               "; ".join("%s -> %s" % (k, show(v, fa.names)) for k, v in seen.items()), f.loc, sample={k: show(v, fa.names) for k, v in seen.items()})
    f = prog.fn(DFS + "::push")
    if f is None:
        res.missing("X-map", DFS + "::push")
    else:
        res.fn(f)
        fa = FA(f, prog)
        pushes = [(b, fa.call_args(b)) for b, t in f.calls() if callee_of(t) == "tinyvec::ArrayVec::<A>::push"]
        ok = False
        d = ""
        if len(pushes) == 1:
            v = pushes[0][1][1]
            d = show(v, fa.names)
            if v.op == "phi":
                ops = fa.phi_operands(v)
                m = {}
                for pb, w in ops:
                    fcs = [fact_of_guard(g) for g in fa.guards(pb) if g[4] == "switch"]
                    z = [fc for fc in fcs if fc[0] in ("Eq", "Ne") and fc[1].op == "arg" and fc[1].args[1] == 2 and is_const(fc[2]) and const_val(fc[2]) == 0]
                    if len(z) == 1:
                        m[z[0][0]] = w
                ok = set(m) == {"Eq", "Ne"} and is_const(m["Eq"]) and const_val(m["Eq"]) == 0xA4 and m["Ne"].op == "arg" and m["Ne"].args[1] == 2
        res.ob("X-map", "push | a decoded byte 0 is stored as 0xA4, every other byte unchanged", ok, d, f.loc)
    # chars(): iterator over the bytes mapped by to_char
    f = prog.fn("<" + CHARS + " as core::iter::Iterator>::next")
    if f is None:
        res.missing("X-map", CHARS + "::next")
    else:
        res.fn(f)
        fa = FA(f, prog)
        calls = [callee_of(t) for b, t in f.calls()]
        ok = CHARS + "::to_char" in calls and any(c and "slice::Iter" in c and c.endswith("::next") for c in calls)
        # value flow: every Some(..) returned is to_char(*item) with item the iterator's own next() result, nothing in between
        somes = 0
        for b in sorted(f.reachable()):
            for i, s_ in enumerate(f.blocks[b]["stmts"]):
                if s_["k"] == "assign" and s_["place"]["local"] == 0 and s_["rv"]["k"] == "aggregate" and s_["rv"].get("vname") == "Some":
                    somes += 1
                    v = fa.rv_term(s_["rv"], (b, i))
                    x = v.args[3][0]
                    good = x.op == "call" and x.args[0] == CHARS + "::to_char"
                    if good:
                        y = x.args[1][0]
                        while y.op in ("memval", "mem"):
                            y = y.args[0]
                        # payload of `?` (Try::branch .. Continue) on slice::Iter::next
                        good = not any(z.op in ("bin", "un", "cast") for z in subterms(x.args[1][0])) and \
                            any(z.op == "call" and "slice::Iter" in z.args[0] and z.args[0].endswith("::next") for z in subterms(x.args[1][0]))
                    ok = ok and good
        res.ob("X-map", "chars().next() | yields to_char of the next stored byte, unmodified", ok and somes >= 1, str(calls), f.loc)


def prefix_loop(prog, f, tp):
    """One loop that offers every item of the input's own iterator to `tp` (a try_push) in order and leaves at the first refusal.
    -> (ok, detail, number of try_push calls)"""
    fa = FA(f, prog)
    tps = [(b, t) for b, t in f.calls() if callee_of(t) == tp]
    ok = False
    d = ""
    if len(tps) == 1 and len(f.loops()) == 1:
        b, t = tps[0]
        h, body = list(f.loops().items())[0]
        r = fa.call_term(b)
        # is_err(result) true  -> leaves the loop ; false -> continues
        for x in sorted(body):
            tt = f.term(x)
            if tt["k"] == "switch":
                c = fa.op_term(tt["discr"], (x, len(f.blocks[x]["stmts"])))
                if c.op == "call" and c.args[0] == "core::result::Result::<T, E>::is_err" and c.args[1][0] is r:
                    for s in f.succ(x):
                        eg = fa.edge_guard(x, s)
                        truth = any((g[1] == "eq" and g[2] == 1) or (g[1] == "ne" and 0 in g[2]) for g in eg)
                        if truth and s not in body:
                            ok = True
                            d = "break on the first Err of try_push"
                if c.op == "discr" and c.args[0] is r:
                    # match on the result itself (a desugared try_for_each / `?`): Err leaves the loop, Ok goes on
                    leaves = {}
                    for s in f.succ(x):
                        for g in fa.edge_guard(x, s):
                            if g[0] is c and g[1] == "eq":
                                leaves[g[2]] = not _stays_in_loop(f, s, body)
                    if leaves.get(1) is True and leaves.get(0) is False:
                        ok = True
                        d = "leaves the loop on the first Err of try_push (match on the result)"
        # all characters are offered in order: the loop is driven by the input iterator itself - chars() of the argument, or the argument
        # iterator - through into_iter only; an adaptor that limits, skips or filters (take, skip, step_by, filter ..) drops characters
        nxs = [(bb, tt) for bb, tt in f.calls() if bb in body and (callee_of(tt) or "").endswith("::next")]
        drive = False
        if len(nxs) == 1:
            src = libmodel.iterator_source(fa.call_term(nxs[0][0]), fa)
            if src is not None:
                y = src[0]
                chain = []
                while y.op == "call" and y.args[1] and len(chain) < 6:
                    chain.append(y.args[0])
                    y = y.args[1][0]
                while y.op in ("ref", "mem", "memval"):
                    y = y.args[0]
                plain = all(c.endswith("::into_iter") or c == "core::str::<impl str>::chars" for c in chain)
                drive = plain and y.op == "arg"
        if ok and not drive:
            ok = False
            d = "the loop is not driven by the input's own iterator (an adaptor limits or filters the characters offered)"
    return ok, d, len(tps)


def rule_capacity(prog, res):
    """X-cap: try_push guards dominate the writes; from_iter / From<&str> stop at the first character that does not fit."""
    _sem = char_semantics(prog)
    _dec = {n: CSEM_KEYS[n] for n in ("try_push", "try_push_cap") if _sem.get(n, (None,))[0]}
    if len(_dec) == 2:
        res = CSemBacked(res, _dec)
    for path in (DFS + "::try_push", AS + "::try_push"):
        f = prog.fn(path)
        if f is None:
            res.missing("X-cap", path)
            continue
        res.fn(f)
        fa = FA(f, prog)
        iv = Intervals(fa, prog)
        n = 0
        for b, t in f.calls():
            c = callee_of(t)
            if c == "tinyvec::ArrayVec::<A>::push":
                n += 1
                ok, d = panics.push_safe(f, fa, iv, b, fa.call_args(b)[0])
                res.ob("X-cap", "%s | push is dominated by len + n <= capacity" % path, ok, d, {"file": f.loc["file"], "line": t["line"]}, sample=d)
            elif c == "tinyvec::ArrayVec::<A>::extend_from_slice":
                n += 1
                ok, d = panics.extend_safe(f, fa, iv, b, fa.call_args(b), None)
                res.ob("X-cap", "%s | extend_from_slice is dominated by len + len_utf8(ch) <= capacity and writes exactly that many bytes" % path, ok, d,
                       {"file": f.loc["file"], "line": t["line"]}, sample=d)
        res.floor("X-cap", "%s writes" % path, n, 1)
        # exactness: the refusing condition is len + n > capacity, not stricter (a stricter guard would drop a character that fits)
        exact = False
        dd = []
        for b, t in f.calls():
            if callee_of(t) in ("tinyvec::ArrayVec::<A>::push", "tinyvec::ArrayVec::<A>::extend_from_slice"):
                for c, fc in iv.facts(b):
                    if c[0] == "le":
                        dct = dict(c[1])
                        lens = [a for a in dct if a.op == "call" and a.args[0] in libmodel.LEN_FNS]
                        caps = [a for a in dct if a.op == "call" and a.args[0] in libmodel.CAP_FNS]
                        if lens and caps and dct[lens[0]] == 1 and dct[caps[0]] == -1:
                            others = [a for a in dct if a not in lens and a not in caps]
                            if not others:
                                exact = c[2] == 1
                                dd.append("len + %d <= capacity" % c[2])
                            elif len(others) == 1 and dct[others[0]] == 1:
                                exact = c[2] == 0
                                dd.append("len + %s + %d <= capacity" % (show(others[0], fa.names), c[2]))
        res.ob("X-cap", "%s | a character is refused exactly when it does not fit (guard is not stricter than len + n > capacity)" % path, exact,
               "; ".join(sorted(set(dd))), f.loc)
        # the rejecting arm returns Err without writing
        errs = []
        for b in sorted(f.reachable()):
            for i, s in enumerate(f.blocks[b]["stmts"]):
                if s["k"] == "assign" and s["place"]["local"] == 0 and s["rv"]["k"] == "aggregate" and s["rv"].get("vname") == "Err":
                    errs.append(b)
        def _touches_self(e):
            # a call that receives a pointer into *self (the string's vector), as opposed to a scratch buffer of the function
            try:
                ars = fa.call_args(e[1])
            except Exception:
                return True
            for a_ in ars:
                for x_ in subterms(a_):
                    if x_.op == "arg" and x_.args[1] == 1:
                        return True
            return False
        writes = [e for e in fa.mem_events() if e[0] == "call" and _touches_self(e)]
        okerr = len(errs) == 1 and not any(f.dominates(e[1], errs[0]) or e[1] in f.reach_from(errs[0]) for e in writes)
        res.ob("X-cap", "%s | a character that does not fit is refused without touching the buffer" % path, okerr, "", f.loc)
    # 1-byte arm of ArrayString::try_push writes `ch as u8` only when len_utf8 == 1
    f = prog.fn(AS + "::try_push")
    if f is not None:
        fa = FA(f, prog)
        ok = False
        npush = 0
        for b, t in f.calls():
            if callee_of(t) == "tinyvec::ArrayVec::<A>::push":
                npush += 1
                a = fa.call_args(b)
                g = [x for x in fa.guards(b) if x[0].op == "call" and x[0].args[0] == "core::char::methods::<impl char>::len_utf8" and x[1] == "eq" and x[2] == 1]
                ok = bool(g) and a[1].op == "cast" and a[1].args[1] is g[0][0].args[1][0]
                if not ok and a[1].op == "cast":
                    # `ch.is_ascii()` holds exactly for the code points below 0x80 - the characters whose UTF-8 encoding is one byte
                    def _chr(x):
                        while x.op in ("ref", "mem", "memval"):
                            x = x.args[0]
                        return x
                    g2 = [x for x in fa.guards(b) if x[0].op == "call" and x[0].args[0] == "core::char::methods::<impl char>::is_ascii"
                          and ((x[1] == "eq" and x[2] == 1) or (x[1] == "ne" and 0 in x[2]))]
                    ok = bool(g2) and (_chr(g2[0][0].args[1][0]) is _chr(a[1].args[1]) or
                                       show(_chr(g2[0][0].args[1][0]), fa.names) == show(_chr(a[1].args[1]), fa.names))
        if npush == 0:
            # no single-byte shortcut at all: every character goes through extend_from_slice(encode_utf8(ch).as_bytes()) (checked below)
            exts = [fa.call_args(b)[1] for b, t in f.calls() if callee_of(t) == "tinyvec::ArrayVec::<A>::extend_from_slice"]
            def _is_enc(x):
                while x.op in ("ref", "mem", "memval"):
                    x = x.args[0]
                if x.op == "call" and x.args[0] == "core::str::<impl str>::as_bytes":
                    y = x.args[1][0]
                    while y.op in ("ref", "mem", "memval"):
                        y = y.args[0]
                    z = y.args[1][0] if y.op == "call" and y.args[0] == "core::char::methods::<impl char>::encode_utf8" else None
                    return z is not None and z.op == "arg" and z.args[1] == 2
                return False
            ok = len(exts) == 1 and _is_enc(exts[0])
        res.ob("X-utf8", "ArrayString::try_push | a single byte is written only for a character whose UTF-8 length is 1", ok,
               "no single-byte write; the bytes appended are encode_utf8(ch)" if npush == 0 and ok else "", f.loc)
    # prefix loops
    loops = [("<util::Df88591String<N> as core::iter::FromIterator<char>>::from_iter", DFS + "::try_push"),
             ("<util::array_string::ArrayString<N> as core::iter::FromIterator<char>>::from_iter", AS + "::try_push"),
             ("<util::array_string::ArrayString<N> as core::convert::From<&str>>::from", AS + "::try_push")]
    for path, tp in loops:
        f = prog.fn(path)
        if f is None:
            res.missing("X-cap", path)
            continue
        res.fn(f)
        ok, d, ntp = prefix_loop(prog, f, tp)
        tps = [1] * ntp
        if not ok and path.endswith("From<&str>>::from"):
            # = value.chars().collect(): the loop is the one of FromIterator<char> (checked above)
            calls = [callee_of(tt) for bb, tt in f.calls()]
            if sorted(c.rsplit("::", 1)[-1] for c in calls if c) == ["chars", "collect"] and not f.loops():
                ok = True
                d = "= chars().collect() (uses from_iter)"
        if not ok and not tps:
            ok, d = bulk_prefix_writer(prog, f)
        res.ob("X-cap", "%s | keeps the longest prefix of whole characters that fits (stops at the first refusal)" % path, ok, d, f.loc, sample=d)
    # From<&str> for Df88591String = value.chars().collect()
    f = prog.fn("<util::Df88591String<N> as core::convert::From<&str>>::from")
    if f is None:
        res.missing("X-cap", "Df88591String::from(&str)")
    else:
        res.fn(f)
        calls = [callee_of(t) for b, t in f.calls()]
        ok = "core::str::<impl str>::chars" in calls and any(c and c.endswith("Iterator::collect") for c in calls)
        if not ok:
            # the same thing without the detour through collect(): Self::from_iter(value.chars())
            fa_ = FA(f, prog)
            fi = [(b, t) for b, t in f.calls() if callee_of(t) == "<util::Df88591String<N> as core::iter::FromIterator<char>>::from_iter"]
            if len(fi) == 1 and len(calls) == 2 and not f.loops():
                a0 = fa_.call_args(fi[0][0])[0]
                ok = a0.op == "call" and a0.args[0] == "core::str::<impl str>::chars" and fi[0][1]["dest"]["local"] == 0
        res.ob("X-cap", "Df88591String::from(&str) | = chars().collect() (uses from_iter)", ok, str(calls), f.loc)


def _stays_in_loop(f, s, body):
    """s (or the block an unconditional jump chain from s ends in) belongs to the loop"""
    seen = 0
    while s not in body and f.term(s)["k"] == "goto" and seen < 4:
        s = f.term(s)["target"]
        seen += 1
    return s in body


def _short_fact(fc):
    """len(..) < n, in either spelling (`len < n` true, or `n <= len` false which reads n > len)"""
    return len(fc) == 3 and ((fc[0] == "Lt" and fc[1].op == "len") or (fc[0] == "Gt" and fc[2].op == "len"))


def rule_utf8_writers(prog, res):
    """X-utf8: the byte vector of ArrayString is private and written only by try_push; 1029 decode validates UTF-8."""
    adt = prog.adts.get("util::array_string::ArrayString")
    if adt is None:
        res.missing("X-utf8", "util::array_string::ArrayString")
        return
    flds = adt["variants"][0]["fields"]
    res.ob("X-utf8", "ArrayString | the byte vector field is private", len(flds) == 1 and not flds[0]["pub"], str([(x["name"], x["pub"]) for x in flds]))
    writers = set()
    builders = set()
    for p, f in prog.fns.items():
        uses = False
        for blk in f.blocks:
            for s in blk["stmts"]:
                if s["k"] == "assign" and s["rv"]["k"] == "aggregate" and s["rv"].get("path") == "util::array_string::ArrayString":
                    builders.add(p)
                if s["k"] == "assign" and s["rv"]["k"] == "ref" and s["rv"]["mut"]:
                    pl = s["rv"]["place"]
                    for pr in pl["proj"]:
                        if pr["k"] == "field" and pr["ty"].get("k") == "adt" and pr["ty"]["path"] == "tinyvec::ArrayVec":
                            # &mut x.vec where x: ArrayString ?
                            uses = True
        if uses:
            # confirm the base type is ArrayString
            fa = None
            for b, t in f.calls():
                for a in t["args"]:
                    pass
            lt = [ty for ty in f.locals if (ty.get("k") == "adt" and ty["path"] == "util::array_string::ArrayString") or
                  (ty.get("k") == "ref" and ty["to"].get("k") == "adt" and ty["to"]["path"] == "util::array_string::ArrayString")]
            if lt:
                writers.add(p)
    others = sorted(writers - {AS + "::try_push"})
    bulk = {}
    for p in others:
        bulk[p] = bulk_prefix_writer(prog, prog.fns[p])
        if bulk[p][0]:
            res.fn(prog.fns[p])
            res.ob("X-utf8", "%s | bulk copy of a &str prefix cut at a character boundary (valid UTF-8 by construction)" % p, True, bulk[p][1], prog.fns[p].loc)
    bad = [p for p in others if not bulk[p][0]]
    res.ob("X-utf8", "ArrayString | only try_push takes the byte vector mutably", not bad,
           "; ".join("%s (%s)" % (p, bulk[p][1]) for p in bad) or str(sorted(writers)), sample=sorted(writers))
    allowed_builders = {AS + "::new", "<util::array_string::ArrayString<N> as core::default::Default>::default",
                        "<util::array_string::ArrayString<N> as core::clone::Clone>::clone"}
    res.ob("X-utf8", "ArrayString | values are built only empty (new/default) or by clone", builders <= allowed_builders, str(sorted(builders)))
    f = prog.fn(AS + "::new")
    if f is not None:
        fa = FA(f, prog)
        v = fa.end_val(0, f.return_blocks()[0])
        ok = v.op == "agg" and v.args[3] and v.args[3][0].op == "call" and v.args[3][0].args[0] == "tinyvec::ArrayVec::<A>::new"
        res.ob("X-utf8", "ArrayString::new | starts empty", ok, show(v, fa.names), f.loc)
    # 1029 decode
    f = prog.fn("df::dfs::df_msg1029_utf8_str::decode")
    if f is None:
        if "msg1029" in set(prog.crate["features"]):
            res.missing("X-utf8", "df::dfs::df_msg1029_utf8_str::decode")
        return
    res.fn(f)
    fa = FA(f, prog)
    froms = [(b, t) for b, t in f.calls() if callee_of(t) == "<util::array_string::ArrayString<N> as core::convert::From<&str>>::from"]
    ok = False
    d = ""
    if len(froms) == 1:
        b, t = froms[0]
        a = fa.call_args(b)
        x = a[0]
        # Ok payload of from_utf8(..)
        if x.op == "field" and x.args[0].op == "downcast" and x.args[0].args[1] == 0 and x.args[0].args[0].op == "call" \
                and x.args[0].args[0].args[0] == "core::str::from_utf8":
            r = x.args[0].args[0]
            ok = any(g[0] is mk("discr", r) and g[1] == "eq" and g[2] == 0 for g in fa.guards(b))
            d = "ArrayString::from(Ok payload of %s)" % show(r, fa.names)
    res.ob("X-utf8", "1029 decode | text is accepted only on the Ok arm of core::str::from_utf8", ok, d, f.loc, sample=d)
    # what is validated and kept is exactly the `len` bytes announced by the 8-bit byte count, taken from the parser's position
    okf = False
    dd = ""
    fu = [(b, fa.call_args(b)) for b, t in f.calls() if callee_of(t) == "core::str::from_utf8"]
    if len(fu) == 1:
        from framing_slices import as_slice
        sl = as_slice(fu[0][1][0])
        if sl is not None and sl[3] == "RangeTo":
            base, lo, hi, kind = sl
            x = hi
            while x.op == "cast":
                x = x.args[1]
            from lists import _continue_payload
            src = _continue_payload(x)
            isdata = base.op == "call" and base.args[0] == "df::parser::Parser::data"
            okf = isdata and src is not None and src.op == "call" and src.args[0] == "df::parser::Parser::parse" and is_const(src.args[1][1]) and const_val(src.args[1][1]) == 8
            dd = "from_utf8(%s[..%s])" % (show(base, fa.names), show(hi, fa.names))
    res.ob("X-utf8", "1029 decode | the text is exactly the `byte count` bytes at the parser's position", okf, dd, f.loc)
    errs = set()
    for b in sorted(f.reachable()):
        for i, s in enumerate(f.blocks[b]["stmts"]):
            if s["k"] == "assign" and s["place"]["local"] == 0 and s["rv"]["k"] == "aggregate" and s["rv"].get("vname") == "Err":
                v = fa.rv_term(s["rv"], (b, i))
                _ev = err_variant(v, fa)
                if _ev is not None:
                    errs.add(_ev)
    res.ob("X-utf8", "1029 decode | invalid UTF-8 is reported as InvalidUtf8String", "InvalidUtf8String" in errs, str(sorted(errs)), f.loc)
    # exactness: text is rejected ONLY when the body is too short or the bytes are not UTF-8 (any other rejection would
    # refuse text the encoder can produce)
    from algebra import fact_of_guard as _fg
    extra_rej = []
    accept = set()
    for b in sorted(f.reachable()):
        for i, s_ in enumerate(f.blocks[b]["stmts"]):
            if s_["k"] == "assign" and s_["place"]["local"] == 0 and s_["rv"]["k"] == "aggregate" and s_["rv"].get("vname") == "Ok":
                accept |= {(g[0], g[1], g[2]) for g in fa.guards(b)}
    for b in sorted(f.reachable()):
        for i, s_ in enumerate(f.blocks[b]["stmts"]):
            if s_["k"] == "assign" and s_["place"]["local"] == 0 and s_["rv"]["k"] == "aggregate" and s_["rv"].get("vname") == "Err":
                v = fa.rv_term(s_["rv"], (b, i))
                variant = err_variant(v, fa)
                if variant is None:
                    continue
                gs = [g for g in fa.guards(b) if g[4] == "switch"]
                reason = None
                for g in gs:
                    fc = _fg(g)
                    if _short_fact(fc) and variant == "BufferOverflow":
                        reason = "short"
                    if fc[0] == "discr" and fc[1].op == "call" and fc[1].args[0] == "core::str::from_utf8" and variant == "InvalidUtf8String" \
                            and ((fc[2] == "eq" and fc[3] == 1) or (fc[2] == "ne" and 0 in fc[3])):
                        reason = "utf8"
                # every *other* branch fact on this path must also hold on an accepting path (i.e. it is not a rejection condition)
                others = [g for g in gs if not _short_fact(_fg(g)) and not (_fg(g)[0] == "discr" and _fg(g)[1].op == "call"
                                                                           and _fg(g)[1].args[0] == "core::str::from_utf8")]
                others = [g for g in others if not (g[0].op == "discr" and g[0].args[0].op == "call" and g[0].args[0].args[0].endswith("Try>::branch"))]
                # facts shared with the accepting path are not rejection conditions
                others = [g for g in others if (g[0], g[1], g[2]) not in accept]
                if reason is None or others:
                    extra_rej.append("%s under %s" % (variant, [show(g[0], fa.names)[:80] for g in gs if g in others or reason is None]))
    res.ob("X-utf8", "1029 decode | text is rejected only for a short body or invalid UTF-8 (no other condition)", not extra_rej, "; ".join(extra_rej)[:300], f.loc)


_LEAD = {}


def _is_leading_byte_count(prog, x):
    """x = count(filter(iter(as_bytes(s)), p)) with p(b) true exactly for the bytes that are not of the form 0b10xx_xxxx (decided by
    evaluating the predicate closure on all 256 byte values)"""
    if not (x.op == "call" and x.args[0].endswith("Iterator>::count") or (x.op == "call" and x.args[0] == "core::iter::Iterator::count")):
        return False
    y = x.args[1][0] if x.args[1] else None
    if y is None or not (y.op == "call" and y.args[0] == "core::iter::Iterator::filter" and len(y.args[1]) == 2):
        return False
    src, clo = y.args[1]
    if not (src.op == "call" and src.args[0] == "core::slice::<impl [T]>::iter"):
        return False
    z = src.args[1][0]
    while z.op in ("ref", "mem", "memval"):
        z = z.args[0]
    if not (z.op == "call" and z.args[0] == "core::str::<impl str>::as_bytes"):
        return False
    if clo.op != "closure":
        return False
    path = clo.args[0]
    key = (id(prog), path)
    if key not in _LEAD:
        ok = False
        try:
            import guardsem
            from bitsem import Ref, State, Closure
            f = prog.fn(path)
            ok = f is not None
            for bval in range(256):
                if not ok:
                    break
                it = guardsem.TabInterp(prog, f, 64)
                it.choices = {"full": False}
                st = State()
                st.locals[-20] = bval
                st.locals[-21] = Ref(("local", -20, (), st.frame))
                st.locals[-22] = Closure(path, [])
                st.locals[1] = Ref(("local", -22, (), st.frame))
                st.locals[2] = Ref(("local", -21, (), st.frame))
                r = it.run_fn(st)
                if hasattr(r, "concrete"):
                    r = r.concrete()
                ok = r in (0, 1, True, False) and bool(r) == ((bval & 0xC0) != 0x80)
        except Exception:
            ok = False
        _LEAD[key] = ok
    return _LEAD[key]


def rule_limits(prog, res):
    """X-lim / K-adeq on 1029 encode: counts are refused unless they fit their fields."""
    f = prog.fn("df::dfs::df_msg1029_utf8_str::encode")
    if f is None:
        if "msg1029" in set(prog.crate["features"]):
            res.missing("X-lim", "df::dfs::df_msg1029_utf8_str::encode")
        return
    res.fn(f)
    fa = FA(f, prog)
    iv = Intervals(fa, prog)
    puts = [(b, fa.call_args(b), t) for b, t in f.calls() if callee_of(t) == "df::assembler::Assembler::put"]
    counts = [(b, a, t) for b, a, t in puts if any((x.op == "call" and ("count" in x.args[0] or x.args[0].endswith("::len"))) or x.op == "len" for x in subterms(a[1]))]
    res.ob("X-lim", "1029 encode | two count fields (characters, bytes)", len(counts) == 2, "found %d" % len(counts), f.loc)
    # both counts and the bytes are taken from the same string: the deref of the argument
    def from_arg_string(t, blk=None, depth=0):
        for x in subterms(t):
            if x.op == "loc" and depth < 2 and blk is not None:
                if from_arg_string(fa.val(x.args[1], (blk, 10 ** 6)), blk, depth + 1):
                    return True
            if (x.op == "call" and x.args[0] in ("core::str::<impl str>::chars", "core::str::<impl str>::bytes", "core::str::<impl str>::as_bytes")) or x.op == "len":
                # chars() / bytes() / as_bytes() of, or the byte length (str::len, as_bytes().len()) of ..
                y = x.args[1][0] if x.op == "call" else x.args[0]
                while y.op in ("ref", "mem", "memval"):
                    y = y.args[0]
                if y.op == "call" and y.args[0] == "core::str::<impl str>::as_bytes":
                    y = y.args[1][0]
                    while y.op in ("ref", "mem", "memval"):
                        y = y.args[0]
                if y.op == "call" and y.args[0].endswith("ArrayString<N> as core::ops::Deref>::deref"):
                    z = y.args[1][0]
                    while z.op in ("ref", "mem", "memval"):
                        z = z.args[0]
                    return z.op == "arg" and z.args[1] == 2
        return False
    res.ob("X-lim", "1029 encode | counts are computed on the message's own text", all(from_arg_string(a[1], b) for b, a, t in counts) and len(counts) == 2, "", f.loc)
    kinds = {}
    for b, a, t in counts:
        w = const_val(a[2]) if is_const(a[2]) else None
        v = a[1]
        src = v.args[1] if v.op == "cast" else v
        si = iv.interval(src, b)
        ok = w is not None and si is not None and 0 <= si[0] and si[1] <= (1 << w) - 1
        if not ok and v.op == "cast" and w is not None and si is not None:
            # narrowed first (try_from / `as u8` under a <= u8::MAX test), then limited: the cast keeps the value (source within the target
            # type) and the narrowed value is within the field
            sc = iv.interval(v, b)
            tb = (ty_of(v) or {}).get("bits")
            if sc is not None and tb and 0 <= si[0] and si[1] <= (1 << tb) - 1 and 0 <= sc[0] and sc[1] <= (1 << w) - 1:
                ok = True
                si = sc
        what = "chars" if any(x.op == "call" and "Chars" in x.args[0] for x in subterms(v)) else "bytes"
        if what == "bytes" and any(_is_leading_byte_count(prog, x) for x in subterms(v)):
            # the number of bytes that are not UTF-8 continuation bytes (0b10xx_xxxx) of a str = its number of characters
            what = "chars"
        kinds[what] = (w, si)
        res.ob("X-lim", "1029 encode | the %s count written in %s bits cannot wrap (refused above %s)" % (what, w, (1 << w) - 1 if w else "?"), ok,
               "count in %s" % (si,), {"file": f.loc["file"], "line": t["line"]}, sample={"count": what, "bits": w, "interval": si})
    res.ob("X-lim", "1029 encode | limits are 127 characters / 255 bytes", kinds.get("chars", (None, None))[0] == 7 and kinds.get("bytes", (None, None))[0] == 8
           and kinds["chars"][1] is not None and kinds["chars"][1][1] == 127 and kinds["bytes"][1] is not None and kinds["bytes"][1][1] == 255,
           str(kinds), f.loc)
    # the bytes written are the string's own bytes, in order
    loops = f.loops()
    okb = False
    for b, a, t in puts:
        if (b, a, t) in counts:
            continue
        v = a[1]
        exact = v.op == "field" and v.args[1] == 0 and v.args[0].op == "downcast" and v.args[0].args[1] == 1 and v.args[0].args[0].op == "call" \
            and v.args[0].args[0].args[0] == "<core::str::Bytes as core::iter::Iterator>::next"
        if not exact:
            # `for &b in text.as_bytes()`: the item is a reference into the byte slice, the value written is what it points to
            y_ = v
            while y_.op in ("memval", "mem"):
                y_ = y_.args[0]
            if y_ is not v and y_.op == "field" and y_.args[1] == 0 and y_.args[0].op == "downcast" and y_.args[0].args[1] == 1 and y_.args[0].args[0].op == "call" \
                    and y_.args[0].args[0].args[0] in ("<core::slice::Iter<'a, T> as core::iter::Iterator>::next", "<core::slice::Iter<T> as core::iter::Iterator>::next"):
                exact = True
                v = y_
        if exact and is_const(a[2]) and const_val(a[2]) == 8:
            okb = any(b in body for body in loops.values())
            if okb:
                # ... every one of them: the write is performed by every completed iteration, and the loop is driven by bytes() of the
                # message's own text directly (no adaptor that limits or filters), so exactly `byte count` bytes follow the count
                import looprules
                okw, dw = looprules.action_complete(f, fa, b)
                src = libmodel.iterator_source(v.args[0].args[0], fa)
                drive = False
                if src is not None:
                    y = src[0]
                    chain = []
                    while y.op == "call" and y.args[1] and len(chain) < 8:
                        chain.append(y.args[0])
                        y = y.args[1][0]
                        while y.op in ("ref", "mem", "memval"):
                            y = y.args[0]
                    BYTE_SRC = ("core::str::<impl str>::bytes", "core::str::<impl str>::as_bytes")
                    drive = all(c_.endswith("::into_iter") or c_ in BYTE_SRC or c_ == "core::slice::<impl [T]>::iter" or c_.endswith("Deref>::deref") for c_ in chain) \
                        and any(c_ in BYTE_SRC for c_ in chain) and from_arg_string(src[0], b)
                res.ob("X-lim", "1029 encode | no byte is skipped: the write is on every iteration and the loop runs over bytes() of the text itself", okw and drive,
                       dw if not okw else ("iterator chain %s" % chain if src is not None else "iterator source not recognised"), f.loc)
    res.ob("X-lim", "1029 encode | every byte of the text is written with 8 bits", okb, "", f.loc)
    errs = set()
    for b in sorted(f.reachable()):
        for i, s in enumerate(f.blocks[b]["stmts"]):
            if s["k"] == "assign" and s["place"]["local"] == 0 and s["rv"]["k"] == "aggregate" and s["rv"].get("vname") == "Err":
                v = fa.rv_term(s["rv"], (b, i))
                _ev = err_variant(v, fa)
                if _ev is not None:
                    errs.add(_ev)
    res.ob("X-lim", "1029 encode | over-long text is refused with an error", bool(errs), str(sorted(errs)), f.loc)
    # exactness of the refusal: an Err built in this function is decided by count-limit tests only (comparisons of the character / byte count
    # with a constant); every other branch fact on its path also holds on the accepting path
    nerr = 0
    okex = True
    why = ""
    accept_facts = set()
    for b_, a_, t_ in puts:
        accept_facts |= {(g[0], g[1], g[2] if not isinstance(g[2], (list, set)) else tuple(g[2])) for g in fa.guards(b_) if g[4] == "switch"}

    def _is_count(t_):
        return any((x.op == "call" and ("count" in x.args[0] or x.args[0].endswith("::len"))) or x.op == "len" for x in subterms(t_))
    for b in sorted(f.reachable()):
        for i, s_ in enumerate(f.blocks[b]["stmts"]):
            if s_["k"] == "assign" and not s_["place"]["proj"] and s_["rv"]["k"] == "aggregate" and s_["rv"].get("vname") == "Err" \
                    and s_["rv"].get("path") == "core::result::Result":
                # every place where an Err(RtcmError::X) is built - directly into the return place or into the result of an inlined helper
                if err_variant(fa.rv_term(s_["rv"], (b, i)), fa) is None:
                    continue          # an error handed on (from a put, or from a helper's result)
                nerr += 1
                own = [g for g in fa.guards(b) if g[4] == "switch" and (g[0], g[1], g[2] if not isinstance(g[2], (list, set)) else tuple(g[2])) not in accept_facts
                       and g[0].op != "discr"]
                conds = [g[0] for g in own]
                # an Err block shared by several tests (`a > 255 || b > 127`): the test at the end of each incoming edge
                seen_, st_ = set(), list(f.pred(b))
                while st_:
                    pb = st_.pop()
                    if pb in seen_ or len(seen_) > 40:
                        continue
                    seen_.add(pb)
                    t = f.term(pb)
                    if t["k"] == "goto":
                        st_.extend(f.pred(pb))        # straight-line blocks (threaded helper tails): keep walking back
                    elif t["k"] == "switch":
                        c_ = fa.op_term(t["discr"], (pb, len(f.blocks[pb]["stmts"])))
                        # switches on a discriminant of a value built on the spot (Option / Result plumbing of the helper) are not tests
                        if c_.op == "discr" or (c_.op == "loc"):
                            st_.extend(f.pred(pb))
                        elif not any(c_ is x for x in conds):
                            conds.append(c_)
                    elif t["k"] == "call" and not own:
                        # reached right after a call (count(), len()): no test in between on this edge
                        pass
                if not conds:
                    okex = False
                    why = "an Err is returned on a path the accepting path shares entirely"
                for c in conds:
                    cmp_ok = c.op == "bin" and c.args[0] in ("Gt", "Ge", "Lt", "Le") and ((is_const(c.args[2]) and _is_count(c.args[1])) or (is_const(c.args[1]) and _is_count(c.args[2])))
                    if not cmp_ok:
                        okex = False
                        why = "refusal decided by %s" % show(c, fa.names)[:120]
    res.ob("X-lim", "1029 encode | the only refusal is the pair of count limits", okex and nerr >= 1, why or "error sites: %d" % nerr, f.loc)


def rule_witness_privacy(prog, res):
    """Encapsulation of Df88591String (tuple field private)."""
    adt = prog.adts.get("util::Df88591String")
    if adt is None:
        res.missing("X-utf8", "util::Df88591String")
        return
    flds = adt["variants"][0]["fields"]
    res.ob("X-map", "Df88591String | the byte vector is private (all writes go through push / push_char / try_push)", len(flds) == 1 and not flds[0]["pub"], "")
    _sem = char_semantics(prog)
    _dec = {n: CSEM_KEYS[n] for n in ("push_char", "try_push") if _sem.get(n, (None,))[0]}
    if _dec:
        res = CSemBacked(res, _dec)
    f = prog.fn(DFS + "::push_char")
    if f is not None:
        res.fn(f)
        fa = FA(f, prog)
        pushes = [fa.call_args(b) for b, t in f.calls() if callee_of(t) == "tinyvec::ArrayVec::<A>::push"]
        ok = len(pushes) == 1 and pushes[0][1].op == "call" and pushes[0][1].args[0] == CHARS + "::from_char"
        res.ob("X-map", "push_char | stores from_char(ch)", ok, "", f.loc)
    f = prog.fn(DFS + "::try_push")
    if f is not None:
        fa = FA(f, prog)
        pushes = [fa.call_args(b) for b, t in f.calls() if callee_of(t) == "tinyvec::ArrayVec::<A>::push"]
        ok = len(pushes) == 1 and pushes[0][1].op == "call" and pushes[0][1].args[0] == CHARS + "::from_char"
        res.ob("X-map", "try_push | stores from_char(ch)", ok, "", f.loc)


# ------------------------------------------------------------------ bulk prefix copy (a second, type-justified way of writing an ArrayString)
STR_LEN = "core::str::<impl str>::len"
STR_BYTES = "core::str::<impl str>::as_bytes"
STR_BOUNDARY = "core::str::<impl str>::is_char_boundary"
EXTEND = "tinyvec::ArrayVec::<A>::extend_from_slice"
_BULK = {}


def bulk_prefix_writer(prog, f):
    """Recognises
            let mut end = value.len().min(N);  while !value.is_char_boundary(end) { end -= 1; }
            let mut s = ArrayString::<N>::new();  s.vec.extend_from_slice(&value.as_bytes()[..end]);  s
    (value: &str parameter, N the capacity).  Every clause is checked on the MIR terms:
      E is a loop-header phi with operands min(len(value), N) from outside and E - 1 from inside; the loop's only branch is on
      is_char_boundary(value, E): true leaves, false decrements; the copy is the only use of the byte vector, into a fresh ArrayString, of
      as_bytes(value)[..E] with the very same E; nothing else in the function can write, index, assert or loop.
    Consequences (the lemma the callers rely on): E is the largest character boundary <= min(len, N) (0 and len are boundaries), so the bytes
    copied are the longest prefix of whole characters that fits, they are valid UTF-8 (a prefix of a str cut at a boundary), E >= 1 where it is
    decremented, E <= len(value) where it indexes, E <= N where it is appended to an empty vector of capacity N, and the loop ends after at
    most min(len, N) steps.   -> (ok, detail)"""
    key = (id(prog), f.path)
    if key in _BULK:
        return _BULK[key]
    r = _bulk_prefix_writer(prog, f)
    _BULK[key] = r
    return r


def _is_mut_borrow(f, d):
    b, i = d[0], d[1]
    try:
        st = f.blocks[b]["stmts"][i]
        return not (st["k"] == "assign" and st["rv"]["k"] in ("ref", "rawptr") and not st["rv"].get("mut"))
    except (IndexError, KeyError, TypeError):
        return True


def _bulk_prefix_writer(prog, f):
    from framing_slices import as_slice, strip_ref
    fa = FA(f, prog)
    names = fa.names
    calls = list(f.calls())
    by = {}
    for b, t in calls:
        by.setdefault(callee_of(t), []).append(b)
    CAPACITY = "tinyvec::ArrayVec::<A>::capacity"
    allowed = {STR_LEN, STR_BYTES, STR_BOUNDARY, EXTEND, AS + "::new", "core::cmp::Ord::min", "core::cmp::min",
               "core::slice::index::<impl core::ops::Index<I> for [T]>::index", CAPACITY}
    extra = [c for c in by if c not in allowed and not (c or "").startswith("core::cmp::impls::<impl core::cmp::Ord for usize>::min")]
    if extra:
        return False, "other calls: %s" % extra[:3]
    if any(len(by.get(c, [])) != 1 for c in (STR_BOUNDARY, EXTEND, AS + "::new", STR_BYTES)):
        return False, "expected exactly one is_char_boundary / extend_from_slice / new / as_bytes call"
    loops = f.loops()
    if len(loops) != 1:
        return False, "expected exactly one loop, found %d" % len(loops)
    h, body = list(loops.items())[0]
    value = strip_ref(fa.start_val(1, 0)) if False else None
    xb = by[EXTEND][0]
    xargs = fa.call_args(xb)
    sl = as_slice(xargs[1])
    if sl is None or sl[3] != "RangeTo":
        return False, "the appended slice is not base[..E]: %s" % show(xargs[1], names)
    base, _lo, E, _k = sl
    if not (base.op == "call" and base.args[0] == STR_BYTES):
        return False, "the appended bytes are not value.as_bytes()[..E]"
    v = base.args[1][0]
    sv = strip_ref(v)
    while sv.op in ("mem", "memval"):
        sv = strip_ref(sv.args[0])
    if sv.op != "arg":
        return False, "the source is not the &str parameter"
    if E.op != "phi" or E.args[2] != h:
        return False, "E is not the loop-header variable: %s" % show(E, names)
    ops = list(fa.phi_operands(E))
    inits = [x for pb, x in ops if pb not in body]
    backs = [x for pb, x in ops if pb in body]
    one = lambda t_: is_const(t_) and const_val(t_) == 1
    if not (backs and all(x.op == "bin" and x.args[0] == "Sub" and x.args[1] is E and one(x.args[2]) for x in backs)):
        return False, "E is not decremented by exactly 1 on the back edge"
    def same_str(a):
        a = strip_ref(a)
        while a.op in ("mem", "memval"):
            a = strip_ref(a.args[0])
        return a is sv
    def is_min(x):
        if not (x.op == "call" and (x.args[0] in ("core::cmp::Ord::min", "core::cmp::min") or "Ord for usize>::min" in x.args[0]) and len(x.args[1]) == 2):
            return False
        a, b_ = x.args[1]
        ln = [y for y in (a, b_) if (y.op == "call" and y.args[0] == STR_LEN and same_str(y.args[1][0])) or (y.op == "len" and same_str(y.args[0]))]
        cap = [y for y in (a, b_) if y not in ln]
        # the other operand is the capacity: the const generic N of ArrayString<N> (an opaque constant in generic MIR), or capacity() of the
        # byte vector of an ArrayString local (the receiver is checked to be a fresh one below; every ArrayString<N> in this body has the same N)
        if len(ln) == 1 and len(cap) == 1 and cap[0].op == "call" and cap[0].args[0] == CAPACITY:
            r_ = cap[0].args[1][0]
            while r_.op in ("ref", "mem", "memval"):
                r_ = r_.args[0]
            if r_.op in ("pf", "field") and r_.args[1] == 0:
                b_ = r_.args[0]
                while b_.op in ("mem", "memval", "ref"):
                    b_ = b_.args[0]
                if b_.op == "loc":
                    return f.locals[b_.args[1]].get("path") == "util::array_string::ArrayString"
                return b_.op == "call" and b_.args[0] == AS + "::new"
            return False
        return len(ln) == 1 and len(cap) == 1 and cap[0].op == "opaque_const" and "N" in [str(z) for z in cap[0].args]
    if not (len(inits) == 1 and is_min(inits[0])):
        return False, "E does not start at min(value.len(), N): %s" % [show(x, names) for x in inits]
    # the loop's only branch: is_char_boundary(value, E)
    bb = by[STR_BOUNDARY][0]
    bargs = fa.call_args(bb)
    if not (same_str(bargs[0]) and bargs[1] is E and bb in body):
        return False, "the boundary test is not is_char_boundary(value, E) inside the loop"
    bt = fa.call_term(bb)
    sw = [x for x in sorted(body) if f.term(x)["k"] == "switch"]
    if len(sw) != 1 or fa.op_term(f.term(sw[0])["discr"], (sw[0], len(f.blocks[sw[0]]["stmts"]))) is not bt:
        return False, "the loop has another branch"
    for s_ in f.succ(sw[0]):
        eg = fa.edge_guard(sw[0], s_)
        truth = any((g[1] == "eq" and g[2] == 1) or (g[1] == "ne" and 0 in g[2]) for g in eg)
        if truth != (s_ not in body):
            return False, "the loop does not leave exactly when the boundary test is true"
    # the receiver: the vector of a fresh ArrayString
    recv = xargs[0]
    r = recv
    while r.op in ("ref", "mem", "memval"):
        r = r.args[0]
    fresh = False
    if r.op == "pf" and r.args[1] == 0 and r.args[0].op == "loc":
        L = r.args[0].args[1]
        ds = [d for d in fa.defs(L) if d[2] != "borrow"]
        if len(ds) == 1:
            val = fa.defterm(L, ds[0][0], ds[0][1], ds[0][2])
            # the only definition is the constructor call, and the only borrow of the vector is the one handed to extend_from_slice
            nb = [d for d in fa.defs(L) if d[2] == "borrow"]
            # shared borrows (capacity()) do not write; at most one mutable borrow, the one handed to extend_from_slice
            nbm = [d for d in nb if _is_mut_borrow(f, d)]
            fresh = val.op == "call" and val.args[0] == AS + "::new" and len(nbm) <= 1
    if not fresh:
        return False, "the receiver is not the byte vector of a fresh ArrayString::new(): %s" % show(recv, names)
    # no other panic-capable construct: the only Assert is the decrement's overflow check
    for b in sorted(f.reachable()):
        t = f.term(b)
        if t["k"] == "assert":
            o = [fa.op_term(x, (b, len(f.blocks[b]["stmts"]))) for x in t["ops"]]
            if not (t["kind"] == "Overflow:Sub" and o[0] is E and one(o[1]) and b in body):
                return False, "another assertion: %s" % t["kind"]
    return True, "E = largest boundary <= min(len(value), N); appends value.as_bytes()[..E] to a fresh ArrayString"
