"""C20: serialising a message with serde and reading it back gives the same message."""
import serderules
import textrules

META = {
    "level": "other",
    "trusted_base": ["serde_derive generates mutually inverse Serialize/Deserialize impls for a type without serde attributes (other than crate = ..)",
                     "tinyvec 1.13.3's ArrayVec impls (sequence of elements; error on overflow), serde's impls for primitives, Option, char, [T; 16]",
                     "rustc type checking of the derived impls (every field type implements the traits)", "mirfacts exporter (AST walk for helper attributes)"],
    "explanation": "Build with features all_msgs,std,serde. (Z-graph) every crate type reachable from Message through field types has both impls; each "
                   "pair is derived, or is one of the two reviewed hand-written pairs; (Z-attr) no type on the graph carries a serde attribute other than  Every serializer sink of Df88591String is the to_char adaptor (no raw view of the Latin-1 bytes), and the visitors offer every character (no limiting adaptor between chars() and the push loop)."
                   "crate = \"sd\" (attributes read from the expanded AST); (Z-buf) Df88591String::serialize hands all its characters to the serializer "
                   "without an intermediate buffer whose byte capacity is below 2*N (Latin-1 letters above U+007F take two UTF-8 bytes), ArrayString "
                   "serialises its whole deref; (Z-vis) the visitors read chars().take(N) / push until full, which with C17's capacity rules returns "
                   "everything a serialised value contains; (Z-vec) the serde feature turns on tinyvec/serde; (X-map, X-utf8) the "
                   "character maps and the ArrayString writer inventory of C17 are imported: serialisation goes through to_char / Deref<str>, so a stored "
                   "byte outside the maps' range or a non-UTF-8 byte vector would break the round trip (or panic).",
    "assumptions": ["floats are not NaN (the property's own precondition: NaN != NaN)", "self-describing data model (property statement)"],
}


def run(ctx, res):
    prog = ctx.prog("K3")
    serderules.rule_graph(prog, res, ctx.repo)
    serderules.rule_handwritten(prog, res)
    textrules.rule_capacity(prog, res)
    # Latin-1 strings are serialised through chars() (to_char) and read back through from_char: the round trip needs
    # from_char(to_char(b)) = b for every byte a string can hold, i.e. the maps of X-map and "a stored byte is never 0"
    textrules.rule_char_maps(prog, res)
    textrules.rule_witness_privacy(prog, res)
    # Serialize goes through Deref<Target = str>: the byte vector of an ArrayString has to be valid UTF-8 whoever wrote it
    import engine
    textrules.rule_utf8_writers(prog, engine.Filtered(res, {"X-utf8"}, ("ArrayString", "text::ArrayString", "writers")))
