"""serde round trip (C20): impl inventory over the type graph of Message, attribute inventory, hand-written impls."""
import re
import textrules
from terms import FA, show, mk, ty_of, is_const, const_val, T, subterms
from facts import callee_of, ty_str
import libmodel

ROOT = "msg::message::Message"
HAND = {"util::Df88591String", "util::array_string::ArrayString"}
TRUSTED_EXTERNAL = {"tinyvec::ArrayVec", "core::option::Option"}


def type_graph(prog):
    """crate ADTs reachable from Message through field types / generic args, plus external ADTs met on the way"""
    seen = {}
    ext = set()
    st = [ROOT]
    while st:
        p = st.pop()
        if p in seen:
            continue
        adt = prog.adts.get(p)
        if adt is None:
            ext.add(p)
            continue
        seen[p] = adt
        for v in adt["variants"]:
            for f in v["fields"]:
                st.extend(_adts_in(f["ty"]))
    return seen, ext


def _adts_in(ty):
    out = []
    if not isinstance(ty, dict):
        return out
    if ty.get("k") == "adt":
        out.append(ty["path"])
        for a in ty.get("args", []):
            out.extend(_adts_in(a))
    for k in ("to", "elem"):
        if k in ty:
            out.extend(_adts_in(ty[k]))
    for e in ty.get("elems", []):
        out.extend(_adts_in(e))
    return out


def _delegates_to_from(v, va, from_path):
    """visit_str(self, v) = Ok(T::from(v)): the keep-the-fitting-prefix behaviour is that of From<&str> (X-cap, checked with it)"""
    calls = [(b, t) for b, t in v.calls()]
    if len(calls) != 1 or callee_of(calls[0][1]) != from_path or v.loops():
        return False
    a = va.call_args(calls[0][0])
    x = a[0]
    while x.op in ("ref", "mem", "memval"):
        x = x.args[0]
    if not (x.op == "arg" and x.args[1] == 2):
        return False
    rets = v.return_blocks()
    if len(rets) != 1:
        return False
    rv = va.end_val(0, rets[0])
    return rv.op == "agg" and rv.args[2] == "Ok" and rv.args[3] and rv.args[3][0] is va.call_term(calls[0][0])


def _zip_fill_form(prog, v, va):
    """`let mut buf = [0u8; N]; let mut len = 0; for (slot, ch) in buf.iter_mut().zip(s.chars()) { *slot = from_char(ch); len += 1 }
    Ok(Df88591String(ArrayVec::from_array_len(buf, len)))`: zip ends with the shorter side, so the first min(N, #chars) characters are mapped by
    from_char into the first slots, in order, and len counts them - the list chars().take(N) + push_char builds.
    -> None when the visitor is not written like this, else a list of reasons why the form is not met (empty = met)."""
    import looprules
    ZIP_NEXT = "<core::iter::Zip<A, B> as core::iter::Iterator>::next"
    calls = [(b, t, callee_of(t)) for b, t in v.calls()]
    names = [c for _, _, c in calls]
    if ZIP_NEXT not in names or not any((c or "").endswith("ArrayVec::<A>::from_array_len") for c in names):
        return None
    why = []
    allowed = {"core::slice::<impl [T]>::iter_mut", "core::str::<impl str>::chars", "core::iter::Iterator::zip", libmodel.INTO_ITER, ZIP_NEXT,
               "util::Df88591StringChars::from_char", "tinyvec::ArrayVec::<A>::from_array_len"}
    for c in names:
        if c not in allowed:
            why.append("calls %s" % c)
    loops = v.loops()
    nexts = [b for b, t, c in calls if c == ZIP_NEXT]
    if len(loops) != 1 or len(nexts) != 1 or names.count("tinyvec::ArrayVec::<A>::from_array_len") != 1:
        return why + ["not one zip loop followed by one from_array_len"]
    h, body = list(loops.items())[0]
    ct = va.call_term(nexts[0])
    item = mk("field", mk("downcast", ct, 1), 0)
    slot, ch = mk("field", item, 0), mk("field", item, 1)
    # the zipped sources: buf.iter_mut() and s.chars()
    src = libmodel.iterator_source(ct, va)
    y = src[0] if src is not None else None
    while y is not None and y.op == "call" and y.args[0] == libmodel.INTO_ITER:
        y = y.args[1][0]
    bufl = None
    if not (y is not None and y.op == "call" and y.args[0] == "core::iter::Iterator::zip" and len(y.args[1]) == 2):
        why.append("the loop does not run over a zip")
    else:
        a_, b_ = y.args[1]
        r_ = a_.args[1][0] if a_.op == "call" and a_.args[0] == "core::slice::<impl [T]>::iter_mut" and a_.args[1] else None
        while r_ is not None and r_.op in ("ref", "mem", "memval", "cast"):
            r_ = r_.args[1] if r_.op == "cast" else r_.args[0]
        if r_ is None or r_.op != "loc":
            why.append("the first zipped iterator is not iter_mut() of a local buffer")
        else:
            bufl = r_.args[1]
        c_ = b_.args[1][0] if b_.op == "call" and b_.args[0] == "core::str::<impl str>::chars" and b_.args[1] else None
        while c_ is not None and c_.op in ("ref", "mem", "memval"):
            c_ = c_.args[0]
        if not (c_ is not None and c_.op == "arg" and c_.args[1] == 2):
            why.append("the second zipped iterator is not chars() of the visited string")
    # the buffer: a local [u8; N] zero-filled once, borrowed once (for iter_mut), moved into from_array_len
    fb = [(b, t) for b, t, c in calls if c == "tinyvec::ArrayVec::<A>::from_array_len"][0]
    if bufl is not None:
        lty = v.locals[bufl]
        defs = [(b, i, s_) for b in sorted(v.reachable()) for i, s_ in enumerate(v.blocks[b]["stmts"]) if s_["k"] == "assign" and s_["place"]["local"] == bufl]
        if not (lty.get("k") == "array" and len(defs) == 1 and not defs[0][2]["place"]["proj"] and defs[0][2]["rv"]["k"] == "repeat"
                and is_const(va.rv_term(defs[0][2]["rv"], defs[0][:2]).args[0] if va.rv_term(defs[0][2]["rv"], defs[0][:2]).args else None)):
            why.append("the buffer is not a local array filled once by [0; N]")
        else:
            rt = va.rv_term(defs[0][2]["rv"], defs[0][:2])
            if const_val(rt.args[0]) != 0:
                why.append("the buffer is not zero-filled")
        borrows = [(b, i) for b in sorted(v.reachable()) for i, s_ in enumerate(v.blocks[b]["stmts"])
                   if s_["k"] == "assign" and s_["rv"]["k"] in ("ref", "addr") and s_["rv"]["place"]["local"] == bufl]
        if len(borrows) != 1 or borrows[0][0] in body:
            why.append("the buffer is borrowed %d times" % len(borrows))
        fa_ = va.call_args(fb[0])
        a0 = fb[1]["args"][0]
        if not (a0["k"] in ("move", "copy") and not a0["place"]["proj"]):
            why.append("from_array_len is not given the buffer")
        else:
            d_ = [s_ for s_ in v.blocks[fb[0]]["stmts"] if s_["k"] == "assign" and s_["place"]["local"] == a0["place"]["local"]]
            src_ok = a0["place"]["local"] == bufl or (len(d_) == 1 and d_[0]["rv"]["k"] == "use" and d_[0]["rv"]["op"]["k"] in ("move", "copy")
                                                      and d_[0]["rv"]["op"]["place"] == {"local": bufl, "proj": []})
            if not src_ok:
                why.append("from_array_len is not given the buffer")
    if fb[0] in body:
        why.append("from_array_len inside the loop")
    # one store per completed iteration: *slot = from_char(ch)
    stores = []
    for x in sorted(body):
        for i, s_ in enumerate(v.blocks[x]["stmts"]):
            if s_["k"] == "assign" and s_["place"]["proj"] and s_["place"]["proj"][0]["k"] == "deref":
                stores.append((x, i, s_))
    if len(stores) != 1:
        why.append("%d stores through a reference per iteration" % len(stores))
    else:
        x, i, s_ = stores[0]
        holder = va.val(s_["place"]["local"], (x, i))
        pv = va.rv_term(s_["rv"], (x, i))
        if holder is not slot or len(s_["place"]["proj"]) != 1:
            why.append("the store does not go to the current slot")
        if not (pv.op == "call" and pv.args[0] == "util::Df88591StringChars::from_char" and len(pv.args[1]) == 1 and pv.args[1][0] is ch):
            why.append("the stored byte is %s, expected from_char(ch) of the zipped character" % show(pv, va.names))
        okc, dc = looprules.action_complete(v, va, x)
        if not okc:
            why.append(dc)
    # the length: 0 before the loop, + 1 on every completed iteration
    ln = va.call_args(fb[0])[1]
    if not (ln.op == "phi" and ln.args[2] == h):
        why.append("the length handed to from_array_len is %s, expected the loop's iteration counter" % show(ln, va.names))
    else:
        for pb, w in va.phi_operands(ln):
            if pb in body:
                from algebra import lin
                la, lc = lin(w)
                if not (lc == 1 and dict(la) == {ln: 1}):
                    why.append("the counter after an iteration is %s" % show(w, va.names))
            elif not (is_const(w) and const_val(w) == 0):
                why.append("the counter starts at %s" % show(w, va.names))
    # the result
    rets = v.return_blocks()
    rv = va.end_val(0, rets[0]) if len(rets) == 1 else None
    okr = rv is not None and rv.op == "agg" and rv.args[2] == "Ok" and rv.args[3] and rv.args[3][0].op == "agg" and rv.args[3][0].args[0] == "util::Df88591String" \
        and len(rv.args[3][0].args[3]) == 1 and rv.args[3][0].args[3][0] is va.call_term(fb[0])
    if not okr:
        why.append("the result is not Ok(Df88591String(from_array_len(buf, len)))")
    return why


def _strip(x):
    while x.op in ("ref", "mem", "memval"):
        x = x.args[0]
    return x


_NT_CALLS = ("core::ops::Try>::branch", "FromResidual", "core::option::Option::<T>::ok_or_else", "core::option::Option::<T>::ok_or",
             "core::result::Result::<T, E>::map", "core::option::Option::<T>::map", "de::Error::invalid_length", "de::Error::custom",
             "de::Error::missing_field")


def _newtype_pair(prog, res, p, adt, im):
    """a hand-written pair on a one-field struct in the transparent form serde_derive itself emits for a newtype:
         serialize   = serializer.serialize_newtype_struct(NAME, &self.0)
         deserialize = deserializer.deserialize_newtype_struct(NAME, V)   with V building the value only as  Ctor(<Field as Deserialize>::deserialize(d)?)
                       (visit_newtype_struct)  or  Ctor(seq.next_element::<Field>()??)  (visit_seq)
       The pair is then mutually inverse whenever the field's pair is (which Z-graph establishes for the field type).  -> True when an obligation was emitted."""
    vs = adt["variants"]
    if len(vs) != 1 or len(vs[0]["fields"]) != 1 or adt.get("kind", "struct") == "enum":
        return False
    fty = ty_str(vs[0]["fields"][0]["ty"])
    esc = re.escape(p)
    ser = next((g for q, g in prog.fns.items() if re.fullmatch(r"<%s(<.*>)? as .*::Serialize>::serialize" % esc, q)), None)
    de = next((g for q, g in prog.fns.items() if re.fullmatch(r"<%s(<.*>)? as .*::Deserialize>::deserialize" % esc, q)), None)
    if ser is None or de is None:
        return False
    why = []
    name = [None, None]

    def single(f, suffix, which):
        fa = FA(f, prog)
        cs = [(b, t) for b, t in f.calls()]
        if f.loops() or len(cs) != 1 or not (callee_of(cs[0][1]) or "").endswith(suffix):
            why.append("%s is not the single call of %s" % (f.path.rsplit("::", 1)[1], suffix))
            return None, None
        b, t = cs[0]
        a = fa.call_args(b)
        rets = f.return_blocks()
        if len(rets) != 1 or fa.end_val(0, rets[0]) is not fa.call_term(b):
            why.append("%s does not return the result of %s" % (f.path.rsplit("::", 1)[1], suffix))
        x = _strip(a[0])
        if not (x.op == "arg"):
            why.append("%s is not called on the (de)serializer argument" % suffix)
        name[which] = show(a[1], fa.names)
        return a, t
    a, t = single(ser, "Serializer::serialize_newtype_struct", 0)
    if a is not None:
        x = a[2]
        while x.op == "ref":
            x = x.args[0]
        s = show(a[2], FA(ser, prog).names)
        if not re.fullmatch(r"&\*?\(?\*?self\)?\.0", s.replace(" ", "")):
            why.append("serialize hands %s to the serializer, not &self.0" % s)
    a, t = single(de, "Deserializer::deserialize_newtype_struct", 1)
    vis = None
    if a is not None:
        if name[0] != name[1]:
            why.append("the struct name differs between the two impls (%s / %s)" % (name[0], name[1]))
        ca = t.get("cargs") or []
        vis = ca[1].get("path") if len(ca) > 1 and isinstance(ca[1], dict) else None
        if vis is None:
            why.append("the visitor type is not a crate type")
    if vis:
        methods = {q.rsplit("::", 1)[1]: g for q, g in prog.fns.items() if q.startswith("<" + vis) and "Visitor>::" in q and "{closure" not in q}
        extra = set(methods) - {"expecting", "visit_newtype_struct", "visit_seq"}
        if extra:
            why.append("the visitor overrides %s" % sorted(extra))
        if "visit_newtype_struct" not in methods:
            why.append("the visitor has no visit_newtype_struct")
        for mname, src_suffix in (("visit_newtype_struct", "Deserialize>::deserialize"), ("visit_seq", "SeqAccess::next_element")):
            g = methods.get(mname)
            if g is None:
                continue
            res.fn(g)
            ga = FA(g, prog)
            srcs, ctors = [], []
            for b, t2 in g.calls():
                c = callee_of(t2) or ""
                if c.endswith(src_suffix):
                    srcs.append((b, t2))
                elif c == p:
                    ctors.append(b)
                elif not any(k in c for k in _NT_CALLS):
                    why.append("%s calls %s" % (mname, c))
            for blk in g.rec["blocks"]:
                for st in blk["stmts"]:
                    rv = st.get("rv") or {}
                    if rv.get("k") == "aggregate" and rv.get("path") == p:
                        why.append("%s builds the value field by field" % mname)
            if g.loops() or len(srcs) != 1 or len(ctors) != 1:
                why.append("%s: %d source calls, %d constructor calls, %d loops" % (mname, len(srcs), len(ctors), len(g.loops())))
                continue
            sb, stt = srcs[0]
            sca = stt.get("cargs") or []
            styp = [ty_str(x) for x in sca if isinstance(x, dict)]
            if fty not in styp and not any(ty_str(x).split("<")[0] == fty.split("<")[0] for x in sca if isinstance(x, dict)):
                why.append("%s deserialises %s, the field is %s" % (mname, styp, fty))
            x = _strip(ga.call_args(sb)[0])
            if not (x.op in ("arg", "loc") and x.args[1] == 2):
                why.append("%s does not read from its own argument" % mname)
            ca2 = ga.call_args(ctors[0])[0]
            # the constructor's operand is the Ok payload (and for visit_seq the Some payload of it) of the source call
            y = ca2
            for _ in range(12):
                if y.op in ("field", "downcast"):
                    y = y.args[0]
                elif y.op == "call" and "ops::Try" in y.args[0] and y.args[0].endswith("::branch") and y.args[1]:
                    y = y.args[1][0]
                else:
                    break
            if y is not ga.call_term(sb):
                why.append("%s wraps %s, not the value just deserialised" % (mname, show(ca2, ga.names)))
    res.fn(ser)
    res.fn(de)
    res.ob("Z-graph", "%s | hand-written pair is the transparent newtype form (serialize_newtype_struct(&self.0) / deserialize_newtype_struct with a visitor "
           "that only wraps the deserialised field)" % p, not why, "; ".join(why[:4]), adt["loc"])
    return True


def rule_graph(prog, res, repo):
    graph, ext = type_graph(prog)
    res.floor("Z-graph", "crate types reachable from Message", len(graph), 250)
    impls = {}
    for i in prog.impls:
        tr = i.get("trait") or ""
        sp = i["self"].get("path") if isinstance(i["self"], dict) else None
        if sp is None:
            continue
        if tr.endswith("::Serialize") or tr == "serde::Serialize":
            impls.setdefault(sp, {})["ser"] = i
        elif tr.endswith("::Deserialize") or tr == "serde::Deserialize":
            impls.setdefault(sp, {})["de"] = i
    attrs = {}
    for a in prog.helper_attrs:
        # item path for variants/fields of enums is item::Variant
        attrs.setdefault(a["item"], []).append(a)
    for p in sorted(graph):
        im = impls.get(p, {})
        okb = "ser" in im and "de" in im
        res.ob("Z-graph", "%s | has Serialize and Deserialize" % p, okb, "impls found: %s" % sorted(im), graph[p]["loc"],
               sample={"type": p, "derived": [im[k]["derived"] for k in ("ser", "de")]} if okb and p in (ROOT, "util::Df88591String") else None)
        if not okb:
            continue
        derived = im["ser"]["derived"] and im["de"]["derived"]
        if p in HAND:
            res.ob("Z-graph", "%s | hand-written impls are the reviewed ones" % p, not im["ser"]["derived"] and not im["de"]["derived"], "", graph[p]["loc"])
        elif not derived and _newtype_pair(prog, res, p, graph[p], im):
            pass
        else:
            res.ob("Z-graph", "%s | both impls are derived (symmetric by construction)" % p, derived,
                   "Serialize derived=%s Deserialize derived=%s: a hand-written impl needs its own rule" % (im["ser"]["derived"], im["de"]["derived"]), graph[p]["loc"])
        # attribute inventory: only #[serde(crate = "sd")] on the item
        bad = []
        for key, lst in attrs.items():
            if key == p or key.startswith(p + "::"):
                for a in lst:
                    txt = re.sub(r"\s+", "", a["text"])
                    if not (a["on"] == "item" and key == p and txt == '#[serde(crate="sd")]'):
                        bad.append("%s %s %s" % (a["on"], a["name"], a["text"]))
        res.ob("Z-attr", "%s | no serde attribute other than crate = \"sd\" (skip/rename/default/with/flatten would break the symmetry argument)" % p,
               not bad, "; ".join(bad[:3]), graph[p]["loc"])
    res.ob("Z-graph", "external types on the graph are the trusted ones", ext <= TRUSTED_EXTERNAL, "external: %s" % sorted(ext), sample=sorted(ext))
    import tomllib
    with open(repo + "/Cargo.toml", "rb") as f:
        d = tomllib.load(f)
    sf = d.get("features", {}).get("serde", [])
    res.ob("Z-vec", "Cargo.toml | the serde feature enables tinyvec's serde impls", "tinyvec/serde" in sf and "sd" in sf, str(sf), sample=sf)
    return graph


def _fn(prog, suffix):
    c = [f for p, f in prog.fns.items() if p.endswith(suffix)]
    return c[0] if len(c) == 1 else None


def rule_handwritten(prog, res):
    # ---- Df88591String: Serialize streams every character, no fixed intermediate buffer
    f = _fn(prog, "Df88591String<N> as msg::msm_mappings::gps::sd::Serialize>::serialize") or \
        next((g for p, g in prog.fns.items() if re.fullmatch(r"<util::Df88591String<N> as .*::Serialize>::serialize", p)), None)
    if f is None:
        res.missing("Z-buf", "<Df88591String<N> as Serialize>::serialize")
    else:
        res.fn(f)
        fa = FA(f, prog)
        bufs = []
        for i, ty in enumerate(f.locals):
            s = ty_str(ty)
            if ty.get("k") in ("ref", "ptr", "rawptr"):
                continue            # a borrow of self's own vector is not a buffer
            if ("ArrayString" in s or "ArrayVec" in s or ty.get("k") == "array") and i != 0 and "Df88591String" not in s.split("<")[0]:
                if "Df88591String" in s and "ArrayString" not in s:
                    continue
                bufs.append(s)
        calls = [callee_of(t) for b, t in f.calls()]
        streams = any(c and c.endswith("Serializer::collect_str") for c in calls)
        strs = [c for c in calls if c and c.endswith("Serializer::serialize_str")]
        # capacity rule: a buffer of N BYTES cannot hold N characters of U+0080..U+00FF (2 bytes each)
        okbuf = not [b for b in bufs if "ArrayString" in b or "ArrayVec<[u8" in b]
        res.ob("Z-buf", "Df88591String::serialize | no intermediate buffer with a byte capacity below 2*N between chars() and the serializer", okbuf,
               "intermediate buffers: %s" % bufs, f.loc, sample={"buffers": bufs, "streams": streams})
        res.ob("Z-buf", "Df88591String::serialize | the characters are handed to the serializer (collect_str / serialize_str)", streams or bool(strs),
               str(calls), f.loc)
        # every sink is the character adaptor: the stored bytes are Latin-1 codes, not UTF-8, so a path that hands them (or a str view of
        # them) to the serializer directly skips the to_char mapping and changes every byte >= 0x80 (and 0)
        sinks = [c for c in calls if c and "Serializer::" in c]
        raw = [c for c in sinks if not c.endswith("Serializer::collect_str")]
        res.ob("Z-buf", "Df88591String::serialize | every path reaches the serializer through the to_char adaptor (no raw view of the Latin-1 bytes)", not raw,
               "other sinks: %s" % raw, f.loc)
        if streams:
            # the Display adaptor writes every char
            g = next((h for p, h in prog.fns.items() if "Df88591String<N>" in p and "::serialize::" in p and p.endswith("core::fmt::Display>::fmt")), None)
            whole = True
            if g is None:
                # the adaptor is a named type: the type argument of collect_str::<T>, with its Display impl
                for b, t in f.calls():
                    if (callee_of(t) or "").endswith("Serializer::collect_str"):
                        tys = [a for a in (t.get("cargs") or []) if a.get("k") == "adt"]
                        if tys:
                            g = prog.fn("<%s as core::fmt::Display>::fmt" % tys[-1]["path"])
                        # what the adaptor is built from: all of self's bytes (the vector field, dereferenced, not sub-sliced)
                        a1 = fa.call_args(b)[1]
                        x = a1
                        while x.op in ("ref", "mem", "memval"):
                            x = x.args[0]
                        if x.op == "loc":
                            x = fa.val(x.args[1], (b, 10 ** 6))
                        whole = False
                        if x.op == "agg" and len(x.args[3]) == 1:
                            y = x.args[3][0]
                            while y.op in ("ref", "mem", "memval"):
                                y = y.args[0]
                            if y.op == "call" and y.args[0].endswith("ArrayVec<A> as core::ops::Deref>::deref") and len(y.args[1]) == 1:
                                y = y.args[1][0]
                                while y.op in ("ref", "mem", "memval"):
                                    y = y.args[0]
                            whole = y.op == "pf" and y.args[1] == 0 and y.args[0].op in ("mem", "arg")
            ok = False
            if g is not None:
                res.fn(g)
                gc = [callee_of(t) for b, t in g.calls()]
                by_chars = any(c and c.endswith("Df88591String::<N>::chars") for c in gc)
                # or: every byte of the adaptor's slice, mapped through to_char (what chars() yields)
                ga = FA(g, prog)
                by_bytes = False
                for b, t in g.calls():
                    if (callee_of(t) or "").endswith("write_char"):
                        ch = ga.call_args(b)[1]
                        if ch.op == "call" and ch.args[0].endswith("Df88591StringChars::to_char") and "Iterator>::next" in show(ch.args[1][0], ga.names):
                            its = [ga.call_args(b2)[0] for b2, t2 in g.calls() if callee_of(t2) == "core::slice::<impl [T]>::iter"]
                            nx = [(b2, callee_of(t2)) for b2, t2 in g.calls() if (callee_of(t2) or "").endswith("::next")]
                            direct = False
                            if len(nx) == 1 and nx[0][1] == "<core::slice::Iter<'a, T> as core::iter::Iterator>::next":
                                r = ga.call_args(nx[0][0])[0]
                                while r.op in ("ref", "mem", "memval"):
                                    r = r.args[0]
                                if r.op == "loc":
                                    ds = [d for d in ga.defs(r.args[1]) if d[2] != "borrow"]
                                    if len(ds) == 1:
                                        v = ga.defterm(r.args[1], ds[0][0], ds[0][1], ds[0][2])
                                        # (into_iter is the identity on iterators)
                                        while v.op == "call" and v.args[0].endswith("::into_iter"):
                                            v = v.args[1][0]
                                        direct = v.op == "call" and v.args[0] == "core::slice::<impl [T]>::iter"
                            by_bytes = direct and len(its) == 1 and "self.0" in show(its[0], ga.names) and "index" not in show(its[0], ga.names)
                ok = (by_chars or by_bytes) and whole and any(c and c.endswith("write_char") for c in gc) and len(g.loops()) == 1
                # write errors are propagated (Try::branch) - a break on anything else would truncate
                # (a try_for_each over the bytes whose closure returns write_char's result is that propagation, desugared by inline.py)
                tfe = any(x.endswith("try_for_each") for x in (getattr(prog, "inlined", {}) or {}).get(g.path, []))
                ok = ok and (any(c and c.endswith("Try>::branch") for c in gc) or tfe)
            res.ob("Z-buf", "Df88591String::serialize | the adaptor writes chars() one by one, stopping only on a formatter error", ok, "", (g or f).loc)
    # ---- ArrayString: serialize_str(&*self)
    f = next((g for p, g in prog.fns.items() if re.fullmatch(r"<util::array_string::ArrayString<N> as .*::Serialize>::serialize", p)), None)
    if f is None:
        res.missing("Z-buf", "<ArrayString<N> as Serialize>::serialize")
    else:
        res.fn(f)
        fa = FA(f, prog)
        ok = False
        for b, t in f.calls():
            c = callee_of(t)
            if c and c.endswith("Serializer::serialize_str"):
                a = fa.call_args(b)
                x = a[1]
                while x.op in ("ref", "mem", "memval"):
                    x = x.args[0]
                ok = x.op == "call" and x.args[0].endswith("ArrayString<N> as core::ops::Deref>::deref")
        res.ob("Z-buf", "ArrayString::serialize | serialises the whole string (deref of self)", ok, "", f.loc)
    # ---- visitors
    v = next((g for p, g in prog.fns.items() if "Str88591Visitor" in p and p.endswith("::visit_str")), None)
    if v is None:
        res.missing("Z-vis", "Str88591Visitor::visit_str")
    else:
        res.fn(v)
        va = FA(v, prog)
        calls = [callee_of(t) for b, t in v.calls()]
        takes = [(b, va.call_args(b)) for b, t in v.calls() if callee_of(t) == "core::iter::Iterator::take"]
        okt = False
        if len(takes) == 1:
            n = takes[0][1][1]
            # take(N) with N the const generic (appears as an opaque const)
            okt = n.op in ("opaque_const", "const") and ("N" in str(n.args) or n.op == "const")
        ok = okt and any(c and c.endswith("Df88591String::<N>::push_char") for c in calls) and any(c == "core::str::<impl str>::chars" for c in calls)
        if not ok:
            ok = _delegates_to_from(v, va, "<util::Df88591String<N> as core::convert::From<&str>>::from")
        if not ok and not v.loops():
            # Ok(Df88591String(v.chars().take(N).map(from_char).collect::<ArrayVec<[u8; N]>>())): tinyvec's FromIterator pushes each item in order
            # (trusted with the rest of tinyvec), take(N) keeps it within the capacity, the map is the character map X-map judges
            rets = v.return_blocks()
            rv_ = va.end_val(0, rets[0]) if len(rets) == 1 else None
            x_ = rv_
            chain = []
            if x_ is not None and x_.op == "agg" and x_.args[2] == "Ok" and x_.args[3]:
                x_ = x_.args[3][0]
                if x_.op == "agg" and x_.args[0] == "util::Df88591String" and len(x_.args[3]) == 1:
                    x_ = x_.args[3][0]
                    while x_.op == "call" and x_.args[1]:
                        chain.append((x_.args[0], x_.args[1][1:]))
                        x_ = x_.args[1][0]
                    while x_.op in ("ref", "mem", "memval"):
                        x_ = x_.args[0]
            names_ = [c_ for c_, a_ in chain]
            if names_ == ["core::iter::Iterator::collect", "core::iter::Iterator::map", "core::iter::Iterator::take", "core::str::<impl str>::chars"] \
                    and x_ is not None and x_.op == "arg" and x_.args[1] == 2:
                f_ = chain[1][1][0] if chain[1][1] else None
                n_ = chain[2][1][0] if chain[2][1] else None
                okf = f_ is not None and f_.op == "fn" and f_.args[0].endswith("Df88591StringChars::from_char")
                okn = n_ is not None and n_.op in ("opaque_const", "const") and ("N" in str(n_.args) or n_.op == "const")
                ok = okf and okn
                takes = [("collect form", chain)]
        if not ok:
            zf = _zip_fill_form(prog, v, va)
            if zf is not None:
                ok = not zf
                takes = [("zip-fill form", zf or "buf = [0; N]; one from_char(ch) stored per (slot, ch) of buf.iter_mut().zip(chars()); length = iterations")]
                res.ob("Z-vis", "Df88591String visitor | reads chars().take(N) and pushes each (N characters always fit N bytes of Latin-1)", ok, str(takes), v.loc)
                takes = None
        if takes is not None:
          res.ob("Z-vis", "Df88591String visitor | reads chars().take(N) and pushes each (N characters always fit N bytes of Latin-1)", ok, str(takes), v.loc,
               sample=[show(a, va.names) for b, a in takes])
    v = next((g for p, g in prog.fns.items() if "ArrayStringVisitor" in p and p.endswith("::visit_str")), None)
    if v is None:
        res.missing("Z-vis", "ArrayStringVisitor::visit_str")
    else:
        res.fn(v)
        calls = [callee_of(t) for b, t in v.calls()]
        ok = any(c and c.endswith("ArrayString::<N>::try_push") for c in calls) and any(c == "core::str::<impl str>::chars" for c in calls) \
            and any(c == "core::result::Result::<T, E>::is_err" for c in calls) and len(v.loops()) == 1
        # every character is offered: the loop is driven by chars() itself, not by an adaptor that drops or limits items (take / skip / filter ..)
        adaptors = [c for c in calls if c and c.startswith("core::iter::Iterator::") and c.rsplit("::", 1)[1] not in ("next", "into_iter")]
        ok = ok and not adaptors
        if not ok:
            ok = _delegates_to_from(v, FA(v, prog), "<util::array_string::ArrayString<N> as core::convert::From<&str>>::from")
        if not ok:
            # the same loop in another spelling (try_for_each / match on the result, possibly through an inlined helper): C17's prefix-loop rule
            okp, dp, ntp = textrules.prefix_loop(prog, v, "util::array_string::ArrayString::<N>::try_push")
            ok = okp and any(c == "core::str::<impl str>::chars" for c in calls)
        if not ok:
            # one bulk copy of the longest prefix of whole characters that fits (C17's bulk-prefix idiom and its lemma)
            okb, db = textrules.bulk_prefix_writer(prog, v)
            ok = okb
        res.ob("Z-vis", "ArrayString visitor | pushes chars() until one does not fit (the longest fitting prefix; everything for a serialised value)", ok, str(calls), v.loc)
    # both deserialize fns go through deserialize_str with their visitor
    for name, vis in (("util::Df88591String<N>", "Str88591Visitor"), ("util::array_string::ArrayString<N>", "ArrayStringVisitor")):
        d = next((g for p, g in prog.fns.items() if re.fullmatch(r"<%s as .*::Deserialize>::deserialize" % re.escape(name), p)), None)
        if d is None:
            res.missing("Z-vis", name + "::deserialize")
            continue
        res.fn(d)
        calls = [callee_of(t) for b, t in d.calls()]
        res.ob("Z-vis", "%s::deserialize | uses deserialize_str with its own visitor" % name, any(c and c.endswith("Deserializer::deserialize_str") for c in calls), str(calls), d.loc)
