"""C05: the stream scanner finds the first deliverable frame and skips only dead bytes."""
import framing

META = {
    "level": "other",
    "trusted_base": ["core::slice::Iter / Enumerate yield (index, &byte) front to back", "rustc MIR construction", "mirfacts exporter"],
    "explanation": "Every return of next_msg_frame is classified by the dominating facts on the result of MessageFrame::new: "
                   "Ok -> (i + frame_len, Some(m)); Err(Incomplete) -> (i, None); loop exit -> (len, None); Err(NotValid) -> back edge "
                   "with no return; new() is called exactly at 0xD3 positions on data[i..]; the error set of new() is closed "
                   "({NotValid, Incomplete}), so the unreachable!() arm is dead. MsgFrameIter::next calls the scanner on data[index..] "
                   "iff index < len, adds the consumed count to index (its only store) and returns the frame unchanged. "
                   "Together with C03 this determines the scanner's function completely. Completeness (S-cand): once the scan position holds 0xD3 nothing else decides whether new() is called there - no path from the preamble test reaches the loop head or a return without the call (both scanner idioms); I-state: fields added to MsgFrameIter never reach data / index / the result. "
                   "S-sem (scansem.py) decides the scanner first, by induction on the scan position for whatever loop form the code uses (iterator, index, shrinking suffix, position search): from the head state for position K every path back to the head arrives in the state for K+1 having dismissed K (byte != 0xD3 known, or new(&data[K..]) answered NotValid), every return is (K + frame_len, Some(m)) / (K, None) / (len, None) of its case, nothing can panic and the loop terminates; the template rules described above judge alone only where S-sem is undecided.",
    "assumptions": [],
}


def run(ctx, res):
    prog = ctx.prog("K0")
    import engine
    m = framing.rules_new(prog, engine.Filtered(res, {"A-shape", "S-closed", "A-inc"}))
    framing.rules_scan(prog, res, m)
    framing.rules_iter(prog, res)
