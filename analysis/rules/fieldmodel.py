"""Per-field models of the df! data fields (C08, C11; F-fin for C02) and their exact-arithmetic obligations."""
import re
import struct
from fractions import Fraction
from terms import FA, show, mk, ty_of, is_const, const_val, T, subterms
from facts import callee_of, int_range
from paths import enum_paths
from algebra import fact_of_guard
import libmodel

DF_RE = re.compile(r"df::dfs::(df\w+)::(encode|decode)")
SKIP = ("df_msg1029_utf8_str", "df_msg1059_biases", "df_msg1065_biases", "df_msg1230_biases")
PARSE = "df::parser::Parser::parse"
PUT = "df::assembler::Assembler::put"
BRANCH = "<core::result::Result<T, E> as core::ops::Try>::branch"


def _to_f32(x):
    return struct.unpack(">f", struct.pack(">f", x))[0]


def ffold(t):
    """Constant folding of a literal float expression exactly as IEEE arithmetic evaluates it
    (f64: Python floats are IEEE doubles; f32: the double result rounded to single is the correctly rounded
    single result for one +,-,*,/ of two singles).  Returns (python float, 'f32'|'f64') or None."""
    if is_const(t):
        k, v = t.args[0], t.args[1]
        if k == "f32":
            return struct.unpack(">f", struct.pack(">I", v))[0], "f32"
        if k == "f64":
            return struct.unpack(">d", struct.pack(">Q", v))[0], "f64"
        return None
    if t.op == "bin" and t.args[0] in ("Add", "Sub", "Mul", "Div"):
        a, b = ffold(t.args[1]), ffold(t.args[2])
        if a is None or b is None or a[1] != b[1]:
            return None
        try:
            r = {"Add": a[0] + b[0], "Sub": a[0] - b[0], "Mul": a[0] * b[0], "Div": a[0] / b[0]}[t.args[0]]
        except (ZeroDivisionError, OverflowError):
            return None
        if a[1] == "f32":
            r = _to_f32(r)
        return r, a[1]
    if t.op == "un" and t.args[0] == "Neg":
        a = ffold(t.args[1])
        return (-a[0], a[1]) if a else None
    return None


def is_lit(t):
    """literal constant or a foldable literal float expression"""
    return is_const(t) or ffold(t) is not None


def fconst(t):
    """exact rational value of a float/int const term (or folded literal float expression)"""
    if not is_const(t):
        r = ffold(t)
        if r is not None and r[0] == r[0] and abs(r[0]) != float("inf"):
            return Fraction(r[0])
        return None
    k, v = t.args[0], t.args[1]
    if k == "f32":
        return Fraction(struct.unpack(">f", struct.pack(">I", v))[0])
    if k == "f64":
        return Fraction(struct.unpack(">d", struct.pack(">Q", v))[0])
    if isinstance(v, int) and k not in ("unit",):
        return Fraction(v)
    return None


def is_pow2(fr):
    if fr <= 0:
        return False
    n, d = fr.numerator, fr.denominator
    return (n & (n - 1)) == 0 and (d & (d - 1)) == 0


class Model:
    pass


def strip_copy(t):
    return t


def _is_arg_value(t):
    x = t
    while x.op in ("memval", "mem", "ref"):
        x = x.args[0]
    return x.op == "arg" and x.args[1] == 2


def _strip_some_payload(x):
    """value bound by `let Some(v) = value`: the Some payload of *value, as a value (field/downcast) or as an object path (pf/pd)"""
    y = x
    while y.op in ("memval", "mem", "ref"):
        y = y.args[0]
    if y.op == "field" and y.args[1] == 0 and y.args[0].op == "downcast" and y.args[0].args[1] == 1:
        return y.args[0].args[0]
    if y.op == "pf" and y.args[1] == 0 and y.args[0].op == "pd" and y.args[0].args[1] == 1:
        return y.args[0].args[0]
    return x


def extract_decode(prog, f):
    """-> dict(carrier, kind, bits, W, p, dt, c, b, inv, optional) or (None, reason).  Tried on the SSA terms first and, if the
    shape is not recognised, with every phi resolved along each path (so `Ok(if c { a } else { b })` reads like two returns)."""
    r = _extract_decode(prog, f, False)
    if r[0] is None:
        r2 = _extract_decode(prog, f, True)
        if r2[0] is not None:
            return r2
    return r


def _extract_decode(prog, f, resolve):
    fa = FA(f, prog)
    names = fa.names
    parses = [(b, t) for b, t in f.calls() if callee_of(t) == PARSE]
    if len(parses) != 1:
        return None, "expected exactly one parse call, found %d" % len(parses)
    pb, pt = parses[0]
    g = libmodel.carrier_of(pt.get("rargs") or pt.get("cargs"))
    a = fa.call_args(pb)
    if g is None or not is_const(a[1]):
        return None, "parse carrier/width not constant"
    m = {"carrier": g[0], "kind": g[1], "bits": g[2], "W": const_val(a[1])}
    pcall = fa.call_term(pb)
    m["p_candidates"] = None
    rty = f.locals[0]
    # return type Result<DataType, _>: DataType = Option<dt> | dt
    dt = rty["args"][0]
    optional = dt.get("k") == "adt" and dt["path"] == "core::option::Option"
    if optional:
        dt = dt["args"][0]
    m["optional"] = optional
    m["dt"] = dt
    vals = []
    none_facts = []
    p_term = None
    for blocks, facts, rv, flist in enum_paths(fa, resolve=resolve):
        if rv.op == "call" and "from_residual" in rv.args[0]:
            continue
        if not (rv.op == "agg" and rv.args[2] == "Ok"):
            return None, "unexpected return " + show(rv, names)
        x = rv.args[3][0]
        if optional:
            if x.op == "agg" and x.args[2] == "None":
                # the deciding fact: Eq(p, INV)
                dec = [(t, k, v) for t, (k, v) in facts.items() if t.op == "bin" and t.args[0] in ("Eq", "Ne")]
                def _holds_eq(t_, k_, v_):
                    # the path fact says p == INV: Eq(..) is true, or Ne(..) is false (`(p != INV).then_some(v)`)
                    want = 1 if t_.args[0] == "Eq" else 0
                    return (k_ == "eq" and v_ == want) or (k_ == "ne" and (1 - want) in v_)
                if not dec:
                    # `match p { INV => None, _ => Some(v) }`: the switch is on the parsed integer itself, the None path knows p == INV
                    sw = [(t, v) for t, (k, v) in facts.items() if k == "eq" and t.op == "field" and t.args[0].op == "downcast"
                          and t.args[0].args[0].op == "call" and t.args[0].args[0].args[0] == BRANCH and t.args[0].args[0].args[1][0] is pcall]
                    if len(sw) == 1 and len([1 for t in facts if t.op not in ("discr",)]) == 1:
                        bits_ = m["bits"]
                        iv_ = sw[0][1]
                        if m["kind"] != "u" and isinstance(iv_, int) and iv_ >= (1 << (bits_ - 1)):
                            iv_ -= 1 << bits_          # switch values are the raw bit patterns of the carrier
                        m["inv"] = iv_
                        p_term = sw[0][0]
                        continue
                if len(dec) != 1 or not _holds_eq(*dec[0]):
                    return None, "None is not decided by a single equality test"
                e = dec[0][0]
                if not is_const(e.args[2]):
                    return None, "absent marker is not a literal"
                m["inv"] = const_val(e.args[2])
                p_term = e.args[1]
                continue
            if x.op == "agg" and x.args[2] == "Some":
                x = x.args[3][0]
            else:
                return None, "unexpected Ok payload " + show(x, names)
        vals.append(x)
    if len(vals) != 1:
        return None, "expected one value path, found %d" % len(vals)
    v = vals[0]
    # v = [Add(., b)] [Mul(., c)] cast(p)
    b = c = None
    if v.op == "bin" and v.args[0] == "Add" and is_lit(v.args[2]):
        b = v.args[2]
        v = v.args[1]
    if v.op == "bin" and v.args[0] == "Mul" and is_lit(v.args[2]):
        c = v.args[2]
        v = v.args[1]
    castk = None
    if v.op == "cast":
        castk = v.args[0]
        v = v.args[1]
    # v must be the Continue payload of `?` on the parse call
    ok = v.op == "field" and v.args[1] == 0 and v.args[0].op == "downcast" and v.args[0].args[1] == 0 and v.args[0].args[0].op == "call" \
        and v.args[0].args[0].args[0] == BRANCH and v.args[0].args[0].args[1][0] is pcall
    if not ok:
        return None, "value is not built from the parsed integer: " + show(v, names)
    if p_term is not None and p_term is not v:
        return None, "absent test is not on the parsed integer"
    if optional and "inv" not in m:
        return None, "optional field without an absent arm"
    m["p"] = v
    m["c"] = c
    m["b"] = b
    m["cast"] = castk
    return m, ""


def extract_encode(prog, f):
    fa = FA(f, prog)
    names = fa.names
    m = {}
    puts = [(b, t) for b, t in f.calls() if callee_of(t) == PUT]
    aty = f.locals[2]
    while aty.get("k") == "ref":
        aty = aty["to"]
    optional = aty.get("k") == "adt" and aty["path"] == "core::option::Option"
    def none_guarded(blk):
        gs = fa.guards(blk)
        isnone = [x for x in gs if x[0].op == "call" and x[0].args[0] == "core::option::Option::<T>::is_none"]
        if not isnone:
            # `let Some(v) = value else { .. }` / `match value { None => .. }`: the discriminant of *value is None (0)
            for x in gs:
                if x[0].op == "discr" and _is_arg_value(x[0].args[0]) and ((x[1] == "eq" and x[2] == 0) or (x[1] == "ne" and 1 in x[2])):
                    isnone = [(x[0], "eq", 1)]
        return bool(isnone) and ((isnone[0][1] == "ne" and 0 in isnone[0][2]) or (isnone[0][1] == "eq" and isnone[0][2] == 1))

    merged = None
    if optional and len(puts) == 1:
        # one put of a merged pattern:  let raw = match value { None => INV, Some(v) => quantise(v)? };  put(raw, W)
        b, t = puts[0]
        a = fa.call_args(b)
        ops = merged_operands(fa, a[1])
        if ops is not None:
            absent = [(pb, v) for pb, v in ops if is_const(v) and none_guarded(pb)]
            present = [(pb, v) for pb, v in ops if not (is_const(v) and none_guarded(pb))]
            if len(absent) == 1 and len(present) == 1 and not none_guarded(present[0][0]):
                merged = (absent[0], present[0])
    if merged is None and len(puts) != (2 if optional else 1):
        return None, "expected %d put call(s), found %d" % (2 if optional else 1, len(puts))
    val_put = None
    guard_block = None
    for b, t in puts:
        a = fa.call_args(b)
        g = libmodel.carrier_of(t.get("rargs") or t.get("cargs"))
        if g is None or not is_const(a[2]):
            return None, "put carrier/width not constant"
        if merged is not None:
            m["inv"] = const_val(merged[0][1])
            m["inv_carrier"] = g[0]
            m["inv_W"] = const_val(a[2])
            a = list(a)
            a[1] = merged[1][1]
            guard_block = merged[1][0]
            val_put = (b, t, a, g)
            continue
        if optional and is_const(a[1]) and none_guarded(b):
            m["inv"] = const_val(a[1])
            m["inv_carrier"] = g[0]
            m["inv_W"] = const_val(a[2])
            # the function must return this put's result
            continue
        if val_put is not None:
            return None, "two value puts"
        val_put = (b, t, a, g)
    if val_put is None:
        return None, "no value put"
    if optional and "inv" not in m:
        return None, "optional field: no put of the absent marker under is_none()"
    b, t, a, g = val_put
    m["carrier"], m["kind"], m["bits"] = g
    m["W"] = const_val(a[2])
    X = a[1]
    castk = None
    if X.op == "cast":
        castk = X.args[0]
        X = X.args[1]
    m["cast"] = castk
    X = resolve_const_phi(fa, X)
    # rounding template
    rnd = None
    if X.op == "bin" and X.args[0] == "Add" and X.args[2].op == "phi":
        y = X.args[1]
        ph = X.args[2]
        ops = fa.phi_operands(ph)
        sel = {}
        for pb, v in ops:
            if not is_const(v):
                return None, "rounding offset is not a literal"
            facts = [fact_of_guard(gd) for gd in fa.guards(pb) if gd[4] == "switch"]
            cmpf = [fc for fc in facts if fc[0] in ("Ge", "Gt", "Lt", "Le") and fc[1] is y and is_const(fc[2]) and fconst(fc[2]) == 0]
            if len(cmpf) != 1:
                return None, "rounding offset not selected by the sign of the same quotient"
            sel[cmpf[0][0]] = fconst(v)
        rnd = sel
        X = y
    elif X.op == "phi" and fa.phi_operands(X) and all(v.op == "bin" and v.args[0] in ("Add", "Sub") and is_lit(v.args[2]) for pb, v in fa.phi_operands(X)) \
            and len({v.args[1] for pb, v in fa.phi_operands(X)}) == 1:
        # the half step written inside both branches:  value = if value < 0.0 { value - h } else { value + h }
        y = fa.phi_operands(X)[0][1].args[1]
        sel = {}
        for pb, v in fa.phi_operands(X):
            off = fconst(v.args[2]) * (1 if v.args[0] == "Add" else -1)
            facts = [fact_of_guard(gd) for gd in fa.guards(pb) if gd[4] == "switch"]
            cmpf = [fc for fc in facts if fc[0] in ("Ge", "Gt", "Lt", "Le") and fc[1] is y and is_const(fc[2]) and fconst(fc[2]) == 0]
            if len(cmpf) != 1:
                return None, "rounding offset not selected by the sign of the same quotient"
            sel[cmpf[0][0]] = off
        rnd = sel
        X = y
    m["round"] = rnd
    c = bsub = None
    x0_bias = None
    if X.op == "bin" and X.args[0] == "Div" and is_lit(X.args[2]):
        c = X.args[2]
        X = X.args[1]
    guard_ok = None
    if X.op == "bin" and X.args[0] == "Sub" and is_lit(X.args[2]):
        bsub = X.args[2]
        x0 = X.args[1]
        x0_bias = x0
        # guarded by Ge(x0, b)
        facts = [fact_of_guard(gd) for gd in fa.guards(guard_block if guard_block is not None else b) if gd[4] == "switch"]
        guard_ok = any(fc[0] == "Ge" and fc[1] is x0 and (fc[2] is bsub or (fconst(fc[2]) is not None and fconst(fc[2]) == fconst(bsub))) for fc in facts)
        if not guard_ok:
            # `match value.partial_cmp(&bias) { Some(Less) | None => Err, Some(_) => value -= bias }`: the subtraction is a join of the arms
            # value > bias and value == bias; each way into it carries one of the two facts, which together are value >= bias
            def _hits(fs):
                return any(fc[0] in ("Ge", "Gt", "Eq") and fc[1] is x0 and (fc[2] is bsub or (fconst(fc[2]) is not None and fconst(fc[2]) == fconst(bsub))) for fc in fs)

            _memo = {}

            def _every_way(blk_, depth=0):
                if blk_ in _memo:
                    return _memo[blk_]
                _memo[blk_] = False             # a cycle back to this block does not establish the fact
                r_ = _every_way0(blk_, depth)
                _memo[blk_] = r_
                return r_

            def _every_way0(blk_, depth):
                if _hits([fact_of_guard(gd) for gd in fa.guards(blk_) if gd[4] == "switch"]):
                    return True
                ps = [p_ for p_ in fa.fn.pred(blk_) if p_ in fa.fn.reachable()]
                if depth > 12 or not ps:
                    return False
                for p_ in ps:
                    if _hits([fact_of_guard(gd) for gd in fa.edge_guard(p_, blk_) if gd[4] == "switch"]):
                        continue
                    if not _every_way(p_, depth + 1):
                        return False
                return True
            guard_ok = _every_way(guard_block if guard_block is not None else b)
        X = x0
    m["c"], m["b"], m["bias_guard"] = c, bsub, guard_ok
    # X must be the user's value: *value or unwrap(*value)
    x = X
    if x.op == "call" and x.args[0] == "core::option::Option::<T>::unwrap":
        x = x.args[1][0]
    x = _strip_some_payload(x)
    while x.op in ("memval", "mem"):
        x = x.args[0]
    if not (x.op == "arg" and x.args[1] == 2):
        return None, "encoded value does not derive from the argument: " + show(X, names)
    # errors: only OutOfRange from the bias guard
    errs = set()
    refusal_ok = True
    refusal_why = ""
    for bb in sorted(f.reachable()):
        for i, s in enumerate(f.blocks[bb]["stmts"]):
            if s["k"] == "assign" and s["place"]["local"] == 0 and s["rv"]["k"] == "aggregate" and s["rv"].get("vname") == "Err":
                v = fa.rv_term(s["rv"], (bb, i))
                errs.add(v.args[3][0].args[2] if v.args[3] and v.args[3][0].op == "agg" else "?")
                if bsub is not None:
                    # the converse of the bias guard: a value is refused only when it is below the bias (value == bias is the lowest pattern and
                    # has to be accepted).  Every way into the refusal carries value < bias - or facts no real number satisfies (the NaN arm of a
                    # float partial_cmp: not >, not <, not ==)
                    def _is_b(z):
                        return z is bsub or (fconst(z) is not None and fconst(z) == fconst(bsub))

                    def _below(fs):
                        rel = {fc[0] for fc in fs if fc[1] is x0_bias and _is_b(fc[2])}
                        return "Lt" in rel or ({"Le", "Ne"} <= rel) or ({"Ge", "Le", "Ne"} <= rel) or ({"Lt", "Gt"} <= rel)

                    _m2 = {}

                    def _ways(blk_, depth=0):
                        if blk_ in _m2:
                            return _m2[blk_]
                        _m2[blk_] = False
                        r_ = _below([fact_of_guard(gd) for gd in fa.guards(blk_) if gd[4] == "switch"])
                        if not r_ and depth <= 12:
                            ps = [p_ for p_ in f.pred(blk_) if p_ in f.reachable()]
                            r_ = bool(ps) and all(_below([fact_of_guard(gd) for gd in fa.guards(p_) if gd[4] == "switch"] +
                                                         [fact_of_guard(gd) for gd in fa.edge_guard(p_, blk_) if gd[4] == "switch"]) or _ways(p_, depth + 1) for p_ in ps)
                        _m2[blk_] = r_
                        return r_
                    if not _ways(bb):
                        refusal_ok = False
                        refusal_why = "the refusal at line %s is reached by values that are not below the bias" % s.get("line")
    m["errs"] = errs
    m["refusal_ok"], m["refusal_why"] = refusal_ok, refusal_why
    return m, ""


def block_infeasible(fa, b):
    """a dominating branch on a literal excludes this block (e.g. the else arm of `if true`)"""
    for g in fa.guards(b):
        if g[0].op == "const":
            cv = g[0].args[1]
            if (g[1] == "eq" and cv != g[2]) or (g[1] == "ne" and cv in g[2]):
                return True
    return False


def merged_operands(fa, x, depth=0):
    """[(block, value)] for a value merged from several arms: a phi, or the payload of a merged `Ok(..)` / `Some(..)` all of whose arms build
    that same variant in place (the shape `match .. { A => Ok(a), B => Ok(b) }?` leaves behind)."""
    if depth > 2:
        return None
    if x.op == "phi":
        out = []
        for pb, v in fa.phi_operands(x):
            if v is x:
                return None
            sub = merged_operands(fa, v, depth + 1) if v.op == "phi" or (v.op == "field" and v.args[0].op == "downcast") else None
            out.extend(sub if sub is not None else [(pb, v)])
        return out
    if x.op == "field" and x.args[0].op == "downcast" and x.args[0].args[0].op == "phi":
        k, i = x.args[0].args[1], x.args[1]
        base = merged_operands(fa, x.args[0].args[0], depth + 1)
        if base is None:
            return None
        out = []
        for pb, v in base:
            if not (v.op == "agg" and v.args[1] == k and fa._is_enum_agg(v) and i < len(v.args[3])):
                return None
            out.append((pb, v.args[3][i]))
        return out
    return None


def resolve_const_phi(fa, x):
    """phi whose other operands come from blocks excluded by a literal branch -> the remaining operand"""
    for _ in range(3):
        if x.op != "phi":
            break
        ops = [(pb, v) for pb, v in fa.phi_operands(x) if not block_infeasible(fa, pb)]
        if len(ops) == 1:
            x = ops[0][1]
        else:
            break
    return x


def field_functions(prog):
    out = {}
    for p, f in prog.fns.items():
        mm = DF_RE.fullmatch(p)
        if mm and mm.group(1) not in SKIP:
            out.setdefault(mm.group(1), {})[mm.group(2)] = f
    return out


def pattern_range(kind, W):
    if kind == "u":
        return (0, (1 << W) - 1)
    if kind == "s":
        return (-(1 << (W - 1)), (1 << (W - 1)) - 1)
    return (-((1 << (W - 1)) - 1), (1 << (W - 1)) - 1)


def float_params(dt):
    if dt.get("k") == "float":
        if dt["bits"] == 32:
            return 24, Fraction(2) ** -126, Fraction(2) ** 128 - Fraction(2) ** 104
        return 53, Fraction(2) ** -1022, Fraction(2) ** 1024 - Fraction(2) ** 971
    return None


def delta_bound(pmax, c, b, t, has_bias):
    """Upper bound of |z2 - p| for the decode->encode chain (see DESIGN 5.8), exact rationals."""
    u = Fraction(1, 2 ** t)
    A = abs(pmax) * abs(c)
    B = abs(b) if has_bias else Fraction(0)
    if not has_bias and is_pow2(abs(c)):
        return Fraction(0)            # scaling an exactly converted pattern by a power of two, and back, is exact (F-fin: no underflow)
    if has_bias:
        e_x = u * (2 * A + u * A + B)
        e_1 = e_x * (1 + u) + u * A
    else:
        e_1 = u * A
    return (e_1 / abs(c)) * (1 + u) + u * abs(pmax)


RULES_FOR = {
    "C08": {"O-extract", "O-agree", "O-width", "O-inv", "O-bias", "O-int", "O-exact", "F-fin", "O-round", "O-err", "Q-quant", "Q-quant-rt"},
    "C11": {"O-extract", "O-agree", "O-round", "O-err2", "Q-quant"},
    "C02": {"O-extract", "F-fin"},
}


class _Filter:
    """records only the obligations that belong to the property being checked"""

    def __init__(self, res, prop):
        self.res = res
        self.allowed = RULES_FOR[prop]
        self.extra = res.extra

    def ob(self, rule, *a, **k):
        if rule in self.allowed:
            return self.res.ob(rule, *a, **k)
        return True

    def floor(self, rule, *a, **k):
        if rule in self.allowed:
            self.res.floor(rule, *a, **k)

    def missing(self, rule, *a, **k):
        self.res.missing(rule, *a, **k)

    def fn(self, f):
        self.res.fn(f)


def check_fields(prog, res, prop="C08", floor=309):
    res = _Filter(res, prop)
    fns = field_functions(prog)
    if "all_msgs" in set(prog.crate["features"]):
        res.floor("O-extract", "df! field codecs", len(fns), floor)
    nfloat = 0
    worst = Fraction(0)
    worst_id = None
    nstr = 0
    for fid in sorted(fns):
        pair = fns[fid]
        dty = pair["decode"].locals[0] if "decode" in pair else None
        if dty is not None and dty.get("k") == "adt" and dty["args"] and dty["args"][0].get("k") == "adt" \
                and dty["args"][0]["path"] in ("util::Df88591String", "util::array_string::ArrayString", "util::data_vec::DataVec"):
            nstr += 1     # text / list codecs: C15 / C17
            continue
        if "encode" not in pair or "decode" not in pair:
            res.ob("O-extract", "%s | has encode and decode" % fid, False, str(sorted(pair)))
            continue
        fe, fd = pair["encode"], pair["decode"]
        res.fn(fe)
        res.fn(fd)
        try:
            md, why_d = extract_decode(prog, fd)
            me, why_e = extract_encode(prog, fe)
        except Exception as ex:   # fail closed with the reason
            md, why_d, me, why_e = None, "exception %r" % ex, None, ""
        if prop == "C02":
            # decode side only (finite decoded values): an encoder that no longer matches its template is not this property's concern
            res.ob("O-extract", "%s | decoder matches the field template" % fid, md is not None, "decode: %s" % why_d, fd.loc)
            if md is None:
                continue
            fp = float_params(md["dt"])
            if fp is not None:
                nfloat += 1
                t, minnormal, maxfinite = fp
                u = Fraction(1, 2 ** t)
                lo, hi = pattern_range(md["kind"], md["W"])
                pmax = max(abs(lo), abs(hi))
                c = fconst(md["c"]) if md["c"] is not None else Fraction(1)
                b = fconst(md["b"]) if md["b"] is not None else Fraction(0)
                okn = c != 0 and abs(c) >= minnormal and (pmax * abs(c) * (1 + u) + abs(b)) * (1 + u) < maxfinite
                res.ob("F-fin", "%s | every decoded value is finite (no overflow, resolution is a normal number)" % fid, okn,
                       "max magnitude %s" % float(pmax * abs(c) + abs(b)), fd.loc, sample={"field": fid, "max": float(pmax * abs(c) + abs(b))} if fid == "df166_8" else None)
            continue
        res.ob("O-extract", "%s | codec matches the field templates" % fid, md is not None and me is not None,
               "decode: %s ; encode: %s" % (why_d, why_e), fd.loc)
        if md is None or me is None:
            continue
        dt = md["dt"]
        W, kind, bits = md["W"], md["kind"], md["bits"]
        lo, hi = pattern_range(kind, W)
        pmax = max(abs(lo), abs(hi))
        c_d = fconst(md["c"]) if md["c"] is not None else None
        b_d = fconst(md["b"]) if md["b"] is not None else None
        c_e = fconst(me["c"]) if me["c"] is not None else None
        b_e = fconst(me["b"]) if me["b"] is not None else None
        sample = {"field": fid, "carrier": md["carrier"], "W": W, "dt": dt.get("name", "f%s" % dt.get("bits")), "res": str(c_d), "bias": str(b_d),
                  "inv": md.get("inv"), "round": bool(me["round"])}
        # O-agree
        agree = (md["carrier"] == me["carrier"] and W == me["W"] and c_d == c_e and b_d == b_e and md.get("inv") == me.get("inv")
                 and md["optional"] == ("inv" in me)
                 and (not md["optional"] or (me["inv_carrier"] == md["carrier"] and me["inv_W"] == W)))
        res.ob("O-agree", "%s | both directions use the same carrier, width, resolution, bias and absent marker" % fid, agree,
               "decode %s.%s c=%s b=%s inv=%s ; encode %s.%s c=%s b=%s inv=%s" % (md["carrier"], W, c_d, b_d, md.get("inv"), me["carrier"], me["W"], c_e, b_e, me.get("inv")),
               fd.loc, sample=sample if fid in ("df166_8", "df040", "df133") else None)
        res.ob("O-width", "%s | 1 <= width <= carrier bits" % fid, 1 <= W <= bits, "W=%d bits=%d" % (W, bits), fd.loc)
        if md["optional"]:
            inv = md["inv"]
            # marker as a W-bit pattern of the carrier: it must be a value the decoder can actually see
            res.ob("O-inv", "%s | the absent marker is a representable %d-bit pattern (exactly one pattern is absent)" % (fid, W), lo <= inv <= hi,
                   "marker %s, pattern range [%s, %s]" % (inv, lo, hi), fd.loc, sample={"field": fid, "inv": inv, "range": [lo, hi]})
        if b_d is not None:
            res.ob("O-bias", "%s | encode subtracts the bias only under value >= bias, else OutOfRange" % fid,
                   me["bias_guard"] is True and me["errs"] <= {"OutOfRange"}, "guard=%s errors=%s" % (me["bias_guard"], sorted(me["errs"])), fe.loc)
            res.ob("O-bias", "%s | a value is refused only when it is below the bias (value == bias is accepted)" % fid, me.get("refusal_ok", True), me.get("refusal_why", ""), fe.loc)
            res.ob("O-bias", "%s | biased fields use an unsigned carrier and a positive resolution (decoded values pass the guard)" % fid,
                   kind == "u" and (c_d is None or c_d > 0), "kind=%s c=%s" % (kind, c_d), fd.loc)
        else:
            res.ob("O-bias", "%s | no error path without a bias" % fid, not me["errs"], "errors=%s" % sorted(me["errs"]), fe.loc)
        fp = float_params(dt)
        if fp is None:
            # ---- integer data type
            rng = int_range(dt)
            itr = int_range({"k": "uint" if kind == "u" else "int", "bits": bits})
            c = c_d if c_d is not None else Fraction(1)
            b = b_d if b_d is not None else Fraction(0)
            vals = [lo * c + b, hi * c + b, lo * c, hi * c, Fraction(lo), Fraction(hi)]
            okr = rng is not None and all(rng[0] <= v <= rng[1] for v in vals) and c.denominator == 1 and b.denominator == 1 and c != 0
            res.ob("O-int", "%s | every pattern decodes without leaving the data type (p*res + bias in range)" % fid, okr,
                   "patterns [%s,%s] -> values %s..%s in %s" % (lo, hi, min(vals), max(vals), rng), fd.loc)
            # encode(decode(p)) = p : (p*c + b - b)/c = p exactly, cast back value-preserving
            okc = itr[0] <= lo and hi <= itr[1] and me["round"] is None
            res.ob("O-int", "%s | re-encoding a decoded value reproduces the pattern (exact integer arithmetic)" % fid, okc and okr, "", fe.loc)
            continue
        # ---- float data type
        nfloat += 1
        t, minnormal, maxfinite = fp
        u = Fraction(1, 2 ** t)
        c = c_d if c_d is not None else Fraction(1)
        b = b_d if b_d is not None else Fraction(0)
        has_bias = b_d is not None
        res.ob("O-exact", "%s | every pattern converts exactly to the float type (|p| <= 2^%d)" % (fid, t), pmax <= 2 ** t, "max |p| = %d" % pmax, fd.loc)
        okn = c != 0 and abs(c) >= minnormal and (pmax * abs(c) * (1 + u) + abs(b)) * (1 + u) < maxfinite
        res.ob("F-fin", "%s | every decoded value is finite (no overflow, resolution is a normal number)" % fid, okn,
               "max magnitude %s" % float(pmax * abs(c) + abs(b)), fd.loc, sample={"field": fid, "max": float(pmax * abs(c) + abs(b))} if fid == "df166_8" else None)
        rnd = me["round"]
        trivial = is_pow2(abs(c)) and not has_bias
        if rnd is None and prop == "C11":
            # nearest-value selection for ARBITRARY real inputs needs the rounding step even where every grid point converts exactly:
            # a truncating cast picks the lower neighbour and is off by up to a whole step
            res.ob("O-round", "%s | rounding template present: a real input between two grid points goes to the nearer one" % fid, False,
                   "res=%s bias=%s: the quotient is cast without rounding (truncation towards zero, error up to one step)" % (c_d, b_d), fe.loc)
        elif rnd is None:
            res.ob("O-round", "%s | rounding template present (or resolution is a power of two without bias: every step exact)" % fid,
                   trivial or c_d is None, "res=%s bias=%s, no rounding" % (c_d, b_d), fe.loc)
        else:
            # {Ge: +1/2, Lt: -1/2}  (or Gt / Le)
            pos = [v for k, v in rnd.items() if k in ("Ge", "Gt")]
            neg = [v for k, v in rnd.items() if k in ("Lt", "Le")]
            okt = pos == [Fraction(1, 2)] and neg == [Fraction(-1, 2)] and me["cast"] == "FloatToInt"
            res.ob("O-round", "%s | round half away from zero: quotient + (quotient >= 0 ? +0.5 : -0.5), then truncating cast" % fid, okt,
                   "template %s cast %s" % ({k: str(v) for k, v in rnd.items()}, me["cast"]), fe.loc,
                   sample={"field": fid, "template": {k: str(v) for k, v in rnd.items()}} if fid == "df166_8" else None)
        if not trivial or rnd is not None:
            d = delta_bound(pmax, c, b, t, has_bias)
            # |quotient + 1/2| < pmax + 1 <= B (B the next power of two): the sum lies in a binade below B, where half an ulp is u * B / 2
            margin = Fraction(1, 2) - u * Fraction(1 << int(pmax).bit_length(), 2)
            okd = d < margin and rnd is not None
            if okd and d > worst:
                worst, worst_id = d, fid
            res.ob("O-err", "%s | decode-then-encode lands within the rounding margin for every pattern" % fid, okd or (trivial and rnd is None),
                   "error bound %.3e, margin %.6f" % (float(d), float(margin)), fe.loc,
                   sample={"field": fid, "bound": float(d), "margin": float(margin)} if fid == "df166_8" else None)
        # C11: arbitrary real input in range: q = fl(fl(x - b)/c)
        if rnd is not None or not trivial:
            xmax = pmax * abs(c) + abs(b)
            if has_bias:
                e_sub = u * (xmax + abs(b))
                eq = (e_sub / abs(c)) * (1 + u) + u * (pmax + 1)
            elif trivial:
                eq = Fraction(0)      # dividing a float by a power of two is exact
            else:
                eq = u * (pmax + 1)
            # |quotient + 1/2| < pmax + 1 <= B (B the next power of two): the sum lies in a binade below B, where half an ulp is u * B / 2
            margin = Fraction(1, 2) - u * Fraction(1 << int(pmax).bit_length(), 2)
            res.ob("O-err2", "%s | for any real input in range the quantised value is one of the two neighbouring grid points" % fid,
                   eq < margin and rnd is not None, "quotient error bound %.3e, margin %.6f" % (float(eq), float(margin)), fe.loc)
    res.extra["float_fields"] = nfloat
    res.extra["non_numeric_codecs_skipped"] = nstr
    res.extra["worst_roundtrip_error_bound"] = {"field": worst_id, "bound": float(worst)}
    return fns


# ---------------------------------------------------------------- hand-written quantisers (1059, 1065, 1230)
def check_handwritten(prog, res, prop="C08"):
    res = _Filter(res, prop)
    for mod, W in (("df_msg1059_biases", 14), ("df_msg1065_biases", 14), ("df_msg1230_biases", 16)):
        fe = prog.fn("df::dfs::%s::encode" % mod)
        fd = prog.fn("df::dfs::%s::decode" % mod)
        if fe is None or fd is None:
            if mod[6:10] in " ".join(prog.crate["features"]):
                res.missing("Q-quant", "df::dfs::%s" % mod)
            continue
        res.fn(fe)
        res.fn(fd)
        ea = FA(fe, prog)
        da = FA(fd, prog)
        # encode: put::<I16>(z as i16, W) where the put receives the cast directly (no post-processing of the integer) and
        #   template A: z = y +- 1/2 selected by the sign of y, y = x / c
        #   template B: z = (x +- h) / c selected by the sign of x, with 2h == c exactly
        # and x is a plain read of the element's field (no clamping / remapping before quantisation)
        found = None
        why = "no put::<I16>(_, %d) of a float-to-int cast found (is the integer post-processed after the cast?)" % W
        for b, t in fe.calls():
            if callee_of(t) == PUT:
                a = ea.call_args(b)
                g = libmodel.carrier_of(t.get("rargs") or t.get("cargs"))
                X = a[1]
                if g and g[0] == "I16" and is_const(a[2]) and const_val(a[2]) == W:
                    if X.op == "cast" and X.args[0] == "FloatToInt":
                        found = (b, X.args[1])
                    elif X.op == "phi" and ea.phi_operands(X) and all(v.op == "cast" and v.args[0] == "FloatToInt" for pb, v in ea.phi_operands(X)):
                        # the cast written inside each branch of the sign test: cast(phi(a, b)) == phi(cast(a), cast(b))
                        found = (b, mk("phicast", X))
                    else:
                        why = "the value written is not the float-to-int cast itself: %s" % show(X, ea.names)
        ok = False
        d = why
        c_e = None

        def plain_read(x):
            for y in subterms(x):
                if y.op == "call" and not y.args[0].endswith("::next"):
                    return False
                if y.op in ("bin", "un", "cast", "phi"):
                    return False
            return x.op in ("memval", "field")

        def phi_ops(ph):
            if ph.op == "phicast":
                return [(pb, v.args[1]) for pb, v in ea.phi_operands(ph.args[0])]
            return ea.phi_operands(ph)

        def sign_select(ph, on):
            """phi of (on +- k): returns {cmp: signed offset} or None"""
            sel = {}
            for pb, v in phi_ops(ph):
                if v.op == "bin" and v.args[0] in ("Add", "Sub") and is_lit(v.args[2]) and v.args[1] is on:
                    off = fconst(v.args[2]) * (1 if v.args[0] == "Add" else -1)
                    facts = [fact_of_guard(gd) for gd in ea.guards(pb) if gd[4] == "switch"]
                    cmpf = [fc for fc in facts if fc[0] in ("Ge", "Gt", "Lt", "Le") and fc[1] is on and is_const(fc[2]) and fconst(fc[2]) == 0]
                    if len(cmpf) > 1:
                        # a cascade of tests on the same quotient (`partial_cmp` spelled out: > first, then <, ==): the outermost decides the arm
                        cmpf = cmpf[-1:]
                    if len(cmpf) != 1:
                        return None
                    if cmpf[0][0] in sel and sel[cmpf[0][0]] != off:
                        return None
                    sel[cmpf[0][0]] = off
                else:
                    return None
            return sel
        if found:
            b, z = found
            if z.op in ("phi", "phicast"):
                # template A
                ons = {v.args[1] for pb, v in phi_ops(z) if v.op == "bin"}
                if len(ons) == 1:
                    y = next(iter(ons))
                    sel = sign_select(z, y)
                    if sel is not None and y.op == "bin" and y.args[0] == "Div" and is_lit(y.args[2]):
                        c_e = fconst(y.args[2])
                        pos = [v for k, v in sel.items() if k in ("Ge", "Gt")]
                        neg = [v for k, v in sel.items() if k in ("Lt", "Le")]
                        okx = plain_read(y.args[1])
                        ok = pos == [Fraction(1, 2)] and neg == [Fraction(-1, 2)] and okx
                        d = "template A %s on x / %s; x is a plain field read: %s (%s)" % ({k: str(v) for k, v in sel.items()}, float(c_e), okx, show(y.args[1], ea.names))
            elif z.op == "bin" and z.args[0] in ("Add", "Sub") and (z.args[2].op == "phi" or (z.args[0] == "Add" and z.args[1].op == "phi")):
                # template A': z = y + h with h = +1/2 or -1/2 selected by the sign of y  (x + (-c) == x - c exactly in IEEE-754)
                y, h = (z.args[1], z.args[2]) if z.args[2].op == "phi" else (z.args[2], z.args[1])
                sgn = 1 if z.args[0] == "Add" else -1
                sel = {}
                good = True
                for pb, v in ea.phi_operands(h):
                    if not is_lit(v):
                        good = False
                        break
                    facts = [fact_of_guard(gd) for gd in ea.guards(pb) if gd[4] == "switch"]
                    cmpf = [fc for fc in facts if fc[0] in ("Ge", "Gt", "Lt", "Le") and fc[1] is y and is_const(fc[2]) and fconst(fc[2]) == 0]
                    if len(cmpf) != 1:
                        good = False
                        break
                    sel[cmpf[0][0]] = sgn * fconst(v)
                if good and y.op == "bin" and y.args[0] == "Div" and is_lit(y.args[2]):
                    c_e = fconst(y.args[2])
                    pos = [v for k, v in sel.items() if k in ("Ge", "Gt")]
                    neg = [v for k, v in sel.items() if k in ("Lt", "Le")]
                    okx = plain_read(y.args[1])
                    ok = pos == [Fraction(1, 2)] and neg == [Fraction(-1, 2)] and okx
                    d = "template A' (y + h, h in %s selected by the sign of y) on x / %s; x is a plain field read: %s" % ({k: str(v) for k, v in sel.items()}, float(c_e), okx)
                else:
                    d = "quantiser shape not recognised: %s" % show(z, ea.names)[:160]
            elif z.op == "bin" and z.args[0] == "Div" and is_lit(z.args[2]) and z.args[1].op == "phi":
                # template B
                c_e = fconst(z.args[2])
                w = z.args[1]
                ons = {v.args[1] for pb, v in ea.phi_operands(w) if v.op == "bin"}
                if len(ons) == 1:
                    x = next(iter(ons))
                    sel = sign_select(w, x)
                    if sel is not None:
                        pos = [v for k, v in sel.items() if k in ("Ge", "Gt")]
                        neg = [v for k, v in sel.items() if k in ("Lt", "Le")]
                        okx = plain_read(x)
                        ok = len(pos) == 1 and len(neg) == 1 and pos[0] == -neg[0] and 2 * pos[0] == c_e and okx
                        d = "template B: (x +- %s) / %s, half step exact: %s; x is a plain field read: %s" % (
                            float(pos[0]) if pos else None, float(c_e), bool(pos) and 2 * pos[0] == c_e, okx)
            else:
                d = "quantiser shape not recognised: %s" % show(z, ea.names)[:160]
        res.ob("Q-quant", "%s | encode rounds half away from zero on the quotient of the raw field, 16-bit signed carrier, %d bits" % (mod, W), ok, d, fe.loc, sample=d)
        # decode: every pushed entry carries exactly (parse::<I16>(W) as f32) * c in its float field (no post-processing)
        c_d = None
        okd = False
        npush = 0
        for b, t in fd.calls():
            if (callee_of(t) or "").endswith("DataVec::<T, N>::push"):
                a = da.call_args(b)
                v = a[1]
                if v.op != "agg":
                    continue
                fl = [x for x in v.args[3] if ty_of(x) is not None and ty_of(x).get("k") == "float"]
                if len(fl) != 1:
                    continue
                npush += 1
                x = fl[0]
                good = x.op == "bin" and x.args[0] == "Mul" and is_lit(x.args[2]) and x.args[1].op == "cast" and x.args[1].args[0] == "IntToFloat" \
                    and any(y.op == "call" and y.args[0] == PARSE and is_const(y.args[1][1]) and const_val(y.args[1][1]) == W for y in subterms(x.args[1].args[1])) \
                    and not any(y.op == "call" and y.args[0] not in (PARSE, BRANCH) for y in subterms(x.args[1].args[1]))
                if good:
                    cd = fconst(x.args[2])
                    if c_d is None or c_d == cd:
                        c_d = cd
                        okd = True
                    else:
                        okd = False
                else:
                    okd = False
                    c_d = None
                    break
        okd = okd and npush >= 1
        res.ob("Q-quant", "%s | decode = parsed %d-bit integer * the same resolution" % (mod, W), okd and c_d == c_e and c_d is not None,
               "decode res %s, encode res %s" % (c_d, c_e), fd.loc)
        if c_d is not None and c_e == c_d:
            pmax = 1 << (W - 1)
            dlt = delta_bound(pmax, c_d, Fraction(0), 24, False)
            margin = Fraction(1, 2) - Fraction(pmax + 1, 2 ** 24)
            res.ob("Q-quant-rt", "%s | decode-then-encode reproduces every pattern (error bound below the rounding margin)" % mod, dlt < margin,
                   "bound %.3e margin %.6f" % (float(dlt), float(margin)), fe.loc)
