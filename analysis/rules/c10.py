"""C10: MSM satellite, signal and cell masks follow the standard for any input order."""
import os
import msm
import sorting

META = {
    "level": "other",
    "trusted_base": ["the enumerated bit-mask idioms compute set membership / union (their meaning is taken as given)",
                     "slice::sort_unstable_by sorts by the given total order", "rustc MIR construction", "mirfacts exporter"],
    "explanation": "On each of the 49 data-segment encoders (floor 49, plus a sibling-identity check): the three mask writes are U64.64, U32.32, U64.n in "
                   "this order; the satellite / signal / cell accumulators start at 0 and are OR-ed with 1 << (64 - id), 1 << (32 - to_id(sig)), "
                   "1 << (cells - 1 - index) with index = rank(sat)*|G| + rank(sig) from ascending rank tables (bit s counted from the MSB as 1, row-major); "
                   "the satellite id is exactly 1..=64 where its bit is computed (interval under the dominating guards); each of the six rejections is "
                   "returned and decided by the enumerated idiom (duplicate: bit & mask != 0; mismatch: the two satellite accumulators differ; unrecognised "
                   "signal: to_id == None; count: cells > 64 before the first use); satellite/signal fragments sort a copy by (satellite, signal) before "
                   "writing; decoders read the cell mask with a guarded width and rebuild ids in ascending order, cells row-major."
                   "(B-sem) the bit-exact reading of put / parse these clauses stand on (field bits MSB first at the cursor, nothing else touched) is the abstract interpretation of C07, imported and decided here too. Completeness: every row that is not refused updates its mask and is pushed onto the cell list (M-all), every row of a fragment write / read loop is written / read (S-sort, S-read), nothing but the sort changes the sorted clone and nothing but set_len / iter_mut / push changes a decoded list (looprules.py). The identifier map is injective with to_sig as inverse and rows are ordered by identifier for recognised signals (Y-tab / Y-ord imported from C18).",
    "assumptions": ["permutation invariance is decided as 'a sort with the right key dominates the writes'"],
}


def run(ctx, res):
    prog = ctx.prog("K0")
    import rejects, re
    rejects.rule_encode_reject_inventory(prog, res, only=re.compile(r'_data::encode$'))
    msm.rule_guards(prog, res)
    msm.rule_siblings(prog, res)
    msm.rule_decode(prog, res)
    sorting.rule_sort(prog, res)
    import bitio
    bitio.import_transport(prog, res, signed=False)
    # "the signal mask exactly the bits of the signals' identifiers ... decoding returns the same sets in that order": the identifier map has to be
    # injective with to_sig as its inverse (C18's Y-tab, without the standard's positions), and the order the rows are sorted by has to be the order
    # of the identifiers for recognised signals (Y-ord, that clause only; Y-part for callers going through partial_cmp)
    import sigtab, engine
    view = engine.Filtered(res, {"Y-tab", "Y-ord", "Y-part"}, key_contains={"Y-ord": ("both recognised",)})
    tabs = sigtab.rule_tables(prog, view, os.path.join(engine.VERIF, "oracles", "msm_signals.json"))
    sigtab.rule_order(prog, view, tabs)
