"""C16: SSR code-bias and GLONASS bias lists keep every entry or report an error."""
import ssr
import fieldmodel
import sorting

META = {
    "level": "other",
    "trusted_base": ["Iterator::filter(p).count() counts the elements satisfying p; filter yields them in order", "RangeInclusive yields lo..=hi ascending",
                     "rustc MIR construction", "mirfacts exporter"],
    "explanation": "On the hand-written 1059 / 1065 / 1230 codecs: (K-adeq) every count and id written by the encoders has an interval within its "
                   "field (satellite count: distinct-bit counter bounded by the mask width and the explicit > 63 refusal; per-satellite count: refused above "
                   "31; ids from the inclusive range / signal table); (Q-mask) satellites accepted are exactly the ids the id field can hold, others "
                   "are refused with OutOfRange, and groups are written for ascending s exactly when the satellite is present; (Q-cnt) the satellite count on the wire is the number of those groups: popcount of the mask the group loop walks, or a counter incremented exactly where a new mask bit is set (under (bit & mask) == 0); (Q-pred) the predicate "
                   "counted for the group header equals the predicate under which entries are written; (Q-tab) the SSR signal tables are mutually "
                   "inverse and fit 5 bits; (P-push) decoders never push past the capacity; (Q-1230) mask bit <-> signal tables of encode and decode are "
                   "inverse, decode order equals the encoder's sort order, at most 4 entries; quantisers: round-half-away, same resolution both ways, "
                   "pattern round trip bound (Q-quant). Multiset equality follows from these under the property's precondition (distinct recognised "
                   "signals); it is not checked end to end."
                   "(B-sem) the bit-exact reading of put / parse these clauses stand on (field bits MSB first at the cursor, nothing else touched) is the abstract interpretation of C07, imported and decided here too. (S-sem) likewise the two's-complement reading of the signed bias carriers. Completeness: in the write loops only an unrecognised signal skips an entry and every other entry reaches both writes; in the decode loops every entry with a recognised id (1230: every index whose mask bit is set) is pushed, and the decoded list is mutated by those pushes only.",
    "assumptions": [],
}


def run(ctx, res):
    prog = ctx.prog("K0")
    import rejects, re
    rejects.rule_encode_reject_inventory(prog, res, only=re.compile(r'df_msg1(059|065|230)_biases::encode$'))
    ssr.rule_count_fields(prog, res)
    ssr.rule_tables(prog, res)
    ssr.rule_value_flow(prog, res)
    ssr.rule_decode_capacity(prog, res)
    ssr.rule_1230(prog, res)
    fieldmodel.check_handwritten(prog, res, prop="C08")
    import bitio
    bitio.import_transport(prog, res, signed=True)
    g = prog.fn("df::dfs::df_msg1230_biases::encode")
    if g is not None:
        sorting._sort_rule(prog, res, g, ("signal_id",))
