"""C13: a frame's interpretation does not depend on the bytes that follow it."""
import framing
import dispatch

META = {
    "level": "other",
    "trusted_base": ["rustc MIR construction", "mirfacts exporter"],
    "explanation": "Dependence analysis on MessageFrame::new: every branch whose condition mentions the input slice length is an extent "
                   "guard (one arm cannot reach Ok), the Ok aggregate does not mention the length, every byte index / slice end that "
                   "reaches the Ok value or an Ok-path condition is <= L+5 / L+6; message_number is Some(first 12 payload bits) iff L >= 2; "
                   "from_message_frame reads only data() and message_number() and hands the decoders a Parser over data() at bit 12; "
                   "decoders take only &mut Parser (type level). Frames reach most callers through next_msg_frame / MsgFrameIter: whether a frame is "
                   "delivered at all must not depend on what follows it either, so the scanner clauses of C05 are imported (S-sem: every 0xD3 position "
                   "is handed to new() with the whole remaining slice, its Ok value is passed on unchanged, nothing else decides a verdict).",
    "assumptions": [],
}


def run(ctx, res):
    prog = ctx.prog("K0")
    import engine
    # (A-dig / A-cmp: the checksum verdict is an Ok-path condition too - it must read input[0 .. L+6] and nothing behind it)
    m = framing.rules_new(prog, engine.Filtered(res, {"A-shape", "A-out", "N-pres", "D-len", "D-idx", "A-dig", "A-cmp", "A-ext", "A-inc", "A-exact"}))
    if m.ok and len(m.oks) == 1:
        framing.rule_n_pres(prog, res, m)
        framing.rule_d_len(prog, res, m)
    # the route by which frames are obtained in practice: the scanner must not make delivery depend on the suffix (a tail-length gate, a
    # look-ahead past the frame): C05's scanner clauses, imported
    framing.rules_scan(prog, engine.Filtered(res, {"S-first", "S-cand", "S-ok", "S-inc", "S-end", "S-skip", "S-shape", "S-sem", "S-anchor"}), m)
    import bitio
    bitio.rule_p_pre(prog, engine.Filtered(res, {"P-pre"}, key_contains={"P-pre": ("MessageFrame values are built only",)}))
    framing.rules_iter(prog, engine.Filtered(res, {"I-iter", "I-state"}))
    dec = dispatch.decode_table(prog, engine.Filtered(res, {"T-dec"}, ("number-source", "return-shape", "default-carries-number", "typed-arm", "empty-arm")))
    if dec:
        dispatch.parser_rule(prog, res, dec)
