"""C06: frame delivery does not depend on chunking."""
import framing

META = {
    "level": "other",
    "trusted_base": ["the chunking lemma (DESIGN.md 5.6) is a paper proof over the statically checked clauses"],
    "explanation": "The chunking lemma needs: (a) a candidate's verdict depends only on its first L+6 bytes and is Incomplete iff "
                   "fewer than 6 / L+6 bytes are available (A-ext, A-inc, D-len, D-idx, N-pres); (b) Incomplete returns the candidate's own "
                   "offset (S-inc); (c) skipped bytes are NotValid or non-0xD3 positions (S-skip, S-cand); (d) Ok returns the frame end (S-ok) "
                   "and the end of data returns len (S-end). This check is the conjunction of those rule instances on the current tree. The scanner's completeness clause (every 0xD3 position is handed to new(), S-cand) is imported with the other scan rules.",
    "assumptions": ["induction over chunks is done on paper, not mechanised"],
}


def run(ctx, res):
    prog = ctx.prog("K0")
    import engine
    m = framing.rules_new(prog, engine.Filtered(res, {"A-shape", "A-ext", "A-inc", "A-out", "S-closed", "N-pres", "D-len", "D-idx"}))
    if m.ok and len(m.oks) == 1:
        framing.rule_n_pres(prog, res, m)
        framing.rule_d_len(prog, res, m)
    framing.rules_scan(prog, res, m)
