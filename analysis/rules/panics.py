"""P-inv: panic-site inventory over a call-graph closure (C02: decode side, C09: encode side).

Every Assert terminator and every call to a function that can panic is an obligation; it is discharged by a
sound local rule (constants, intervals under dominating guards, linear subsumption, capacity rules,
dead-code rules) or by a reviewed residue entry whose relied-on facts are re-checked structurally.
Unknown external callees fail closed.
"""
import json
import os
import re
from terms import FA, show, mk, ty_of, is_const, const_val, T, subterms, set_ty
from facts import callee_of, int_range
from intervals import Intervals, trange
from algebra import lin
import libmodel
import engine

DEC_ROOTS = ["next_msg_frame", "<&mut MsgFrameIter as core::iter::Iterator>::next", "MsgFrameIter::new", "MsgFrameIter::consumed",
             "message_frame::MessageFrame::new", "message_frame::MessageFrame::get_message",
             "message_frame::MessageFrame::data", "message_frame::MessageFrame::frame_data", "message_frame::MessageFrame::data_len",
             "message_frame::MessageFrame::frame_len", "message_frame::MessageFrame::crc", "message_frame::MessageFrame::message_number",
             "msg::message::Message::from_message_frame"]
ENC_ROOTS = ["msg::message::MessageBuilder::new", "msg::message::MessageBuilder::build_message", "msg::message::Message::number"]

BITVALUE_TRAIT = "df::bit_value::BitValue::"

# crate-local forwarding wrappers around tinyvec: the capacity obligation is checked at every call site of the
# wrapper (same rules as for the wrapped function); inside the wrapper the forwarded call is discharged by that.
WRAPPERS = {
    "util::data_vec::DataVec::<T, N>::push": ("push", "tinyvec::ArrayVec::<A>::push"),
    "util::data_vec::DataVec::<T, N>::set_len": ("set_len", "tinyvec::ArrayVec::<A>::set_len"),
    "util::data_vec::DataVec::<T, N>::remove": ("index", "tinyvec::ArrayVec::<A>::remove"),
    "util::Df88591String::<N>::push": ("push", "tinyvec::ArrayVec::<A>::push"),
    "util::Df88591String::<N>::push_char": ("push", "tinyvec::ArrayVec::<A>::push"),
}


def closure(prog, roots):
    """Call-graph closure; unresolved BitValue trait calls (generic put/parse) pull in every impl."""
    seen = prog.closure_from(roots)
    extra = set()
    for p in list(seen):
        for b, t in prog.fns[p].calls():
            c = callee_of(t)
            if c and c.startswith(BITVALUE_TRAIT):
                m = c[len(BITVALUE_TRAIT):]
                for q in prog.fns:
                    if q.endswith(" as df::bit_value::BitValue>::" + m):
                        extra.add(q)
    if extra - seen:
        seen |= prog.closure_from(list(extra))
    return seen


def fn_class(path):
    return path


BV_RE = re.compile(r"<df::bit_value::(U|I|SM)(\d+) as df::bit_value::BitValue>::(sign_fix|sign_fix_rev|u8_cast|val_cast)")
IO_FNS = {"df::parser::Parser::parse": 2, "df::assembler::Assembler::put": 3, "df::parser::Parser::consume_bits": 2,
          "df::parser::Parser::data": None, "df::parser::Parser::offset": None, "df::assembler::Assembler::offset": None}
MAX_PAYLOAD = 1023


REFOP = re.compile(r"<([ui](?:8|16|32|64|128|size)) as core::ops::(Add|Sub|Mul)<&\1>>::(add|sub|mul)")


def _inlined_everywhere(prog, path):
    parent_path = path.rsplit("::{closure#", 1)[0]
    parent = prog.fn(parent_path)
    if parent is None or path not in (getattr(prog, "inlined", {}) or {}).get(parent_path, []):
        return False
    def is_cl(ty):
        return ty.get("k") == "closure" and ty.get("path") == path or (ty.get("k") == "ref" and is_cl(ty.get("to", {})))
    for blk in parent.rec["blocks"]:
        t = blk["term"]
        if t["k"] == "call":
            for a in t.get("args", []):
                if a.get("k") in ("copy", "move") and is_cl(parent.rec["locals"][a["place"]["local"]]):
                    return False
        for s_ in blk["stmts"]:
            if s_["k"] == "assign" and s_["rv"]["k"] == "aggregate" and s_["rv"].get("agg") != "closure":
                for o in s_["rv"].get("ops", []):
                    if o.get("k") in ("copy", "move") and is_cl(parent.rec["locals"][o["place"]["local"]]):
                        return False
    # nobody else names the closure
    for q, g in prog.fns.items():
        if q != parent_path and not q.startswith(parent_path + "::{closure#"):
            continue
        if q == parent_path:
            continue
        for blk in g.rec["blocks"]:
            for s_ in blk["stmts"]:
                if s_["k"] == "assign" and s_["rv"]["k"] == "aggregate" and s_["rv"].get("agg") == "closure" and s_["rv"].get("path") == path:
                    return False
    return True


def closure_item_assumption(prog, f):
    """A closure whose only use is `(c1..=c2 | c1..c2).filter(closure)` is called with a reference to an item of that range:
    *arg2 lies in [c1, c2] (resp. [c1, c2-1])."""
    parent = prog.fn(f.path.rsplit("::{closure#", 1)[0])
    if parent is None:
        return None
    fa = FA(parent, prog)
    rng = None
    n = 0
    for b, t in parent.calls():
        args = fa.call_args(b)
        for i, a in enumerate(args):
            if a.op == "closure" and a.args[0] == f.path:
                n += 1
                if callee_of(t) == "core::iter::Iterator::filter" and i == 1:
                    x = args[0]
                    if x.op == "call" and x.args[0] == "core::ops::RangeInclusive::<Idx>::new" and all(is_const(y) for y in x.args[1]):
                        rng = (const_val(x.args[1][0]), const_val(x.args[1][1]))
                    elif x.op == "agg" and x.args[0] == "core::ops::Range" and all(is_const(y) for y in x.args[3]):
                        rng = (const_val(x.args[3][0]), const_val(x.args[3][1]) - 1)
    if n != 1 or rng is None:
        return None
    fid = id(f)

    def a(t):
        # memval(*arg2) / memval(*memval(*arg2)) (|id| and |&id| patterns)
        x = t
        depth = 0
        while x.op in ("memval", "mem") and depth < 4:
            x = x.args[0]
            depth += 1
        if depth >= 2 and x.op == "arg" and x.args[0] == fid and x.args[1] == 2 and ty_of(t) is not None and ty_of(t).get("k") in ("uint", "int"):
            return rng
        return None
    return a


def io_assumptions(f):
    """Preconditions / object invariants under which the interiors of the bit reader/writer and of the BitValue
    impls are analysed.  Each is established elsewhere by a named rule (checked in the same run):
      len in [0|1, BITS]            R-width at every put/parse call site (bitio.rule_r_width)
      len(self.data) <= 1023        P-pre: construction sites of Parser / Assembler
      self.offset <= 8*1023 + 7     P-pre: B-guard/B-cursor on the only stores + consume_bits call sites
    """
    m = BV_RE.fullmatch(f.path)
    if m:
        kind, bits = m.group(1), int(m.group(2))
        lo = 1
        fid = id(f)

        def a(t):
            if t.op == "arg" and t.args[0] == fid and t.args[1] == 2:
                return (lo, bits)
            return None
        return a
    if f.path in IO_FNS:
        fid = id(f)
        larg = IO_FNS[f.path]

        def a(t):
            if t.op == "arg" and t.args[0] == fid and larg is not None and t.args[1] == larg:
                return (1, 128) if f.path != "df::parser::Parser::consume_bits" else (0, 1 << 16)
            if t.op == "len":
                r = t.args[0]
                while r.op in ("mem", "memval"):
                    r = r.args[0]
                if r.op == "pf" and r.args[1] == 0 and r.args[0].op == "mem" and r.args[0].args[0].op == "arg" and r.args[0].args[0].args[1] == 1:
                    return (0, MAX_PAYLOAD)
            if t.op == "memval" and t.args[0].op == "pf" and t.args[0].args[1] == 1 and t.args[0].args[0].op == "mem" \
                    and t.args[0].args[0].args[0].op == "arg" and t.args[0].args[0].args[0].args[1] == 1:
                # Parser: built at bit 12 (P-pre) and only ever advanced; Assembler: starts at 0
                return (12 if "parser" in f.path else 0, 8 * MAX_PAYLOAD + 7)
            if t.op == "bin" and t.args[0] == "Add" and f.path == "df::assembler::Assembler::put":
                # offset + len >= 1: the first put after Assembler::new(_, 0) is the 12-bit message number (W-num),
                # afterwards offset >= 12 (B-cursor: the cursor only grows)
                x, y = t.args[1], t.args[2]
                if x.op == "memval" and y.op == "arg" and y.args[1] == 3:
                    return (1, 8 * MAX_PAYLOAD + 7 + 128)
            return None
        return a
    return None


def engine_filtered(res):
    return res


def key_of(rule, f, desc):
    return "%s | %s" % (f.path, desc)


class Inventory:
    def __init__(self, prog, res, side, residue):
        self.prog = prog
        self.res = res
        self.side = side
        self.residue = residue
        self.used_residue = set()
        self.stats = {"assert": 0, "call": 0, "const": 0, "interval": 0, "residue": 0, "rule": 0}

    def run(self, roots, assume_for=None):
        prog, res = self.prog, self.res
        cl = closure(prog, roots)
        self.closure = cl
        for p in sorted(cl):
            f = prog.fns[p]
            res.fn(f)
            a = assume_for(f) if assume_for else None
            if "{closure#" in p and p.rsplit("::{closure#", 1)[0] in getattr(self, "sem_decided", ()):
                # a closure of a function decided by abstract interpretation is interpreted in its caller's context there
                self.res.ob("P-sem", "%s | interpreted in the context of its parent (abstract interpretation)" % p, True, "", f.loc)
                continue
            if "{closure#" in p and _inlined_everywhere(prog, p):
                # the closure's body was inlined at each place it is called (iterator adaptors expanded by inline.py) and the closure value is
                # handed to no other function: the inlined copies are analysed with their callers' facts, a context-free second analysis of the
                # body would only ask for facts the callers establish
                self.res.ob("P-sem", "%s | inlined at every call site; analysed in the context of its parent" % p, True, "", f.loc)
                continue
            if a is None and "{closure#" in p:
                a = closure_item_assumption(prog, f)
            before = self.stats.get("sem", 0)
            self.fn(f, a)
            if self.stats.get("sem", 0) > before:
                self.sem_decided = getattr(self, "sem_decided", set()) | {p}
        return cl

    def discharge(self, rule, f, desc, ok, detail, line, how):
        key = key_of(rule, f, desc)
        loc = {"file": f.loc["file"], "line": line}
        if ok:
            self.stats[how] = self.stats.get(how, 0) + 1
            self.res.ob(rule, key, True, detail, loc, sample={"site": key, "discharged_by": how, "facts": detail}
                        if self.stats[how] <= 1 else None)
            return
        r = self.residue.get("%s | %s" % (rule, key))
        if r is not None:
            self.used_residue.add("%s | %s" % (rule, key))
            self.stats["residue"] += 1
            self.res.ob(rule, key, True, "residue: " + r["reason"], loc)
            return
        # residue patterns (macro instances): regex on the key
        for pat, r in self.residue.get("__patterns__", []):
            if pat.fullmatch("%s | %s" % (rule, key)):
                self.used_residue.add(r["key"])
                self.stats["residue"] += 1
                self.res.ob(rule, key, True, "residue: " + r["reason"], loc)
                return
        self.res.ob(rule, key, False, detail, loc)

    def fn(self, f, assume):
        prog = self.prog
        if f.path in ("df::assembler::Assembler::put", "df::parser::Parser::parse"):
            # interior of the bit writer / reader: decided by partitioned abstract interpretation (bitsem), which evaluates every
            # Assert terminator, every carrier shift and every buffer access in each (offset mod 8, width, carrier) partition
            # and unrolls the loop (termination).  Preconditions (1 <= width <= carrier bits, cursor invariant) are R-width / P-pre.
            import bitio
            kind = "put" if f.path.endswith("put") else "parse"
            if bitio.rule_bitsem(prog, engine_filtered(self.res), rule="P-sem", which=(kind,)):
                self.stats["sem"] = self.stats.get("sem", 0) + 1
                return
            # not clean: fall through to the generic inventory so that the individual sites are reported as well
        if f.path in ("msg::mask_to_id_vec_u64", "msg::mask_to_id_vec_u32", "msg::cell_mask_id_vec"):
            # decided by abstract interpretation with if-conversion (guardsem): all pushes, indices and arithmetic evaluated per partition
            import msm
            if f.path == "msg::cell_mask_id_vec":
                okk = msm.cellvec_sem(prog)[0]
            else:
                okk = msm.idvec_sem(prog, f.path, 64 if f.path.endswith("64") else 32)[0]
            if okk is True:
                self.res.ob("P-sem", "%s | every push, index and arithmetic operation is decided on every abstract path" % f.path, True, "guardsem / bitscansem", f.loc)
                self.stats["sem"] = self.stats.get("sem", 0) + 1
                return
        if f.path == "msg::message::MessageBuilder::build_message":
            import builder
            sem = builder.build_semantics(prog)
            if not sem["undecided"] and not [1 for c, t_ in sem["problems"] if c == "panic"]:
                self.res.ob("P-sem", "build | every Assert terminator, index and slice operation of build_message is decided on every abstract path", True,
                            "buildsem: %d paths" % sem["paths"], f.loc)
                self.stats["sem"] = self.stats.get("sem", 0) + 1
                return
        if f.path == "message_frame::MessageFrame::new":
            # decided by abstract interpretation (framesem): every Assert terminator, index and slice operation is evaluated on
            # every abstract path; a clean run means none can fail
            import framing
            sem = framing.frame_semantics(prog)
            if not sem["undecided"] and not [1 for c, t_ in sem["problems"] if c == "panic"]:
                self.res.ob("P-sem", "new | every Assert terminator, index and slice operation of MessageFrame::new is decided on every abstract path", True,
                            "framesem: %d paths over L in {0}, {1}, [2,1023]" % sem["paths"], f.loc)
                self.stats["sem"] = self.stats.get("sem", 0) + 1
                return
        if f.path.startswith("message_frame::MessageFrame::") and f.path.rsplit("::", 1)[1] in ("frame_data", "data", "crc", "message_number", "data_len", "frame_len"):
            # an accessor that derives its value (slicing, arithmetic on lengths) relies on the shape new() gives the frame; A-sem interprets
            # every accessor on every frame value new() can return (framesem.observe), and frames are built nowhere else (P-pre)
            import framing
            sem = framing.frame_semantics(prog)
            if not sem["undecided"] and not sem["problems"] and f.path.rsplit("::", 1)[1] in sem.get("observed", ()):
                has_sites = any(t_["k"] == "assert" for t_ in (f.term(b_) for b_ in f.reachable())) or any(True for _ in f.calls())
                if has_sites:
                    self.res.ob("P-sem", "%s | evaluated on every frame MessageFrame::new can return: no assertion, index or slice operation fails" % f.path, True,
                                "framesem.observe", f.loc)
                    self.stats["sem"] = self.stats.get("sem", 0) + 1
                    return
        if f.path == "<&mut MsgFrameIter as core::iter::Iterator>::next":
            # decided by abstract interpretation (framesem.check_iter) under the object invariant index <= data.len() (established by
            # MsgFrameIter::new, preserved by `index += consumed` since the scanner reports at most the length of the slice it was given)
            import framing
            sem = framing.iter_semantics(prog)
            ssem = framing.scan_semantics(prog)
            if not sem["undecided"] and not sem["problems"] and ssem["decided"] and not ssem["problems"]:
                self.res.ob("P-sem", "iter | every Assert terminator, index and slice operation of MsgFrameIter::next is decided on every abstract path", True,
                            "framesem.check_iter: %d paths, under index <= data.len()" % sem["paths"], f.loc)
                self.stats["sem"] = self.stats.get("sem", 0) + 1
                return
        if f.path == "next_msg_frame":
            # decided by inductive abstract interpretation (scansem): every Assert terminator, index and slice operation is evaluated for a
            # symbolic scan position under the loop invariant, and the position grows by one per iteration up to data.len() (termination)
            import framing
            sem = framing.scan_semantics(prog)
            if sem["decided"] and not sem["problems"]:
                self.res.ob("P-sem", "scan | every Assert terminator, index and slice operation of next_msg_frame is decided on every abstract path; "
                                     "the loop terminates", True, "scansem: %d paths; %s" % (sem["paths"], sem["form"]), f.loc)
                self.stats["sem"] = self.stats.get("sem", 0) + 1
                return
        if any(callee_of(t_) == "tinyvec::ArrayVec::<A>::extend_from_slice" for b_, t_ in f.calls()):
            # bulk prefix copy into a fresh ArrayString: the idiom check establishes E >= 1 where E is decremented, E <= len(value) where it
            # indexes, E <= N where it is appended to the empty vector, termination of the decrement loop, and that the function contains no
            # other assertion, index, call into the crate or loop (textrules.bulk_prefix_writer)
            import textrules
            okb, db = textrules.bulk_prefix_writer(prog, f)
            if okb:
                self.res.ob("P-idiom", "%s | bulk prefix copy: every assertion, index, append and the loop are covered by the idiom's lemma" % f.path, True, db, f.loc)
                self.stats["sem"] = self.stats.get("sem", 0) + 1
                return
        if f.path in WRAPPERS and WRAPPERS[f.path][0] == "push" and any(callee_of(t_) == "tinyvec::ArrayVec::<A>::try_push" for b_, t_ in f.calls()):
            # push written as `let r = self.0.try_push(v); assert!(r.is_none())`: ArrayVec::push's own body.  It panics exactly when the vector is
            # full - the obligation every call site of the wrapper discharges (P-push) - provided nothing else in the body can panic
            okw, dw = self._push_via_try_push(f)
            self.discharge("P-wrapper", f, "try_push + assert(is_none) = ArrayVec::push", okw, dw, f.loc["line"], "rule")
            if okw:
                return
        fa = FA(f, prog)
        iv = Intervals(fa, prog, assume=assume)
        names = fa.names
        for b in sorted(f.reachable()):
            blk = f.blocks[b]
            t = blk["term"]
            nst = len(blk["stmts"])
            if t["k"] == "assert":
                self.stats["assert"] += 1
                cond = fa.op_term(t["cond"], (b, nst))
                ops = [fa.op_term(o, (b, nst)) for o in t["ops"]]
                kind = t["kind"]
                ostr = [show(o, names) for o in ops]
                if kind in ("Overflow:Add", "Overflow:Mul"):
                    ostr = sorted(ostr)      # commutative: key independent of operand order
                desc = "%s(%s)" % (kind, ", ".join(ostr))
                civ = iv.interval(cond, b)
                want = 1 if t["expected"] else 0
                if all(is_const(o) for o in ops) and civ == (want, want):
                    self.discharge("P-assert", f, desc, True, "constant operands", t["line"], "const")
                    continue
                ok = civ == (want, want)
                detail = ""
                if not ok and kind == "BoundsCheck":
                    ok = iv.prove_lt_terms(ops[1], ops[0], b)
                if not ok:
                    oi = [iv.interval(o, b) for o in ops]
                    detail = "operand intervals: " + ", ".join("%s in %s" % (show(o, names), _ivs(i)) for o, i in zip(ops, oi))
                else:
                    detail = "proved from intervals/guards"
                # unreachable block (empty interval somewhere): vacuous
                self.discharge("P-assert", f, desc, ok, detail, t["line"], "interval")
            elif t["k"] == "call":
                c = callee_of(t)
                if c is None:
                    self.discharge("P-call", f, "indirect call", False, "call through a function pointer", t["line"], "rule")
                    continue
                if c in WRAPPERS:
                    self.stats["call"] += 1
                    kind = WRAPPERS[c][0]
                    args = fa.call_args(b)
                    ok, detail, desc = self.panic_call(kind, c, f, fa, iv, b, t, args)
                    self.discharge("P-call", f, desc, ok, detail + " [wrapper of %s]" % WRAPPERS[c][1], t["line"], "rule")
                    continue
                if c in prog.fns:
                    continue
                if c in ("core::ops::FnOnce::call_once", "core::ops::FnMut::call_mut", "core::ops::Fn::call"):
                    # a closure literal applied directly (what the normalising pass leaves of `opt.map_or(d, |x| ..)` when the body is too large to
                    # inline): the body is a crate function in the inventory, analysed on its own like any callee
                    cty = (t.get("cargs") or [{}])[0]
                    if isinstance(cty, dict) and cty.get("k") == "ref":
                        cty = cty.get("to", {})
                    if isinstance(cty, dict) and cty.get("k") == "closure" and cty.get("path") in prog.fns and cty.get("path") in self.closure:
                        continue
                if f.path in WRAPPERS and c == WRAPPERS[f.path][1]:
                    ok = self.is_forwarder(f, fa, b)
                    self.discharge("P-wrapper", f, "forwards to %s" % c.rsplit("::", 1)[1], ok,
                                   "the obligation of this call is checked at every call site of the wrapper", t["line"], "rule")
                    continue
                if c.startswith(BITVALUE_TRAIT):
                    # trait call on the generic carrier: every impl of the method is itself in the inventory
                    m = c[len(BITVALUE_TRAIT):]
                    impls = [q for q in self.closure if q.endswith(" as df::bit_value::BitValue>::" + m)]
                    self.discharge("P-generic", f, "BitValue::%s" % m, len(impls) >= 15,
                                   "%d impls of BitValue::%s are analysed individually (floor 15)" % (len(impls), m), t["line"], "rule")
                    continue
                if c == "core::ops::BitOrAssign::bitor_assign":
                    prim = self.carrier_types_primitive()
                    self.discharge("P-generic", f, "ValueType |= ValueType", prim,
                                   "every BitValue::ValueType is a primitive integer: |= cannot panic", t["line"], "rule")
                    continue
                if c in ("core::ops::Shl::shl", "core::ops::Shr::shr"):
                    args = fa.call_args(b)
                    self.discharge("P-generic", f, "ValueType %s %s" % ("<<" if c.endswith("shl") else ">>", show(args[1], names)), False,
                                   "shift of the generic carrier: amount must stay below the carrier width", t["line"], "rule")
                    continue
                m_ = REFOP.fullmatch(c)
                if m_:
                    # `a - &b` etc. on integers: same overflow check as the plain operator
                    args = fa.call_args(b)
                    ct = fa.call_term(b)
                    rng = libmodel.int_range(ty_of(ct)) if ty_of(ct) is not None else None
                    ci = iv.interval(ct, f.term(b)["target"] if f.term(b)["target"] is not None else b)
                    x = iv.interval(args[0], b)
                    yv = mk("memval", args[1].args[0]) if args[1].op == "ref" else mk("memval", mk("mem", args[1]))
                    y = iv.interval(set_ty(yv, ty_of(args[0])), b) if yv is not None else None
                    ok = False
                    detail = "operands %s, %s" % (_ivs(x), _ivs(y))
                    if x is not None and y is not None and rng is not None:
                        op = m_.group(2)
                        lo, hi = (x[0] + y[0], x[1] + y[1]) if op == "Add" else ((x[0] - y[1], x[1] - y[0]) if op == "Sub" else (min(x[0] * y[0], x[1] * y[1]), max(x[0] * y[0], x[1] * y[1])))
                        ok = rng[0] <= lo and hi <= rng[1]
                    self.discharge("P-assert", f, "Overflow:%s(%s, *%s) [operator on a reference]" % (m_.group(2), show(args[0], names), show(args[1], names)), ok, detail, t["line"], "interval")
                    continue
                if c in libmodel.PANICS:
                    self.stats["call"] += 1
                    kind, why = libmodel.PANICS[c]
                    args = fa.call_args(b)
                    ok, detail, desc = self.panic_call(kind, c, f, fa, iv, b, t, args)
                    self.discharge("P-call", f, desc, ok, detail + " [" + why + "]", t["line"], "rule")
                    continue
                if libmodel.is_safe(c):
                    continue
                self.discharge("P-call", f, "unknown external callee %s" % c, False,
                               "no contract in libmodel for this function (fail closed)", t["line"], "rule")
            elif t["k"] == "otherterm":
                self.discharge("P-term", f, "terminator %s" % t.get("s", "?")[:40], False, "unrecognised terminator", 0, "rule")
        self.loops(f, fa)

    def carrier_types_primitive(self):
        n = 0
        for q in self.closure:
            if q.endswith(" as df::bit_value::BitValue>::u8_cast"):
                ty = self.prog.fns[q].locals[0]
                if ty.get("k") not in ("int", "uint"):
                    return False
                n += 1
        return n >= 15

    def _push_via_try_push(self, f):
        fa = FA(f, self.prog)
        tps = [(b, t) for b, t in f.calls() if callee_of(t) == "tinyvec::ArrayVec::<A>::try_push"]
        if len(tps) != 1 or f.loops():
            return False, "expected exactly one try_push and no loop"
        tb, tt = tps[0]
        a = fa.call_args(tb)
        x = a[0]
        while x.op == "ref":
            x = x.args[0]
        if not (x.op == "pf" and x.args[1] == 0 and x.args[0].op == "mem" and x.args[0].args[0].op == "arg"):
            return False, "try_push is not applied to self.0"
        v = a[1]
        while v.op in ("memval",):
            v = v.args[0]
        if not (v.op == "arg" and v.args[1] == 2):
            return False, "the value pushed is not the wrapper's own argument"
        r = fa.call_term(tb)
        # every panic / assert-failure block is reached only when the result is Some (the vector was full); no other call can panic
        for b, t in f.calls():
            c = callee_of(t) or ""
            if b == tb:
                continue
            if c.startswith("core::panicking::") or c.startswith("core::fmt::") or c == "core::option::Option::<T>::is_none" or libmodel.is_safe(c):
                continue
            return False, "another call in the body: %s" % c
        for b in sorted(f.reachable()):
            t = f.term(b)
            if t["k"] == "call" and (callee_of(t) or "").startswith("core::panicking::"):
                gs = fa.guards(b)
                full = False
                for g in gs:
                    tt_ = g[0]
                    # is_none(&r) == false   or   discr(r) == 1
                    if tt_.op == "call" and tt_.args[0] == "core::option::Option::<T>::is_none" and ((g[1] == "eq" and g[2] == 0) or (g[1] == "ne" and 1 in g[2])):
                        y = tt_.args[1][0]
                        while y.op in ("ref", "mem", "memval"):
                            y = y.args[0]
                        if y.op == "loc":
                            y = fa.val(y.args[1], (b, 0))
                        full = full or y is r
                    if tt_.op == "discr" and tt_.args[0] is r and ((g[1] == "eq" and g[2] == 1) or (g[1] == "ne" and 0 in g[2])):
                        full = True
                if not full:
                    return False, "a panic is reachable when try_push returned None"
            if t["k"] == "assert":
                return False, "an arithmetic / bounds assertion in the body"
        return True, "panics exactly when try_push hands the value back (vector full)"

    def is_forwarder(self, f, fa, b):
        """the wrapped call's receiver is self.0 and, for set_len/remove, the argument is the wrapper's own"""
        a = fa.call_args(b)
        x = a[0]
        while x.op == "ref":
            x = x.args[0]
        return x.op == "pf" and x.args[1] == 0 and x.args[0].op == "mem" and x.args[0].args[0].op == "arg" \
            and all(y.op in ("arg", "call", "phi") or True for y in a[1:])

    # ---- panicking library calls
    def panic_call(self, kind, c, f, fa, iv, b, t, args):
        names = fa.names
        short = c.rsplit("::", 1)[1]
        if kind == "panic":
            ok, detail = self.dead_panic(f, fa, iv, b)
            return ok, detail, "panic!/unreachable!"
        if kind == "unwrap":
            x = args[0]
            d = mk("discr", x)
            di = iv.interval(d, b)
            desc = "unwrap(%s)" % show(x, names)
            if di == (1, 1):
                return True, "discriminant proved Some", desc
            ok, detail = self.unwrap_idiom(f, fa, iv, b, x)
            return ok, detail, desc
        if kind == "unwrap_res":
            x = args[0]
            di = iv.interval(mk("discr", x), b)
            return di == (0, 0), "Result discriminant interval %s" % (di,), "unwrap(%s)" % show(x, names)
        if kind == "push":
            ok, detail = push_safe(f, fa, iv, b, args[0])
            return ok, detail, "%s.push" % show(_strip(args[0]), names)
        if kind == "set_len":
            cap = libmodel.capacity_of_type(libmodel.obj_type(args[0]))
            ni = iv.interval(args[1], b)
            ok = cap is not None and ni is not None and ni[1] <= cap
            return ok, "new_len in %s, capacity %s" % (_ivs(ni), cap), "%s.set_len(%s)" % (show(_strip(args[0]), names), show(args[1], names))
        if kind == "extend":
            cap = libmodel.capacity_of_type(libmodel.obj_type(args[0]))
            ok, detail = extend_safe(f, fa, iv, b, args, cap)
            return ok, detail, "%s.extend_from_slice" % show(_strip(args[0]), names)
        if kind in ("index", "slice"):
            ok, detail, d2 = index_safe(f, fa, iv, b, args, names)
            return ok, detail, "%s %s" % (short, d2)
        if kind == "sort":
            # total-order comparator: imported from S-sort/Y-ord; here: the comparator is a crate closure that cannot panic
            cmp = args[1] if len(args) > 1 else None
            ok = cmp is not None and cmp.op == "closure" and cmp.args[0] in self.prog.fns
            return ok, "comparator %s (total order by Y-ord/S-sort; its body is in the inventory)" % (cmp.args[0] if ok else "?"), "sort_unstable_by"
        if kind == "encode_utf8":
            x = args[1]
            ln = libmodel.len_interval(mk("len", _strip(x)), iv, b) if True else None
            ty = ty_of(_strip(x))
            ok = ty is not None and ty.get("k") == "array" and isinstance(ty["len"], int) and ty["len"] >= 4
            return ok, "buffer type %s" % (ty,), "encode_utf8"
        return False, "no discharge rule for %s" % c, short

    def unwrap_idiom(self, f, fa, iv, b, x):
        """`if v.is_none() { return } ... v.unwrap()`: a dominating is_none(&v) == false / is_some(&v) == true."""
        for g in fa.guards(b):
            gt, gk, gv = g[0], g[1], g[2]
            if gt.op == "call" and gt.args[0] in ("core::option::Option::<T>::is_none", "core::option::Option::<T>::is_some"):
                recv = gt.args[1][0]
                same = _strip_val(recv, fa, gt) is _strip_val_term(x)
                truth = (gk == "eq" and gv == 1) or (gk == "ne" and 0 in gv)
                if same and ((gt.args[0].endswith("is_none") and not truth) or (gt.args[0].endswith("is_some") and truth)):
                    return True, "dominated by %s == %s" % (show(gt, fa.names), truth)
        z = self.zip_unwrap(f, fa, iv, b, x)
        if z is not None:
            return z
        return False, "no dominating is_none/is_some check on the same value"

    def zip_unwrap(self, f, fa, iv, b, x):
        """P-zip: `v.set_len(xs.len()); let mut it = v.iter_mut(); for s in xs { it.next().unwrap() }`
        - the inner iterator has exactly as many items as the loop has iterations."""
        if not (x.op == "call" and x.args[0] in libmodel.FINITE_NEXT and len(x.args) >= 4):
            return None
        src = libmodel.iterator_source(x, fa)
        if src is None:
            return None
        v, site = src
        if not (v.op == "call" and v.args[0] in ("util::data_vec::DataVec::<T, N>::iter_mut", "util::data_vec::DataVec::<T, N>::iter")):
            return None
        recv = v.args[1][0]
        if not (recv.op == "ref" and recv.args[0].op == "loc"):
            return None
        V = recv.args[0].args[1]
        itb = v.args[3]
        # calls that take &/&mut V
        setlens = []
        for cb, t in f.calls():
            a = fa.call_args(cb)
            if a and a[0].op == "ref" and a[0].args[0].op == "loc" and a[0].args[0].args[1] == V:
                c = callee_of(t)
                if c == "util::data_vec::DataVec::<T, N>::set_len":
                    setlens.append((cb, a))
                elif c not in ("util::data_vec::DataVec::<T, N>::iter_mut", "util::data_vec::DataVec::<T, N>::iter"):
                    return False, "P-zip: the vector is also passed to %s" % c
        if len(setlens) != 1 or not f.dominates(setlens[0][0], itb):
            return False, "P-zip: no unique set_len dominating the iterator creation"
        n = setlens[0][1][1]
        if not (n.op == "call" and n.args[0] in libmodel.LEN_FNS):
            return False, "P-zip: set_len argument is not a len() of another vector"
        X = _strip_val_term(n.args[1][0])
        # the unwrap sits in exactly one loop, driven by an iterator over X, and next(&mut it) is called only here
        nb = x.args[3]
        loops = enclosing_loops(f, nb)
        if len(loops) != 1:
            return False, "P-zip: next() is not inside exactly one loop"
        h, body = loops[0]
        others = [cb for cb, t in f.calls() if callee_of(t) == x.args[0] and cb != nb and fa.call_args(cb)[0] is x.args[1][0]]
        if others:
            return False, "P-zip: the inner iterator is advanced at several sites"
        driver = None
        for y in sorted(body):
            t = f.term(y)
            if t["k"] == "call" and callee_of(t) in libmodel.FINITE_NEXT and y != nb:
                backs = [s_ for (s_, hh) in f.back_edges() if hh == h]
                if all(f.dominates(y, s_) for s_ in backs) and f.dominates(y, nb):
                    driver = fa.call_term(y)
        if driver is None:
            return False, "P-zip: no driving iterator found for the loop"
        dsrc = libmodel.iterator_source(driver, fa)
        if dsrc is None:
            return False, "P-zip: driving iterator is not loop-local"
        dv = dsrc[0]
        while dv.op == "call" and dv.args[0] in (libmodel.INTO_ITER, "<&tinyvec::ArrayVec<A> as core::iter::IntoIterator>::into_iter",
                                                 "core::slice::<impl [T]>::iter", "tinyvec::ArrayVec::<A>::iter"):
            dv = dv.args[1][0]
        if _strip_val_term(dv) is not X:
            return False, "P-zip: the loop iterates %s but set_len used len(%s)" % (show(dv, fa.names), show(X, fa.names))
        return True, "P-zip: set_len(len(%s)) then one next() per iteration over %s" % (show(X, fa.names), show(X, fa.names))

    def dead_panic(self, f, fa, iv, b):
        """A panic!/unreachable! block is dead if every incoming edge is infeasible."""
        preds = f.pred(b)
        if preds:
            why = []
            for p in preds:
                ok, d = self.edge_dead(f, fa, iv, p, b)
                if not ok:
                    return self.dead_panic_dom(f, fa, iv, b)
                why.append(d)
            return True, "; ".join(sorted(set(why)))
        return self.dead_panic_dom(f, fa, iv, b)

    def edge_dead(self, f, fa, iv, p, s):
        for g in fa.edge_guard(p, s):
            t, k, v = g[0], g[1], g[2]
            base = iv.interval(t, p)
            poss = None
            if t.op == "discr":
                x = t.args[0]
                src = _err_source(x)
                if src is not None:
                    es = error_set(self.prog, src.args[0])
                    if es is not None:
                        poss = set(es)
                if poss is None and base is not None and base[1] - base[0] < 64:
                    poss = set(range(base[0], base[1] + 1))
            elif base is not None and 0 <= base[1] - base[0] < 4096:
                poss = set(range(base[0], base[1] + 1))
            if poss is None and t.op == "discr":
                # W-num: `match message { typed arms.., _ => unreachable!() }` after `number()` returned Some:
                # number() is Some exactly for the variants listed in its own table
                x = t.args[0]
                while x.op in ("memval", "mem"):
                    x = x.args[0]
                for g2 in fa.guards(p):
                    c2 = g2[0]
                    if c2.op == "discr" and c2.args[0].op == "call" and c2.args[0].args[0] == "msg::message::Message::number" \
                            and g2[1] == "eq" and g2[2] == 1:
                        recv = c2.args[0].args[1][0]
                        y = recv
                        while y.op in ("ref", "memval", "mem"):
                            y = y.args[0]
                        if y is x:
                            import dispatch
                            from engine import Result
                            tmp = Result("tmp")
                            num = dispatch.number_table(self.prog, tmp)
                            if num is not None and not tmp.violations():
                                poss = {d for d in num if d is not None}
            if poss is None:
                continue
            if k == "eq" and v not in poss:
                return True, "value %s impossible for %s" % (v, show(t, fa.names))
            if k == "ne" and poss <= set(v):
                return True, "all possible values %s of %s are handled by other arms" % (sorted(poss), show(t, fa.names))
        return False, ""

    def dead_panic_dom(self, f, fa, iv, b):
        """A panic!/unreachable! block is dead if some dominating fact is contradictory."""
        # 1. interval contradiction: any guard term whose refined interval is empty
        for g in fa.guards(b):
            t = g[0]
            i = iv.interval(t, b)
            if i is not None and i[0] > i[1]:
                return True, "dominating facts are contradictory for %s" % show(t, fa.names)
        # 2. closed error set: switch on the error variant of a call whose error set is known
        for g in fa.guards(b):
            t, k, v = g[0], g[1], g[2]
            if t.op == "discr":
                x = t.args[0]
                src = _err_source(x)
                if src is not None:
                    callee = src.args[0]
                    es = error_set(self.prog, callee)
                    if es is not None and k == "ne":
                        if es <= set(v):
                            return True, "error set of %s is %s, all handled by earlier arms" % (callee, sorted(es))
        return False, "could not prove the panic unreachable"

    # ---- T-loop
    def loops(self, f, fa):
        loops = f.loops()
        for h, body in sorted(loops.items()):
            nexts = []
            for x in sorted(body):
                t = f.term(x)
                if t["k"] == "call" and callee_of(t) in libmodel.FINITE_NEXT:
                    nexts.append(x)
            ok = False
            detail = "no finite-iterator next() drives this loop"
            for nb in nexts:
                t = f.term(nb)
                # every back edge source is dominated by the next() call and the None arm leaves the loop
                backs = [s for (s, hh) in f.back_edges() if hh == h]
                if not all(f.dominates(nb, s) for s in backs):
                    continue
                tgt = t["target"]
                st = f.term(tgt)
                exits = False
                if st["k"] == "switch":
                    for s in f.succ(tgt):
                        if s not in body:
                            exits = True
                ct = fa.call_term(nb)
                src = libmodel.iterator_source(ct, fa)
                if exits and src is not None:
                    ok = True
                    detail = "driven by %s on a loop-local iterator; None arm exits" % callee_of(t).split(" as ")[0]
                    break
                detail = "next() found but %s" % ("iterator is not a fresh local" if exits else "its None arm does not leave the loop")
            if not ok:
                # bounded monotone cursor:  a header phi t with the proved invariant t <= len(slice argument) that grows by
                # at least 1 on every back edge  =>  at most len+1 iterations
                from algebra import lin
                iv = Intervals(fa, self.prog)
                for t in fa.header_phis(h) if hasattr(fa, "header_phis") else []:
                    iv.phi_invariant(t)
                    if not any(dict(c[1]).get(t) == 1 for c in iv.inv_facts):
                        continue
                    grows = True
                    n = 0
                    for pb, v in fa.phi_operands(t):
                        if pb not in body:
                            continue
                        n += 1
                        lv, cv = lin(v)
                        d = {t: 1}
                        for p_, q_ in lv:
                            d[p_] = d.get(p_, 0) - q_
                        if not iv.prove_le(list(d.items()), 1 - cv, pb):
                            grows = False
                    if grows and n:
                        ok = True
                        detail = "cursor %s is bounded by the length of the slice argument (proved invariant) and grows by >= 1 on every back edge" % show(t, fa.names)
                        break
            if not ok:
                # length-driven: the loop stays exactly while list.len() < X (X fixed during the loop) and every way back to the head pushes
                # onto that list once - len grows by one per iteration, so at most X iterations
                okl, dl = _length_driven(f, fa, h, body)
                if okl:
                    ok, detail = True, dl
            self.discharge("T-loop", f, "loop@%s" % _loop_desc(f, fa, h), ok, detail, f.term(h).get("line", f.loc["line"]), "rule")


def _loop_desc(f, fa, h):
    # stable descriptor: ordinal of the loop header among headers in block order
    hs = sorted(f.loops().keys())
    return "#%d" % hs.index(h)


def _ivs(i):
    if i is None:
        return "?"
    return "[%d, %d]" % i if abs(i[0]) < 1 << 70 and abs(i[1]) < 1 << 70 else "[.., ..]"


def _strip(t):
    while isinstance(t, T) and t.op in ("ref",):
        t = t.args[0]
    return t


def _strip_val_term(x):
    while x.op in ("ref", "memval", "mem"):
        x = x.args[0]
    return x


def _strip_val(recv, fa, gt):
    x = recv
    while x.op in ("ref", "memval", "mem"):
        x = x.args[0]
    return x


def _err_source(x):
    """x = Err payload of a call result (possibly through Try::branch): return the call term."""
    # field(downcast(call,1),0)
    if x.op == "field" and x.args[1] == 0 and x.args[0].op == "downcast" and x.args[0].args[1] == 1:
        c = x.args[0].args[0]
        if c.op == "call":
            return c
    return None


_ERRSETS = {}


def error_set(prog, callee):
    """Set of RtcmError variant indices a crate function can return in Err (from aggregates flowing to _0), or None."""
    if callee in _ERRSETS:
        return _ERRSETS[callee]
    f = prog.fn(callee)
    if f is None:
        return None
    fa = FA(f, prog)
    out = set()
    okall = True
    for b in sorted(f.reachable()):
        for i, s in enumerate(f.blocks[b]["stmts"]):
            if s["k"] == "assign" and s["place"]["local"] == 0 and not s["place"]["proj"]:
                v = fa.rv_term(s["rv"], (b, i))
                if v.op == "agg" and v.args[2] == "Err":
                    e = v.args[3][0]
                    if e.op == "agg" and e.args[0] == "rtcm_error::RtcmError":
                        out.add(e.args[1])
                    elif e.op == "field" and e.args[1] == 0 and e.args[0].op == "downcast" and e.args[0].args[1] == 1:
                        # Err(payload of another result): a folded `?` on an inlined helper's result (phi of in-place Ok / Err)
                        es = _errs_of_result_term(prog, fa, e.args[0].args[0], 0)
                        if es is None:
                            okall = False
                        else:
                            out |= es
                    else:
                        okall = False
                elif v.op == "agg" and v.args[2] == "Ok":
                    pass
                else:
                    okall = False
        t = f.term(b)
        if t["k"] == "call" and t["dest"]["local"] == 0:
            # `r?` with the same error type: the errors of r (a crate call, or - after inlining a helper - aggregates merged in a phi)
            es = None
            if (t.get("resolved") or t["callee"]).endswith("FromResidual<core::result::Result<core::convert::Infallible, E>>>::from_residual"):
                a = fa.call_args(b)
                x = a[0] if a else None
                if x is not None and x.op == "field" and x.args[0].op == "downcast" and x.args[0].args[1] == 1 and x.args[0].args[0].op == "call" \
                        and "Try>::branch" in str(x.args[0].args[0].args[0]):
                    es = _errs_of_result_term(prog, fa, x.args[0].args[0].args[1][0], 0)
            if es is None:
                okall = False
            else:
                out |= es
    _ERRSETS[callee] = out if okall else None
    return _ERRSETS[callee]


def _errs_of_result_term(prog, fa, r, depth):
    """RtcmError variants a Result-valued term can carry in Err, or None"""
    if depth > 4:
        return None
    if r.op == "agg" and r.args[2] == "Ok":
        return set()
    if r.op == "agg" and r.args[2] == "Err":
        e = r.args[3][0]
        return {e.args[1]} if e.op == "agg" and e.args[0] == "rtcm_error::RtcmError" else None
    if r.op == "call" and isinstance(r.args[0], str) and r.args[0] in prog.fns and r.args[0] not in _ERRSETS_BUSY:
        _ERRSETS_BUSY.add(r.args[0])
        try:
            return error_set(prog, r.args[0])
        finally:
            _ERRSETS_BUSY.discard(r.args[0])
    if r.op == "phi":
        out = set()
        for pb, v in fa.phi_operands(r):
            es = _errs_of_result_term(prog, fa, v, depth + 1)
            if es is None:
                return None
            out |= es
        return out
    return None


_ERRSETS_BUSY = set()


# ------------------------------------------------------------------ capacity rules
def enclosing_loops(f, b):
    return [(h, body) for h, body in f.loops().items() if b in body]


from looptools import trip_bound


def value_before_borrow(fa, b, obj):
    """Value term of the vector object just before the `&mut` borrow that feeds the call ending block b."""
    f = fa.fn
    blk = f.blocks[b]
    if obj.op == "loc":
        L = obj.args[1]
        idx = len(blk["stmts"])
        found = False
        for (i, l, kind) in fa._defs_in_block.get(b, ()):
            if l == L and kind == "borrow":
                idx = min(idx, i)
                found = True
        if not found:
            # the receiver was borrowed in an earlier block (`v.push(par.parse()?)`: the borrow precedes the argument's evaluation): the
            # nearest dominating borrow, provided every other definition of the local dominates that borrow too (nothing in between)
            ds = [d_ for d_ in fa.defs(L)]
            bs = [d_ for d_ in ds if d_[2] == "borrow" and d_[0] != b and f.dominates(d_[0], b)]
            if bs:
                near = [c_ for c_ in bs if all(f.dominates(o_[0], c_[0]) for o_ in bs)]
                if len(near) >= 1:
                    c_ = sorted(near, key=lambda d_: d_[1])[0]
                    loops_c = {h_ for h_, body_ in f.loops().items() if c_[0] in body_}
                    loops_b = {h_ for h_, body_ in f.loops().items() if b in body_}
                    if loops_c == loops_b:
                        return fa.val(L, (c_[0], c_[1]))
        return fa.val(L, (b, idx))
    # through a pointer (self.0): the memory value at the call
    return fa.read_obj(obj, (b, len(blk["stmts"])))


def vec_object(recv, fa):
    """Receiver term of push -> the local vector object (loc term) or None."""
    x = recv
    while x.op == "ref":
        x = x.args[0]
    return x


NEW_FNS = ("tinyvec::ArrayVec::<A>::new", "util::data_vec::DataVec::<T, N>::new", "util::Df88591String::<N>::new", "util::array_string::ArrayString::<N>::new")


def _length_driven(f, fa, h, body):
    import looprules
    from algebra import fact_of_guard
    from terms import subterms
    PUSHES = ("tinyvec::ArrayVec::<A>::push", "util::data_vec::DataVec::<T, N>::push", "util::Df88591String::<N>::push")
    for x in sorted(body):
        t = f.term(x)
        if t["k"] != "switch":
            continue
        stay = [s_ for s_ in f.succ(x) if s_ in body]
        leave = [s_ for s_ in f.succ(x) if s_ not in body]
        if len(stay) != 1 or not leave:
            continue
        for g in fa.edge_guard(x, stay[0]):
            fc = fact_of_guard(g)
            if fc[0] != "Lt" or not (fc[1].op == "call" and fc[1].args[0] in libmodel.LEN_FNS):
                continue
            v = fc[1].args[1][0]
            while v.op in ("ref", "mem", "memval"):
                v = v.args[0]
            if not (v.op == "phi" and v.args[2] == h):
                continue
            L = v.args[1]
            if any(y.op == "phi" and y.args[2] == h for y in subterms(fc[2])):
                continue          # the bound itself changes in the loop
            pushes = [pb for pb in body if f.term(pb)["k"] == "call" and callee_of(f.term(pb)) in PUSHES
                      and vec_object(fa.call_args(pb)[0], fa).op == "loc" and vec_object(fa.call_args(pb)[0], fa).args[1] == L]
            if len(pushes) != 1 or not f.dominates(x, pushes[0]):
                continue
            okc, dc = looprules.action_complete(f, fa, pushes[0])
            okm, dm = looprules.only_mutated_by(f, L, {pushes[0]})
            if okc and okm:
                return True, "stays while %s.len() < %s; every iteration pushes once onto that list" % (fa.names.get(L, "_%d" % L), show(fc[2], fa.names)[:60])
    return False, ""


def _threaded_accumulator(f, fa, iv, b, L, init, cap):
    """The vector is the accumulator of a fold: each iteration receives it by value (loop-header phi), pushes once and hands it on
    (`acc = body(acc, x)?`, the expansion of try_fold).  The phi starts at `new()` and every other operand is the vector this iteration pushed
    to; then the number of pushes is at most the loop's trip bound.  -> (ok, detail) or None if the shape is different."""
    x = init
    if x.op != "phi":
        return None
    h = x.args[2]
    loops = f.loops()
    if h not in loops or b not in loops[h]:
        return None
    body = loops[h]
    inits = [v for pb, v in fa.phi_operands(x) if pb not in body]
    backs = [v for pb, v in fa.phi_operands(x) if pb in body]
    if not inits or not all(v.op == "call" and v.args[0] in NEW_FNS for v in inits):
        return None

    def from_pushed(v, depth=0, variant=None):
        # Ok(vec) / Some(vec) payloads, tuple fields, moves: the vector local after this iteration's push (its value is havocked by the &mut).
        # A projection `(r as Ok).0` selects the Ok-built operands of r; the others cannot be the value on a path that read that variant.
        while depth < 10:
            depth += 1
            if v.op == "field" and v.args:
                v = v.args[0]
                continue
            if v.op == "downcast" and v.args:
                variant = v.args[1]
                v = v.args[0]
                continue
            if v.op == "agg" and len(v.args) >= 4:
                if variant is not None and v.args[1] != variant:
                    return True          # an operand of another variant: not selected by the projection
                if len(v.args[3]) != 1:
                    return False
                v = v.args[3][0]
                variant = None
                continue
            if v.op == "phi":
                return all(from_pushed(w, depth, variant) for pb_, w in fa.phi_operands(v))
            if v.op == "call" and isinstance(v.args[0], str) and v.args[0].endswith("::from_residual") and variant == 0:
                return True              # `?`'s early return builds an Err: never the Ok the projection reads
            break
        return v.op == "havoc" and v.args[1] == L
    if not backs or not all(from_pushed(v) for v in backs):
        return None
    pushes = [xb for xb, t in f.calls() if callee_of(t) in ("tinyvec::ArrayVec::<A>::push", "util::data_vec::DataVec::<T, N>::push", "util::Df88591String::<N>::push",
                                                             "util::Df88591String::<N>::push_char", "tinyvec::ArrayVec::<A>::extend_from_slice")
              and vec_object(fa.call_args(xb)[0], fa).op == "loc" and vec_object(fa.call_args(xb)[0], fa).args[1] == L]
    if pushes != [b]:
        return None
    tb = trip_bound(f, fa, iv, h, body)
    if tb is None:
        return False, "fold accumulator: no trip bound for the loop"
    if cap >= 0 and tb <= cap:
        return True, "fold accumulator created empty; one push per iteration, at most %d iterations <= capacity %d" % (tb, cap)
    return False, "fold accumulator: up to %d pushes exceed capacity %d" % (tb, cap)


def push_safe(f, fa, iv, b, recv):
    """P-push: (i) dominating len < CAP guard on the same vector inside the same iteration, or
    (ii) vector created empty before the loops, one push per iteration, product of trip bounds <= CAP."""
    names = fa.names
    cap = libmodel.capacity_of_type(libmodel.obj_type(recv))
    symbolic = cap is None
    if symbolic:
        cap = -1
    obj = vec_object(recv, fa)
    cur = value_before_borrow(fa, b, obj)
    # (i) guard on len of the vector's current value (a push in between would change the value term)
    def same_value(t):
        if t is cur:
            return True
        # `helper(&mut v, x)` inlined: `r = &mut v; if r.len() >= CAP { return Err } r.push(x)` - the length is read through the very borrow
        # the push uses (the value term is the havoc that borrow creates), and nothing but observers receives the vector in between
        if t.op == "havoc" and obj.op == "loc" and t.args[1] == obj.args[1]:
            hb = t.args[2]
            if not f.dominates(hb, b):
                return False
            for x in f.reachable():
                if x == b or not (f.dominates(hb, x) and f.dominates(x, b)):
                    continue
                tx = f.term(x)
                if tx["k"] != "call":
                    continue
                cx = callee_of(tx)
                if cx in libmodel.LEN_FNS or cx in libmodel.CAP_FNS:
                    continue
                for a_ in fa.call_args(x):
                    for y_ in subterms(a_):
                        if (y_.op == "loc" and y_.args[1] == obj.args[1]) or y_ is t:
                            return False
            return True
        return False
    for c, fc in iv.facts(b):
        if c[0] == "le":
            d = dict(c[1])
            for a, q in d.items():
                if a.op == "call" and a.args[0] in libmodel.LEN_FNS and same_value(a.args[1][0]) and q == 1:
                    if len(d) == 1:
                        # len + k <= 0  => len <= -k
                        if -c[2] <= cap - 1:
                            return True, "dominated by len() <= %d with capacity %d" % (-c[2], cap)
                    elif not symbolic and all(x.op != "call" or x.args[0] not in libmodel.CAP_FNS for x in d):
                        # len + sum(q_x * x) + k <= 0  =>  len <= -k + sum(-q_x * x): bounded through the intervals of the other terms
                        # (`while v.len() < n` under an earlier `n <= CAP` refusal)
                        ub = -c[2]
                        okb = True
                        for x, qx in d.items():
                            if x is a:
                                continue
                            ix = iv.interval(x, b)
                            if ix is None:
                                okb = False
                                break
                            ub += max(-qx * ix[0], -qx * ix[1])
                        if okb and ub <= cap - 1:
                            return True, "dominated by a test that bounds len() by %d with capacity %d" % (ub, cap)
                    if len(d) != 1 and True:
                        # len + n - capacity() + k <= 0 with n >= 1: symbolic capacity (generic N)
                        caps = [x for x in d if x.op == "call" and x.args[0] in libmodel.CAP_FNS and x.args[1][0] is cur and d[x] == -1]
                        others = [x for x in d if x is not a and x not in caps]
                        if caps and c[2] + sum(d[x] * (iv.interval(x, b) or (0, 0))[0] for x in others if d[x] > 0) >= 1 \
                                and all(d[x] > 0 for x in others):
                            return True, "dominated by len() + n <= capacity() with n >= 1"
                        if caps and not others and c[2] >= 1:
                            return True, "dominated by len() + %d <= capacity()" % c[2]
    if symbolic:
        return False, "capacity is a generic parameter and no len() + n <= capacity() guard dominates the push"
    # (ii) trip-count product
    if obj.op != "loc":
        return False, "vector is not a local (capacity %d), no len guard found" % cap
    L = obj.args[1]
    real = [d for d in fa.defs(L) if d[2] != "borrow"]
    if len(real) != 1:
        return False, "vector has several initialisations"
    init = fa.defterm(L, *real[0])
    acc = _threaded_accumulator(f, fa, iv, b, L, init, cap)
    if acc is not None:
        return acc
    if not (init.op == "call" and init.args[0] in ("tinyvec::ArrayVec::<A>::new", "util::data_vec::DataVec::<T, N>::new",
                                                    "util::Df88591String::<N>::new", "util::array_string::ArrayString::<N>::new")):
        return False, "vector is not created empty in this function: %s" % show(init, names)
    loops = enclosing_loops(f, b)
    if any(real[0][0] in body for h, body in loops):
        return False, "vector is created inside the loop"
    # all pushes on this vector
    pushes = []
    for x, t in f.calls():
        c = callee_of(t)
        if c in ("tinyvec::ArrayVec::<A>::push", "util::data_vec::DataVec::<T, N>::push", "util::Df88591String::<N>::push",
                 "util::Df88591String::<N>::push_char", "tinyvec::ArrayVec::<A>::extend_from_slice"):
            a = fa.call_args(x)
            if vec_object(a[0], fa) is obj:
                pushes.append(x)
    total = 0
    parts = []
    for x in pushes:
        n = 1
        for h, body in enclosing_loops(f, x):
            tb = trip_bound(f, fa, iv, h, body)
            if tb is None:
                return False, "no trip bound for an enclosing loop of a push"
            n *= tb
        parts.append(n)
        total += n
    # pushes in mutually exclusive arms of the same iteration count once: group by innermost loop header and
    # take the maximum within pairwise-unreachable groups
    total = _exclusive_total(f, pushes, parts)
    if total <= cap:
        return True, "created empty; at most %d pushes (trip bounds) <= capacity %d" % (total, cap)
    return False, "up to %d pushes (product of trip bounds) exceed capacity %d and no len() guard dominates the push" % (total, cap)


def _exclusive_total(f, pushes, parts):
    # two pushes that cannot reach each other without passing a loop back edge are alternatives of one iteration
    groups = []
    for x, n in zip(pushes, parts):
        placed = False
        for g in groups:
            if all(not _reach_no_back(f, x, y) and not _reach_no_back(f, y, x) for y, _ in g):
                g.append((x, n))
                placed = True
                break
        if not placed:
            groups.append([(x, n)])
    return sum(max(n for _, n in g) for g in groups)


def _reach_no_back(f, a, b):
    backs = set(f.back_edges())
    seen = set()
    st = [s for s in f.succ(a) if (a, s) not in backs]
    while st:
        x = st.pop()
        if x == b:
            return True
        if x in seen:
            continue
        seen.add(x)
        st.extend(s for s in f.succ(x) if (x, s) not in backs)
    return False


def _push_between(f, fa, gb, b, obj):
    """Is there a push on obj on some path from the guard block gb to block b (exclusive)?"""
    if gb is None or gb == b:
        return False
    # blocks on paths gb -> b
    fwd = f.reach_from(gb)
    for x in fwd:
        if x in (gb, b):
            continue
        if not f.can_reach(x, b):
            continue
        # x must be reachable from gb without passing through b first: approximate by dominance region
        t = f.term(x)
        if t["k"] == "call" and callee_of(t) and callee_of(t).endswith("::push"):
            a = fa.call_args(x)
            if vec_object(a[0], fa) is obj and f.dominates(gb, x):
                # only counts if x lies between (x can reach b without going through gb again)
                if b in f.reach_from(x, removed_blocks=[gb]):
                    return True
    return False


def extend_safe(f, fa, iv, b, args, cap):
    names = fa.names
    obj = vec_object(args[0], fa)
    cur = value_before_borrow(fa, b, obj)
    # guard idiom: len + n > capacity => return Err  (so here len + n <= capacity), and the slice is the
    # n-byte UTF-8 encoding of the same char whose len_utf8() is n
    for c, fc in iv.facts(b):
        if c[0] == "le":
            d = dict(c[1])
            lens = [a for a in d if a.op == "call" and a.args[0] in libmodel.LEN_FNS and a.args[1][0] is cur]
            caps = [a for a in d if a.op == "call" and a.args[0] in libmodel.CAP_FNS and a.args[1][0] is cur]
            if lens and d[lens[0]] == 1 and c[2] >= 0 and caps and d[caps[0]] == -1:
                others = [a for a in d if a not in lens and a not in caps]
                if len(others) == 1 and d[others[0]] == 1:
                    n = others[0]
                    if n.op == "len":
                        # the measured quantity is the appended slice itself: len + slice.len() <= capacity
                        y_ = n.args[0]
                        while y_.op in ("ref", "mem", "memval"):
                            y_ = y_.args[0]
                        x_ = args[1]
                        while x_.op in ("ref", "mem", "memval"):
                            x_ = x_.args[0]
                        if y_ is x_:
                            return True, "dominated by len + slice.len() <= capacity for the very slice that is appended"
                    if n.op == "call" and n.args[0] == "core::char::methods::<impl char>::len_utf8":
                        ch = n.args[1][0]
                        sl = args[1]
                        x = sl
                        while x.op in ("ref", "mem", "memval"):
                            x = x.args[0]
                        # as_bytes(encode_utf8(ch, buf))
                        if x.op == "call" and x.args[0] == "core::str::<impl str>::as_bytes":
                            y = x.args[1][0]
                            while y.op in ("ref", "mem", "memval"):
                                y = y.args[0]
                            if y.op == "call" and y.args[0] == "core::char::methods::<impl char>::encode_utf8" and y.args[1][0] is ch:
                                return True, "dominated by len + len_utf8(ch) <= capacity; slice = encode_utf8(ch) (len_utf8 bytes)"
                        return False, "guard found but the slice is not encode_utf8 of the measured char: %s" % show(sl, names)
    # second guard shape:  slice.len() <= capacity() - len()   (the free space computed first; the subtraction cannot wrap: len <= capacity)
    sl = args[1]
    x = sl
    while x.op in ("ref", "mem", "memval"):
        x = x.args[0]
    for c, fc in iv.facts(b):
        if c[0] == "le" and c[2] <= 0:
            d = dict(c[1])
            subs = [a for a in d if a.op == "bin" and a.args[0] == "Sub" and d[a] == -1
                    and a.args[1].op == "call" and a.args[1].args[0] in libmodel.CAP_FNS and a.args[1].args[1][0] is cur
                    and a.args[2].op == "call" and a.args[2].args[0] in libmodel.LEN_FNS and a.args[2].args[1][0] is cur]
            lns = [a for a in d if a.op == "len" and d[a] == 1]
            if len(d) == 2 and subs and lns:
                y = lns[0].args[0]
                while y.op in ("ref", "mem", "memval"):
                    y = y.args[0]
                if y is x:
                    if x.op == "call" and x.args[0] == "core::str::<impl str>::as_bytes":
                        z = x.args[1][0]
                        while z.op in ("ref", "mem", "memval"):
                            z = z.args[0]
                        if z.op == "call" and z.args[0] == "core::char::methods::<impl char>::encode_utf8":
                            return True, "dominated by encode_utf8(ch).len() <= capacity - len; slice = encode_utf8(ch)"
                    return True, "dominated by slice.len() <= capacity - len (same slice)"
    return False, "no dominating len + n <= capacity guard"


def index_safe(f, fa, iv, b, args, names):
    base = args[0]
    idx = args[1]
    d2 = "%s[%s]" % (show(_strip(base), names), show(idx, names))
    # length of the indexed object
    obj = _strip(base)
    lenterm = None
    cap = libmodel.capacity_of_type(libmodel.obj_type(base))
    ty = libmodel.obj_type(base)
    if ty is not None and ty.get("k") == "array":
        lenterm = mk("const", "usize", ty["len"])
        from terms import set_ty, U
        set_ty(lenterm, U)
    else:
        lenterm = mk("len", obj)
        from terms import set_ty, U
        set_ty(lenterm, U)
    if idx.op == "agg" and idx.args[0].startswith("core::ops::Range"):
        name = idx.args[0].rsplit("::", 1)[1]
        ops = idx.args[3]
        lo = hi = None
        if name == "Range":
            lo, hi = ops
        elif name == "RangeTo":
            hi = ops[0]
        elif name == "RangeFrom":
            lo = ops[0]
        elif name == "RangeFull":
            return True, "full range", d2
        elif name in ("RangeToInclusive", "RangeInclusive") and len(ops) in (1, 2):
            # ..=e / s..=e : panics unless e < len (and s <= e + 1); `s <= e` is the sufficient form proved here
            e_ = ops[-1]
            ok = iv.prove_lt_terms(e_, lenterm, b)
            why = [] if ok else ["inclusive end %s < len not proved (end in %s, len in %s)" % (show(e_, names), _ivs(iv.interval(e_, b)), _ivs(iv.interval(lenterm, b)))]
            if len(ops) == 2 and not iv.prove_le_terms(ops[0], e_, b):
                ok = False
                why.append("start %s <= inclusive end not proved" % show(ops[0], names))
            return ok, "; ".join(why) if why else "start <= end < len proved", d2
        else:
            return False, "range kind %s not modelled" % name, d2
        ok = True
        why = []
        if hi is not None:
            if not iv.prove_le_terms(hi, lenterm, b):
                ok = False
                why.append("end %s <= len not proved (end in %s, len in %s)" % (show(hi, names), _ivs(iv.interval(hi, b)), _ivs(iv.interval(lenterm, b))))
        if lo is not None:
            upper = hi if hi is not None else lenterm
            if not iv.prove_le_terms(lo, upper, b):
                ok = False
                why.append("start %s <= %s not proved" % (show(lo, names), show(upper, names)))
        return ok, "; ".join(why) if why else "start <= end <= len proved", d2
    # scalar index on ArrayVec: idx < len
    ity = ty_of(idx)
    if ity is not None and ity.get("k") == "uint":
        if ty is not None and ty.get("k") == "adt" and ty["path"] == "tinyvec::ArrayVec":
            cur = fa.read_obj(obj, (b, len(f.blocks[b]["stmts"]))) if obj.op in ("loc", "pf", "pi", "pd", "mem") else obj
            L = mk("call", "tinyvec::ArrayVec::<A>::len", (cur,))
            from terms import set_ty, U
            set_ty(L, U)
            if iv.prove_lt_terms(idx, L, b):
                return True, "index < len() proved", d2
            # P-divmod: i / m with i drawn from 0..(n*m), m >= 1  =>  i / m < n
            if idx.op == "bin" and idx.args[0] == "Div":
                i_t, m_t = idx.args[1], idx.args[2]
                mi = iv.interval(m_t, b)
                if mi is not None and mi[0] >= 1 and i_t.op == "field" and i_t.args[0].op == "downcast" and i_t.args[0].args[0].op == "call" \
                        and i_t.args[0].args[0].args[0] == libmodel.RANGE_NEXT:
                    src = libmodel.iterator_source(i_t.args[0].args[0], fa)
                    if src is not None:
                        x = src[0]
                        if x.op == "call" and x.args[0] == libmodel.INTO_ITER:
                            x = x.args[1][0]
                        if x.op == "agg" and x.args[0] == "core::ops::Range":
                            lo_t, hi_t = x.args[3]
                            if hi_t.op == "bin" and hi_t.args[0] == "Mul" and {hi_t.args[1], hi_t.args[2]} == {L, m_t} and L is not m_t \
                                    or (hi_t.op == "bin" and hi_t.args[0] == "Mul" and hi_t.args[1] is L and hi_t.args[2] is m_t):
                                return True, "P-divmod: i in 0..len*m, m >= 1, so i / m < len", d2
            return False, "index %s in %s not proved below %s" % (show(idx, names), _ivs(iv.interval(idx, b)), show(L, names)), d2
        if iv.prove_lt_terms(idx, lenterm, b):
            return True, "index < len proved", d2
    return False, "index form not modelled", d2


def check_residue_support(inv, res):
    """Every residue entry used in this run must have its relied-on rule instances present and discharged."""
    have = {}
    for (rule, key, ok, detail, loc) in res.obs:
        have.setdefault("%s | %s" % (rule, key), []).append(ok)
    used = set(inv.used_residue)
    entries = {}
    for k, r in inv.residue.items():
        if k == "__patterns__":
            for pat, rr in r:
                entries[rr["key"]] = rr
        else:
            entries[k] = r
    todo = [entries[k] for k in sorted(used) if k in entries]
    # width residue (bitio.rule_r_width) used in this run
    wused = res.extra.get("width_residue_used", set())
    if wused:
        p = os.path.join(engine.VERIF, "oracles", "residue.json")
        for r in json.load(open(p)).get("entries", []):
            if r.get("id") in wused:
                todo.append(r)
    res.extra["residue_entries_used"] = sorted({r.get("id", "?") for r in todo})
    for r in todo:
        k = r.get("key")
        for need in r.get("relies_on", []):
            rx = re.compile(need)
            hits = [v for kk, v in have.items() if rx.search(kk)]
            ok = bool(hits) and all(all(v) for v in hits)
            res.ob("P-residue", "residue %s relies on %s" % (r.get("id", k[:60]), need), ok,
                   "a reviewed residue entry is only valid while the facts it relies on are established in the same run", None)


def load_residue(name):
    p = os.path.join(engine.VERIF, "oracles", "residue.json")
    out = {"__patterns__": []}
    if not os.path.exists(p):
        return out
    data = json.load(open(p))
    for r in data.get("entries", []):
        if name not in r.get("sides", ["DEC", "ENC"]):
            continue
        if r.get("regex"):
            out["__patterns__"].append((re.compile(r["key"]), r))
        else:
            out[r["key"]] = r
    return out


def rule_acyclic(prog, res, cl, side):
    """No recursion inside the closure: the call graph is a DAG (termination by T-loop + finite call depth)."""
    graph = {}
    for p in cl:
        f = prog.fns[p]
        graph[p] = {c for b, t in f.calls() for c in (callee_of(t),) if c in cl}
    color = {}
    cyc = []

    def visit(u):
        st = [(u, iter(sorted(graph[u])))]
        color[u] = 1
        while st:
            x, it = st[-1]
            adv = False
            for y in it:
                if color.get(y) == 1:
                    cyc.append((x, y))
                elif y not in color:
                    color[y] = 1
                    st.append((y, iter(sorted(graph[y]))))
                    adv = True
                    break
            if not adv:
                color[x] = 2
                st.pop()
    for p in sorted(cl):
        if p not in color:
            visit(p)
    res.ob("T-rec", "%s | the call graph of the closure is acyclic" % side, not cyc, "cycles: %s" % cyc[:3],
           sample={"functions": len(cl), "edges": sum(len(v) for v in graph.values())})


CELL_TYPES = ("core::cell::", "core::sync::atomic::", "core::mem::ManuallyDrop", "core::mem::MaybeUninit")


def rule_no_interior_mutability(prog, res):
    """U-cell: no Cell/RefCell/atomic/UnsafeCell in any type of the crate (the term engine treats the pointee of a
    shared reference as immutable)."""
    bad = []

    def walk(ty, where):
        if not isinstance(ty, dict):
            return
        if ty.get("k") == "adt" and any(ty["path"].startswith(c) for c in CELL_TYPES):
            bad.append("%s in %s" % (ty["path"], where))
        for k in ("to", "elem"):
            if k in ty:
                walk(ty[k], where)
        for a in ty.get("args", []) + ty.get("elems", []):
            walk(a, where)
    for p, a in prog.adts.items():
        for v in a["variants"]:
            for fld in v["fields"]:
                walk(fld["ty"], p)
    for p, f in prog.fns.items():
        for ty in f.locals:
            walk(ty, p)
    res.ob("U-cell", "crate | no interior-mutability types (shared-reference pointees are immutable)", not bad, "; ".join(bad[:4]),
           sample={"adts": len(prog.adts), "functions": len(prog.fns)})
