"""Rules on MessageFrame::new, next_msg_frame and MsgFrameIter (C03, C04, C05, C06, C13, N-pres of C14)."""
from terms import FA, show, mk, ty_of, subterms, is_const, const_val, T
from facts import callee_of
from algebra import fact_of_guard as _fact_of_guard_raw, canon_le, lin, lin_str, bits_of, bits_str, expect_bits

NEW = "message_frame::MessageFrame::new"
SCAN = "next_msg_frame"
ITER_NEXT = "<&mut MsgFrameIter as core::iter::Iterator>::next"
INDEX = "core::slice::index::<impl core::ops::Index<I> for [T]>::index"
INDEX_MUT = "core::slice::index::<impl core::ops::IndexMut<I> for [T]>::index_mut"
ERR = "rtcm_error::RtcmError"


import libmodel
from framing_slices import strip_ref, as_slice


def fact_of_guard(g):
    """As algebra.fact_of_guard, with integer `match` arms (x == v / x != v) rendered as comparisons."""
    fc = _fact_of_guard_raw(g)
    if fc and fc[0] == "val":
        t = fc[1]
        ty = ty_of(t)
        tn = (ty or {}).get("name") or "usize"
        if fc[2] == "eq":
            return ("Eq", t, mk("const", tn, fc[3]))
        if fc[2] == "ne" and len(fc[3]) == 1:
            return ("Ne", t, mk("const", tn, list(fc[3])[0]))
    return fc


def neg_canon(c):
    if c is None:
        return None
    if c[0] == "le":
        atoms, k = c[1], c[2]
        return ("le", frozenset((a, -q) for a, q in atoms), -k + 1)
    if c[0] == "eq":
        return ("ne", c[1], c[2])
    if c[0] == "ne":
        return ("eq", c[1], c[2])
    return None


class NewModel:
    """Everything the rules need to know about MessageFrame::new, extracted once."""

    def __init__(self, prog, res):
        self.ok = False
        f = prog.fn(NEW)
        self.f = f
        if f is None:
            res.missing("A-anchor", NEW)
            return
        res.fn(f)
        fa = self.fa = FA(f, prog)
        self.names = fa.names
        arg = fa.start_val(1, 0)
        self.fd = mk("mem", arg)
        self.len_fd = mk("len", self.fd)
        self.returns = []
        for b in sorted(f.reachable()):
            for i, s in enumerate(f.blocks[b]["stmts"]):
                if s["k"] == "assign" and s["place"]["local"] == 0 and not s["place"]["proj"]:
                    v = fa.rv_term(s["rv"], (b, i))
                    facts = []
                    for g in fa.guards(b):
                        facts.append((fact_of_guard(g), g[4], g))
                    self.returns.append({"block": b, "line": s["line"], "term": v, "facts": facts})
        self.loops = f.loops()
        self.oks = [r for r in self.returns if r["term"].op == "agg" and r["term"].args[2] == "Ok"]
        self.errs = [r for r in self.returns if r["term"].op == "agg" and r["term"].args[2] == "Err"]
        self.other = [r for r in self.returns if r not in self.oks and r not in self.errs]
        self.ok = True
        self.L = None
        self.crc_cmp = None

    def loc(self, r=None):
        return {"file": self.f.loc["file"], "line": r["line"] if r else self.f.loc["line"]}

    def fd_byte(self, t):
        """if t reads frame_data[idx] return idx term else None"""
        if t.op == "memval" and t.args[0].op == "pi" and t.args[0].args[0] is self.fd:
            return t.args[0].args[1]
        return None

    def sw_facts(self, r):
        return [(fc, g) for (fc, src, g) in r["facts"] if src == "switch"]


# ------------------------------------------------------------------ A-sem: abstract interpretation of MessageFrame::new (framesem.py)
_SEM = {}
SEM_RULES = {
    "inc": ("A-inc", "new | Err(Incomplete) exactly when fewer than L+6 bytes are available; no other verdict depends on a failed length test"),
    "ext": ("A-ext", "new | Ok and Err(NotValid) are decided only when L+6 bytes are available"),
    "crc": ("A-cmp", "new | the verdict compares all 24 bits of CRC(input[0 .. L+3]) with input bytes L+3..L+5, big endian"),
    "accept": ("A-exact", "new | accepted exactly when preamble, extent and checksum hold (no other condition; the six reserved bits are ignored)"),
    "out": ("A-out", "new | frame_data field = input[..L+6], data field = input[3..L+3]"),
    "crcf": ("A-crcf", "new | crc field = the big-endian value of input bytes L+3..L+5"),
    "num": ("N-pres", "new | message_number = Some(first 12 payload bits) exactly when L >= 2, None otherwise"),
    "err": ("S-closed", "new | error set is within {NotValid, Incomplete}"),
    "panic": ("A-sem", "new | every index, slice and arithmetic operation is covered by a length test on its path (no panic)"),
}
# template rules whose clauses are consequences of a clean A-sem run
SEM_COVERED = {"A-pre", "A-len", "A-ext", "A-dig", "A-cmp", "A-out", "A-crcf", "A-err", "A-inc", "A-exact", "A-res", "A-shape", "S-closed", "N-pres", "D-len", "D-idx"}
# keys other rules' reviewed arguments refer to (oracles/residue.json `relies_on`)
SEM_ALIASES = [("A-ext", "new | Ok requires len(frame_data) >= L + 6"), ("A-out", "new | frame_data field = input[..L+6]"),
               ("N-pres", "new | message_number = Some(first 12 payload bits) exactly when L >= 2")]


def frame_semantics(prog):
    k = id(prog)
    if k not in _SEM:
        import framesem
        adt = prog.adts.get("message_frame::MessageFrame")
        names = [x["name"] for x in adt["variants"][0]["fields"]] if adt else []
        try:
            _SEM[k] = framesem.check(prog, names)
        except RecursionError:
            _SEM[k] = {"partitions": 0, "paths": 0, "problems": [], "undecided": ["recursion limit"], "reads": 0}
    return _SEM[k]


class SemBacked:
    """View of a Result used while a clean A-sem run is in force: a template rule of MessageFrame::new that does not match the
    code's shape is recorded as discharged by A-sem instead of alarming (the clause it stands for was decided semantically)."""

    def __init__(self, res):
        self.res = res
        self.extra = res.extra

    def __init__(self, res, accessors_observed=False):
        self.res = res
        self.extra = res.extra
        # A-sem evaluated every accessor on the frame value new() builds: the accessor template rules (accessor = plain field) are covered too
        self.accessors_observed = accessors_observed

    def ob(self, rule, key, ok, detail="", loc=None, sample=None):
        if rule in SEM_COVERED and (self.accessors_observed or not str(key).startswith("accessor")) and not ok:
            return self.res.ob(rule, key, True, "shape not recognised by the template rule; the clause is decided by A-sem (abstract interpretation). " + str(detail)[:200], loc)
        return self.res.ob(rule, key, ok, detail, loc, sample=sample)

    def floor(self, *a, **k):
        self.res.floor(*a, **k)

    def missing(self, *a, **k):
        self.res.missing(*a, **k)

    def fn(self, f):
        self.res.fn(f)


def sem_obligations(prog, res):
    """Emit the A-sem obligations.  Returns True (clean), False (specification violated) or None (outside the modelled subset)."""
    sem = frame_semantics(prog)
    f = prog.fn(NEW)
    loc = f.loc if f is not None else None
    if sem["undecided"]:
        res.extra["A-sem"] = "not applicable: " + sem["undecided"][0]
        return None
    bycat = {}
    for cat, text in sem["problems"]:
        bycat.setdefault(cat, []).append(text)
    for cat, (rule, desc) in SEM_RULES.items():
        probs = bycat.get(cat, [])
        res.ob(rule, desc + " [A-sem]", not probs, "; ".join(probs)[:600] if probs else
               "abstract interpretation over L in {0}, {1}, [2,1023]: %d paths, %d byte reads, all inside proven bounds" % (sem["paths"], sem["reads"]), loc,
               sample={"engine": "framesem", "partitions": sem["partitions"], "paths": sem["paths"]} if cat == "crc" else None)
    clean = not sem["problems"]
    if clean:
        for rule, key in SEM_ALIASES:
            res.ob(rule, key, True, "decided by A-sem", loc)
    return clean


def engine_filtered_npres(res):
    import engine
    return engine.Filtered(res, {"N-pres"})

def length_spec(m, L):
    """Is L exactly ((fd[1] & 3) << 8) | fd[2] at the bit level?  Returns (ok, rendering)."""
    bs = bits_of(L)
    b1 = mk("memval", mk("pi", m.fd, mk("const", "usize", 1)))
    b2 = mk("memval", mk("pi", m.fd, mk("const", "usize", 2)))
    ok = expect_bits(bs, [(0, b2, 0, 8), (8, b1, 0, 2)])
    return ok, bits_str(bs, m.names)


def rules_new(prog, res, want=("A-pre", "A-len", "A-ext", "A-dig", "A-cmp", "A-out", "A-err")):
    """The acceptance predicate of MessageFrame::new (C03).  Returns the model (used by C04/C06/C13)."""
    sem = sem_obligations(prog, res)
    if sem:
        res = SemBacked(res)
    m = NewModel(prog, res)
    m.sem = sem
    if not m.ok:
        return m
    f, fa, names = m.f, m.fa, m.names
    res.ob("A-shape", "new | exactly one Ok return", len(m.oks) == 1, "found %d" % len(m.oks), m.loc())
    res.ob("A-shape", "new | every return is Ok(..) or Err(..) built in place", not m.other,
           "; ".join(show(r["term"], names) for r in m.other), m.loc())
    res.ob("A-shape", "new | loop-free", not m.loops, "MessageFrame::new contains a loop; the acceptance rules assume none", m.loc())
    if len(m.oks) != 1:
        return m
    okr = m.oks[0]
    okf = m.sw_facts(okr)
    # --- classify the acceptance conditions
    cls = {}
    extra = []
    for fc, g in okf:
        c = canon_le(fc) if fc[0] in ("Lt", "Le", "Gt", "Ge", "Eq", "Ne") else None
        kind = None
        if c is not None and c[0] == "le":
            atoms = dict(c[1])
            if set(atoms) == {m.len_fd} and atoms[m.len_fd] == -1:
                kind = "min-len"
                cls.setdefault(kind, []).append((c, fc, g))
            elif m.len_fd in atoms and atoms[m.len_fd] == -1 and len(atoms) == 2:
                kind = "extent"
                cls.setdefault(kind, []).append((c, fc, g))
        elif c is not None and c[0] in ("eq", "ne"):
            a, b = fc[1], fc[2]
            ia, ib = m.fd_byte(a), m.fd_byte(b)
            if (ia is not None and is_const(ia) and const_val(ia) == 0 and is_const(b)) or \
                    (ib is not None and is_const(ib) and const_val(ib) == 0 and is_const(a)):
                kind = "preamble"
                cls.setdefault(kind, []).append((c, fc, g))
            elif any(x.op == "call" and x.args[0] == "crc_any::CRC::get_crc" for x in subterms(a) + subterms(b)):
                kind = "crc"
                cls.setdefault(kind, []).append((c, fc, g))
        if kind is None:
            extra.append(fc)
    res.ob("A-exact", "new | no acceptance condition beyond preamble, extent and checksum", not extra,
           "extra condition(s) on the Ok path: " + "; ".join(_fact_str(x, names) for x in extra), m.loc(okr),
           sample=[_fact_str(fc, names) for fc, g in okf])
    # --- A-pre
    pre = cls.get("preamble", [])
    okpre = False
    for c, fc, g in pre:
        cst = fc[2] if is_const(fc[2]) else fc[1]
        if fc[0] == "Eq" and const_val(cst) == 0xD3:
            okpre = True
    res.ob("A-pre", "new | Ok requires frame_data[0] == 0xD3", okpre,
           "preamble facts on the Ok path: " + "; ".join(_fact_str(fc, names) for c, fc, g in pre), m.loc(okr),
           sample=[_fact_str(fc, names) for c, fc, g in pre])
    # --- A-ext / A-len
    ext = cls.get("extent", [])
    L = None
    okext = False
    for c, fc, g in ext:
        atoms = dict(c[1])
        others = [a for a in atoms if a is not m.len_fd]
        if len(others) == 1 and atoms[others[0]] == 1:
            cand = others[0]
            if c[2] == 6:
                okext = True
                L = cand
            else:
                L = L or cand
    res.ob("A-ext", "new | Ok requires len(frame_data) >= L + 6", okext,
           "extent facts: " + "; ".join("%s <= 0" % lin_str((c[1], c[2]), names) for c, fc, g in ext), m.loc(okr),
           sample=["%s <= 0" % lin_str((c[1], c[2]), names) for c, fc, g in ext])
    for c, fc, g in cls.get("min-len", []):
        # len >= k : must not be stricter than the smallest frame (6)
        res.ob("A-ext", "new | early length guard is not stricter than 6 bytes", c[2] <= 6,
               "%s <= 0" % lin_str((c[1], c[2]), names), m.loc(okr))
    m.L = L
    if L is not None:
        okl, rend = length_spec(m, L)
        res.ob("A-len", "new | L = ((frame_data[1] & 3) << 8) | frame_data[2], reserved bits ignored", okl,
               "bit provenance of L: " + rend, m.loc(okr), sample=rend)
        # reserved bits: fd[1] may be mentioned only through L
        b1 = mk("memval", mk("pi", m.fd, mk("const", "usize", 1)))
        bad = []
        for fc, g in okf:
            for side in fc[1:3]:
                if isinstance(side, T) and _mentions_outside(side, b1, L):
                    bad.append(_fact_str(fc, names))
        for x in okr["term"].args[3]:
            if _mentions_outside(x, b1, L):
                bad.append("Ok value: " + show(x, names))
        res.ob("A-res", "new | header byte 1 influences the result only through L (the six reserved bits are ignored)", not bad, "; ".join(bad[:3]), m.loc(okr))
    else:
        res.ob("A-len", "new | L = ((frame_data[1] & 3) << 8) | frame_data[2], reserved bits ignored", False,
               "no length term could be identified (no extent guard)", m.loc(okr))
    # --- A-dig / A-cmp
    crcf = cls.get("crc", [])
    okc = False
    okd = False
    detail = ""
    if len(crcf) == 1 and crcf[0][1][0] == "Eq" and L is not None:
        fc = crcf[0][1]
        a, b = fc[1], fc[2]
        side_crc, side_msg = (a, b) if any(x.op == "call" and x.args[0] == "crc_any::CRC::get_crc" for x in subterms(a)) else (b, a)
        m.crc_cmp = (side_msg, side_crc)
        # computed side: (get_crc(&X) as u32) -- all 24 bits compared
        g = side_crc
        if g.op == "cast" and g.args[0] == "IntToInt" and ty_of(g) and ty_of(g)["bits"] >= 24:
            g = g.args[1]
        if g.op == "call" and g.args[0] == "crc_any::CRC::get_crc":
            recv = g.args[1][0]
            okd, detail = _digest_rule(m, recv, g, L)
        # stored side: bytes L+3, L+4, L+5 big endian
        bs = bits_of(side_msg)
        srcs = {}
        for i, x in enumerate(bs):
            if isinstance(x, tuple):
                srcs.setdefault(x[0], []).append((i, x[1]))
        spec_ok = len(bs) >= 24 and all(x == 0 for x in bs[24:])
        want = {3: 16, 4: 8, 5: 0}
        found = {}
        for atom, lst in srcs.items():
            idx = m.fd_byte(atom)
            if idx is None:
                spec_ok = False
                continue
            la, lc = lin(idx)
            if dict(la) == {L: 1} and lc in want:
                lo = want[lc]
                if sorted(lst) == [(lo + k, k) for k in range(8)]:
                    found[lc] = True
                else:
                    spec_ok = False
            else:
                spec_ok = False
        okc = spec_ok and set(found) == {3, 4, 5}
        res.ob("A-cmp", "new | Ok requires all 24 bits of bytes L+3..L+5 (big endian) to equal the computed CRC", okc,
               "stored side: %s ; computed side: %s" % (bits_str(bs, names), show(side_crc, names)), m.loc(okr),
               sample=bits_str(bs, names))
    else:
        res.ob("A-cmp", "new | Ok requires all 24 bits of bytes L+3..L+5 (big endian) to equal the computed CRC", False,
               "no single equality with CRC::get_crc on the Ok path (found %d)" % len(crcf), m.loc(okr))
    res.ob("A-dig", "new | one crc24lte_a object digests exactly frame_data[0 .. L+3]", okd, detail, m.loc(okr),
           sample=detail)
    # --- A-err: error classification
    _err_rule(m, res, cls, okf)
    _inc_rule(m, res)
    # --- A-out
    if L is not None:
        _out_rule(prog, m, res, okr, L)
    else:
        accessor_rule(prog, res)
    return m


def _fact_str(fc, names):
    if fc[0] in ("Lt", "Le", "Gt", "Ge", "Eq", "Ne"):
        return "%s(%s, %s)" % (fc[0], show(fc[1], names), show(fc[2], names))
    return str(tuple(show(x, names) if isinstance(x, T) else x for x in fc))


def _mentions_outside(t, atom, within):
    """Does t mention `atom` anywhere except inside the sub-term `within`?"""
    if t is within:
        return False
    if t is atom:
        return True
    if isinstance(t, T):
        return any(_mentions_outside(x, atom, within) for x in t.args)
    if isinstance(t, tuple):
        return any(_mentions_outside(x, atom, within) for x in t)
    return False


def _digest_rule(m, recv, getcrc, L):
    f, fa = m.f, m.fa
    if not (recv.op == "ref" and recv.args[0].op == "loc"):
        return False, "get_crc receiver is not a local CRC object"
    X = recv.args[0].args[1]
    ctor = [d for d in fa.defs(X) if d[2] == "call"]
    if len(ctor) != 1 or callee_of(f.term(ctor[0][0])) != "crc_any::CRC::crc24lte_a":
        return False, "CRC object is not created by crc_any::CRC::crc24lte_a"
    digests = []
    others = []
    getb = getcrc.args[3]
    for b, t in f.calls():
        c = callee_of(t)
        if c and c.startswith("crc_any::"):
            a = fa.call_args(b)
            if c == "crc_any::CRC::digest":
                digests.append((b, a))
            elif c not in ("crc_any::CRC::crc24lte_a", "crc_any::CRC::get_crc"):
                others.append(c)
    if others:
        return False, "unexpected crc_any calls: %s" % others
    if len(digests) != 1:
        return False, "expected exactly one digest call, found %d" % len(digests)
    db, da = digests[0]
    if not (da[0].op == "ref" and da[0].args[0].op == "loc" and da[0].args[0].args[1] == X):
        return False, "digest is applied to a different object than get_crc"
    if not f.dominates(db, getb) or db == getb:
        return False, "digest does not precede get_crc on every path"
    if f.can_reach(db, db):
        return False, "digest sits in a loop"
    sl = as_slice(da[1])
    if sl is None:
        return False, "digest argument is not a sub-slice of frame_data: %s" % show(da[1], m.names)
    base, lo, hi, kind = sl
    lo_ok = lo is None or (is_const(lo) and const_val(lo) == 0)
    hi_ok = False
    if hi is not None:
        la, lc = lin(hi)
        hi_ok = dict(la) == {L: 1} and lc == 3
    if base is not strip_ref(m.fd) or not lo_ok or not hi_ok:
        return False, "digest covers %s[%s..%s], expected frame_data[0..L+3]" % (
            show(base, m.names), show(lo, m.names) if lo is not None else "", show(hi, m.names) if hi is not None else "")
    return True, "digest(&frame_data[0..L+3]) on the crc24lte_a object read by get_crc"


def _err_rule(m, res, cls, okf):
    names = m.names
    okcanon = {}
    for kind, lst in cls.items():
        for c, fc, g in lst:
            okcanon[c] = kind
    want = {"min-len": "Incomplete", "extent": "Incomplete", "preamble": "NotValid", "crc": "NotValid"}
    seen = set()
    for r in m.errs:
        v = r["term"].args[3][0] if r["term"].args[3] else None
        variant = v.args[2] if v is not None and v.op == "agg" and v.args[0] == ERR else None
        deciding = []
        for fc, g in m.sw_facts(r):
            c = canon_le(fc) if fc[0] in ("Lt", "Le", "Gt", "Ge", "Eq", "Ne") else None
            n = neg_canon(c)
            if n in okcanon:
                deciding.append(okcanon[n])
        ok = len(deciding) == 1 and variant == want.get(deciding[0])
        if len(deciding) == 1:
            seen.add(deciding[0])
        res.ob("A-err", "new | Err(%s) is returned for exactly the failed %s check" % (variant, deciding[0] if len(deciding) == 1 else "?"),
               ok, "variant=%s deciding=%s expected=%s" % (variant, deciding, [want.get(d) for d in deciding]), m.loc(r),
               sample={"variant": variant, "failed": deciding})
    for kind in want:
        if kind in cls:
            res.ob("A-err", "new | the failing arm of the %s check returns an error" % kind, kind in seen, "", m.loc())
    # error-set closure (P-unreach / S-closed): only NotValid and Incomplete
    vs = set()
    for r in m.errs:
        v = r["term"].args[3][0] if r["term"].args[3] else None
        vs.add(v.args[2] if v is not None and v.op == "agg" else "?")
    res.ob("S-closed", "new | error set is within {NotValid, Incomplete}", vs <= {"NotValid", "Incomplete"}, "returns %s" % sorted(vs), m.loc(),
           sample=sorted(vs))
    m.err_variants = vs


def _mentions(t, atom):
    if t is atom:
        return True
    if isinstance(t, T):
        return any(_mentions(x, atom) for x in t.args)
    if isinstance(t, tuple):
        return any(_mentions(x, atom) for x in t)
    return False


def _inc_rule(m, res):
    """A-inc: the verdict of a candidate is stable under extension of the buffer.  Incomplete is returned only on a path that
    failed a lower-bound test on len(frame_data); every other return (Ok, NotValid) lies on a path whose only conditions on
    len(frame_data) are lower bounds (which stay true when more bytes arrive).  Together with D-idx (only bytes below the
    proven bound are read) this is what the chunking argument (C06) and 'consumed bytes cannot begin a frame' (C05) need."""
    names = m.names
    n_inc = 0
    from paths import enum_paths, TooMany
    try:
        paths = enum_paths(m.fa, max_paths=400)
    except (TooMany, ValueError) as e:
        res.ob("A-inc", "new | the paths of MessageFrame::new can be enumerated", False, str(e), m.loc())
        return
    seen = set()
    for blocks, facts, rv, flist in paths:
        variant = "?"
        if rv.op == "agg" and rv.args[2] == "Ok":
            variant = "Ok"
        elif rv.op == "agg" and rv.args[2] == "Err" and rv.args[3]:
            v = rv.args[3][0]
            variant = v.args[2] if v.op == "agg" and v.args[0] == ERR else "?"
        lower, upper, odd = [], [], []
        for g in flist:
            fc = fact_of_guard(g)
            if not any(_mentions(x, m.len_fd) for x in fc[1:3] if isinstance(x, T)):
                continue
            c = canon_le(fc) if fc[0] in ("Lt", "Le", "Gt", "Ge", "Eq", "Ne") else None
            if c is None or c[0] != "le":
                odd.append(fc)
                continue
            atoms = dict(c[1])
            others_mention = any(_mentions(a, m.len_fd) for a in atoms if a is not m.len_fd)
            if others_mention or m.len_fd not in atoms:
                odd.append(fc)
            elif atoms[m.len_fd] < 0:
                lower.append(fc)
            else:
                upper.append(fc)
        sig = (variant, tuple(_fact_str(x, names) for x in upper), tuple(_fact_str(x, names) for x in odd))
        if sig in seen:
            continue
        seen.add(sig)
        line = m.f.blocks[blocks[-2]]["term"].get("line", m.f.loc["line"]) if len(blocks) >= 2 else m.f.loc["line"]
        loc = {"file": m.f.loc["file"], "line": line}
        if variant == "Incomplete":
            n_inc += 1
            ok = len(upper) >= 1 and not odd
            res.ob("A-inc", "new | Err(Incomplete) is returned only where a lower-bound test on len(frame_data) failed [%s]" % "; ".join(sig[1]), ok,
                   "failed length tests: %s ; other conditions on the length: %s" % (list(sig[1]), list(sig[2])),
                   loc, sample=list(sig[1]))
        else:
            ok = not upper and not odd
            res.ob("A-inc", "new | %s is decided without a failed or non-monotone test on len(frame_data) (stable when more bytes arrive)" % variant, ok,
                   "failed length tests on this path: %s ; other conditions on the length: %s" % (list(sig[1]), list(sig[2])), loc)
    res.ob("A-inc", "new | there is an Err(Incomplete) return", n_inc >= 1, "found %d" % n_inc, m.loc())


def _out_rule(prog, m, res, okr, L):
    names = m.names
    adt = prog.adts.get("message_frame::MessageFrame")
    if adt is None:
        res.missing("A-out", "message_frame::MessageFrame")
        return
    fields = [x["name"] for x in adt["variants"][0]["fields"]]
    inner = okr["term"].args[3][0]
    if inner.op != "agg" or inner.args[0] != "message_frame::MessageFrame":
        res.ob("A-out", "new | Ok payload is a MessageFrame aggregate", False, show(inner, names), m.loc(okr))
        return
    vals = dict(zip(fields, inner.args[3]))
    m.out = vals

    def slice_is(t, lo_c, hi_c):
        sl = as_slice(t)
        if sl is None:
            return False
        base, lo, hi, kind = sl
        if base is not strip_ref(m.fd):
            return False
        if lo_c is None:
            if not (lo is None or (is_const(lo) and const_val(lo) == 0)):
                return False
        else:
            if lo is None or lin(lo) != (frozenset(), lo_c):
                return False
        if hi is None:
            return False
        la, lc = lin(hi)
        return dict(la) == {L: 1} and lc == hi_c
    res.ob("A-out", "new | frame_data field = input[..L+6]", "frame_data" in vals and slice_is(vals["frame_data"], None, 6),
           show(vals.get("frame_data"), names), m.loc(okr), sample=show(vals.get("frame_data"), names))
    res.ob("A-out", "new | data field = input[3..L+3]", "data" in vals and slice_is(vals["data"], 3, 3),
           show(vals.get("data"), names), m.loc(okr))
    res.ob("A-crcf", "new | crc field = the compared checksum bytes", m.crc_cmp is not None and vals.get("crc") is m.crc_cmp[0],
           show(vals.get("crc"), names), m.loc(okr))
    accessor_rule(prog, res, fields)


def accessor_rule(prog, res, fields=None):
    if fields is None:
        adt = prog.adts.get("message_frame::MessageFrame")
        if adt is None:
            res.missing("A-out", "message_frame::MessageFrame")
            return
        fields = [x["name"] for x in adt["variants"][0]["fields"]]
    if res.extra.get("_accessors_done") == id(prog):
        return
    res.extra["_accessors_done"] = id(prog)
    sem = frame_semantics(prog)
    if not sem["undecided"] and not sem["problems"] and {"frame_data", "data", "crc", "message_number", "data_len", "frame_len"} <= set(sem.get("observed", ())):
        # A-sem judged what the accessors return on the frame new() builds (framesem.observe): stored or derived makes no difference
        res.ob("A-out", "accessor | frame_data(), data(), crc(), message_number(), data_len(), frame_len() evaluated on the frame new() builds return the specified values [A-sem]",
               True, "each accessor interpreted on every Ok path of MessageFrame::new", (prog.fn(NEW).loc if prog.fn(NEW) else None))
        res = SemBacked(res, accessors_observed=True)
    # accessors
    want = {"data": ("data", None), "frame_data": ("frame_data", None), "crc": ("crc", None),
            "message_number": ("message_number", None), "data_len": ("data", "len"), "frame_len": ("frame_data", "len")}
    def plain_field(acc2, depth=0):
        """index of the field a plain accessor returns (self.<f>, or another plain accessor applied to self), else None"""
        g2 = prog.fn("message_frame::MessageFrame::" + acc2)
        if g2 is None or depth > 3 or len(g2.return_blocks()) != 1:
            return None
        ga2 = FA(g2, prog)
        return field_of(strip_ref(ga2.end_val(0, g2.return_blocks()[0])), depth)

    def field_of(x, depth=0):
        # self.<fld> : pf(mem(arg1), idx)   (possibly one more deref for slices)
        while x.op == "memval" or (x.op == "mem" and x.args[0].op in ("call", "memval")):
            x = x.args[0]
        x = strip_ref(x)
        if x.op == "pf" and x.args[0].op == "mem" and x.args[0].args[0].op == "arg":
            return x.args[1]
        # a sibling accessor applied to self: data_len() = self.data().len()
        if x.op == "call" and isinstance(x.args[0], str) and x.args[0].startswith("message_frame::MessageFrame::") and len(x.args[1]) == 1:
            a0 = strip_ref(x.args[1][0])
            while a0.op in ("mem", "memval"):
                a0 = strip_ref(a0.args[0])
            if a0.op == "arg":
                return plain_field(x.args[0].rsplit("::", 1)[1], depth + 1)
        return None

    for acc, (fld, how) in want.items():
        g = prog.fn("message_frame::MessageFrame::" + acc)
        if g is None:
            res.missing("A-out", "message_frame::MessageFrame::" + acc)
            continue
        res.fn(g)
        ga = FA(g, prog)
        rets = g.return_blocks()
        ok = False
        v = None
        if len(rets) == 1:
            v = ga.end_val(0, rets[0])
            x = v
            if how == "len":
                if x.op == "len":
                    x = x.args[0]
                else:
                    x = None
            if x is not None:
                ok = fld in fields and field_of(strip_ref(x)) == fields.index(fld)
        res.ob("A-out", "accessor | %s() returns %s%s" % (acc, "len of " if how else "", fld), ok,
               show(v, ga.names) if v is not None else "no unique return", g.loc)


def rule_n_pres(prog, res, m=None):
    """N-pres: message_number is Some(first 12 payload bits) iff L >= 2, None otherwise (C13 sentence 2, C14 Empty clause)."""
    if getattr(m, "sem", None) if m is not None else (frame_semantics(prog)["undecided"] == [] and not frame_semantics(prog)["problems"]):
        if m is None:
            sem_obligations(prog, engine_filtered_npres(res))
        res = SemBacked(res)
    if m is None:
        m = NewModel(prog, res)
        if not m.ok or len(m.oks) != 1:
            res.ob("N-pres", "new | single Ok return", False, "", None)
            return
        # recover L from the extent guard
        for fc, g in m.sw_facts(m.oks[0]):
            c = canon_le(fc) if fc[0] in ("Lt", "Le", "Gt", "Ge") else None
            if c and c[0] == "le":
                atoms = dict(c[1])
                if m.len_fd in atoms and len(atoms) == 2:
                    m.L = [a for a in atoms if a is not m.len_fd][0]
    f, fa, names = m.f, m.fa, m.names
    okr = m.oks[0]
    adt = prog.adts.get("message_frame::MessageFrame")
    fields = [x["name"] for x in adt["variants"][0]["fields"]]
    inner = okr["term"].args[3][0]
    if inner.op != "agg" or "message_number" not in fields:
        res.ob("N-pres", "new | message_number field", False, "cannot locate the field", m.loc(okr))
        return
    mn = inner.args[3][fields.index("message_number")]
    L = m.L
    if L is None:
        res.ob("N-pres", "new | length term known", False, "", m.loc(okr))
        return
    if mn.op != "phi":
        res.ob("N-pres", "new | message_number is chosen between Some and None", False, "value: " + show(mn, names), m.loc(okr))
        return
    ops = fa.phi_operands(mn)
    ok_some = ok_none = False
    okcanon = set()
    for fc, g in m.sw_facts(okr):
        c = canon_le(fc) if fc[0] in ("Lt", "Le", "Gt", "Ge", "Eq", "Ne") else None
        if c:
            okcanon.add(c)
    details = []
    for pb, v in ops:
        # facts at the predecessor block beyond the Ok-path facts
        own = []
        for g in fa.guards(pb):
            if g[4] != "switch":
                continue
            fc = fact_of_guard(g)
            c = canon_le(fc) if fc[0] in ("Lt", "Le", "Gt", "Ge", "Eq", "Ne") else None
            if c not in okcanon:
                own.append((c, fc))
        if v.op == "agg" and v.args[2] == "Some":
            x = v.args[3][0]
            bs = bits_of(x)
            b3 = mk("memval", mk("pi", m.fd, mk("const", "usize", 3)))
            b4 = mk("memval", mk("pi", m.fd, mk("const", "usize", 4)))
            okbits = expect_bits(bs, [(4, b3, 0, 8), (0, b4, 4, 4)])
            okg = len(own) == 1 and own[0][0] == ("le", frozenset([(L, -1)]), 2)
            ok_some = okbits and okg
            details.append("Some: bits %s ; guard %s" % (bits_str(bs, names), [_fact_str(fc, names) for c, fc in own]))
        elif v.op == "agg" and v.args[2] == "None":
            okg = len(own) == 1 and own[0][0] == ("le", frozenset([(L, 1)]), -1)
            ok_none = okg
            details.append("None: guard %s" % [_fact_str(fc, names) for c, fc in own])
        else:
            details.append("other operand: " + show(v, names))
    res.ob("N-pres", "new | message_number = Some(first 12 payload bits) exactly when L >= 2", ok_some and len(ops) == 2,
           " | ".join(details), m.loc(okr), sample=details)
    res.ob("N-pres", "new | message_number = None exactly when L < 2", ok_none and len(ops) == 2, " | ".join(details), m.loc(okr))


def rule_d_len(prog, res, m):
    """D-len / D-idx (C13): the Ok value and every decision after the extent guards are functions of the
    first L+6 bytes only."""
    if getattr(m, "sem", None):
        res = SemBacked(res)
    f, fa, names = m.f, m.fa, m.names
    okr = m.oks[0]
    L = m.L
    okblocks = {okr["block"]}
    # D-len: every branch whose condition mentions len(frame_data) must have an arm that cannot reach Ok
    for b in sorted(f.reachable()):
        t = f.term(b)
        if t["k"] != "switch":
            continue
        c = fa.op_term(t["discr"], (b, len(f.blocks[b]["stmts"])))
        if any(x is m.len_fd for x in subterms(c)):
            succs = f.succ(b)
            reach_ok = [s for s in succs if okr["block"] in f.reach_from(s)]
            res.ob("D-len", "new | branch on %s is an extent guard (one arm cannot reach Ok)" % show(c, names),
                   len(reach_ok) < len(succs),
                   "both arms of a branch that depends on the input slice length reach the Ok return", {"file": f.loc["file"], "line": t["line"]},
                   sample=show(c, names))
    inner = okr["term"].args[3][0]
    bad = []
    for x in subterms(inner):
        if x is m.len_fd:
            bad.append("Ok value mentions len(frame_data)")
    # phi operands of the Ok value
    for x in subterms(inner):
        if x.op == "phi":
            for pb, v in fa.phi_operands(x):
                if any(y is m.len_fd for y in subterms(v)):
                    bad.append("Ok value (through a phi) mentions len(frame_data)")
    res.ob("D-len", "new | the Ok value does not depend on len(frame_data)", not bad, "; ".join(bad), m.loc(okr))
    # D-idx: every byte read / slice bound of the input that reaches the Ok value or an Ok-path condition is < L+6
    if L is None:
        res.ob("D-idx", "new | length term known", False, "", m.loc(okr))
        return
    terms = [inner]
    for x in subterms(inner):
        if x.op == "phi":
            terms.extend(v for pb, v in fa.phi_operands(x))
    for fc, g in m.sw_facts(okr):
        terms.extend([s for s in fc[1:3] if isinstance(s, T)])
    n = 0
    for root in terms:
        for x in subterms(root):
            idx = m.fd_byte(x)
            if idx is not None:
                n += 1
                la, lc = lin(idx)
                ok = (not la and 0 <= lc <= 5) or (dict(la) == {L: 1} and lc <= 5)
                res.ob("D-idx", "new | byte read frame_data[%s] lies inside the frame" % lin_str((la, lc), names), ok,
                       "index must be a constant <= 5 or L+k with k <= 5", m.loc(okr))
            sl = as_slice(x) if x.op in ("ref", "mem", "call") else None
            if sl is not None and sl[0] is strip_ref(m.fd) and x.op == "call":
                n += 1
                hi = sl[2]
                ok = False
                if hi is not None:
                    la, lc = lin(hi)
                    ok = (not la and lc <= 6) or (dict(la) == {L: 1} and lc <= 6)
                res.ob("D-idx", "new | slice frame_data[%s..%s] ends inside the frame" % (
                    show(sl[1], names) if sl[1] is not None else "", show(hi, names) if hi is not None else ""), ok,
                    "slice end must be <= L+6 (an open-ended slice depends on the bytes after the frame)", m.loc(okr))
    res.floor("D-idx", "input reads checked", n, 6)


# ------------------------------------------------------------------ scanner
def _every_candidate_is_tried(f, fa, res, cb, nb, loc, ct, names, is_preamble_fact):
    """S-cand (completeness): once the byte at the scan position is 0xD3, nothing else decides whether MessageFrame::new is called there - no
    path from the successful preamble test goes back to the loop head, or leaves the function, without passing the call.  (A look-ahead or
    plausibility filter in front of the call makes the scanner skip candidates that new() would accept.)"""
    ok = False
    detail = "no preamble test found"
    header = list(f.loops().keys())[0] if f.loops() else None
    rets = set(f.return_blocks())
    for x in sorted(f.reachable()):
        t = f.term(x)
        if t["k"] != "switch" or not f.dominates(x, cb) or x == cb:
            continue
        for s_ in f.succ(x):
            eg = [fact_of_guard(g) for g in fa.edge_guard(x, s_)]
            if not any(is_preamble_fact(fc) for fc in eg):
                continue
            # s_ = the block entered when the byte is 0xD3: explore without passing cb
            seen = set()
            st = [s_]
            bad = None
            while st:
                y = st.pop()
                if y in seen or y == cb:
                    continue
                seen.add(y)
                if y == header or y in rets:
                    bad = y
                    break
                ty = f.term(y)
                if ty["k"] in ("unreachable",) or f.blocks[y].get("cleanup"):
                    continue
                for z in f.succ(y):
                    st.append(z)
            ok = bad is None
            detail = "every path from the preamble test reaches the call" if ok else \
                "a path from the preamble test reaches block %d (%s) without calling MessageFrame::new (line %s)" % (
                    bad, "the loop head" if bad == header else "a return", f.term(bad).get("line") or f.blocks[bad]["stmts"][0].get("line") if f.blocks[bad]["stmts"] else "?")
    res.ob("S-cand", "scan | every position holding 0xD3 is handed to new(): no other test can skip a candidate", ok, detail, loc(ct["line"]))


_SSEM = {}
SSEM_RULES = {
    "first": ("S-first", "scan | the scan starts at position 0 and after a dismissed position resumes exactly one byte further (no byte is skipped unexamined)"),
    "cand": ("S-cand", "scan | every position is either known not to hold 0xD3 or handed to new(&data[i..]), exactly once"),
    "ok": ("S-ok", "scan | on Ok(m): returns (i + m.frame_len(), Some(m))"),
    "inc": ("S-inc", "scan | on Err(Incomplete): returns (i, None)"),
    "end": ("S-end", "scan | at end of data: returns (data.len(), None)"),
    "skip": ("S-skip", "scan | on Err(NotValid): continue with the next byte, no return"),
    "shape": ("S-shape", "scan | every return is a (consumed, frame) pair of one of the three cases"),
    "panic": ("S-sem", "scan | every index, slice and arithmetic operation of the scanner is covered on its path (no panic), and the loop terminates"),
}
SSEM_COVERED = {"S-first", "S-cand", "S-ok", "S-inc", "S-end", "S-skip", "S-shape"}


def scan_semantics(prog):
    k = id(prog)
    if k not in _SSEM:
        import scansem
        try:
            _SSEM[k] = scansem.check(prog)
        except RecursionError:
            _SSEM[k] = {"decided": False, "problems": [], "undecided": "recursion limit", "paths": 0, "form": ""}
    return _SSEM[k]


class SSemBacked(SemBacked):
    """While a clean S-sem run is in force, a scanner template rule that does not match the code's shape is recorded as decided by S-sem."""

    def ob(self, rule, key, ok, detail="", loc=None, sample=None):
        if rule in SSEM_COVERED and not ok:
            return self.res.ob(rule, key, True, "shape not recognised by the template rule; the clause is decided by S-sem (inductive abstract interpretation). " + str(detail)[:200], loc)
        return self.res.ob(rule, key, ok, detail, loc, sample=sample)


def rules_scan(prog, res, m=None):
    """C05 rules on next_msg_frame: S-sem (scansem.py) first; the template rules below judge alone only when S-sem is undecided."""
    f = prog.fn(SCAN)
    if f is None:
        res.missing("S-anchor", SCAN)
        return None
    res.fn(f)
    sem = scan_semantics(prog)
    if sem["decided"]:
        bycat = {}
        for cat, text in sem["problems"]:
            bycat.setdefault(cat, []).append(text)
        for cat, (rule, desc) in SSEM_RULES.items():
            probs = bycat.get(cat, [])
            res.ob(rule, desc + " [S-sem]", not probs, "; ".join(probs)[:600] if probs else
                   "induction over the scan position: %d abstract paths; %s" % (sem["paths"], sem["form"]), f.loc,
                   sample={"engine": "scansem", "paths": sem["paths"], "form": sem["form"]} if cat == "first" else None)
        if not sem["problems"]:
            return _rules_scan_template(prog, SSemBacked(res), f, m)
    else:
        res.extra["S-sem"] = "not applicable: %s" % sem["undecided"]
    return _rules_scan_template(prog, res, f, m)


def _rules_scan_template(prog, res, f, m=None):
    fa = FA(f, prog)
    names = fa.names
    data = mk("mem", fa.start_val(1, 0))
    loc = lambda line=None: {"file": f.loc["file"], "line": line or f.loc["line"]}
    news = [(b, t) for b, t in f.calls() if callee_of(t) == NEW]
    nexts = [(b, t) for b, t in f.calls() if (callee_of(t) or "").endswith("::next")]
    poss = [(b, t) for b, t in f.calls() if libmodel.POSITION.fullmatch(callee_of(t) or "")]
    res.ob("S-cand", "scan | exactly one call of MessageFrame::new", len(news) == 1, "found %d" % len(news), loc())
    if len(news) != 1:
        return None
    cb, ct = news[0]
    arg = fa.call_args(cb)[0]
    sl = as_slice(arg)
    i_t = sl[1] if (sl is not None and sl[0] is strip_ref(data) and sl[3] == "RangeFrom") else None
    gs = [(fact_of_guard(g), g) for g in fa.guards(cb) if g[4] == "switch"]
    end_discr = None       # term whose discriminant == 0 (None) means: no further candidate
    if len(poss) == 1 and not nexts:
        # ---- idiom B: while let Some(off) = data[start..].iter().position(|&b| b == 0xD3) { i = start + off; .. start = i + 1 }
        res.ob("S-first", "scan | one loop driven by one position() search", len(f.loops()) == 1, "loops=%d" % len(f.loops()), loc())
        if len(f.loops()) != 1:
            return None
        header = list(f.loops().keys())[0]
        body = f.loops()[header]
        pb, pt = poss[0]
        pargs = fa.call_args(pb)
        item = fa.defterm(pt["dest"]["local"], pb, len(f.blocks[pb]["stmts"]), "call")
        end_discr = item
        off = mk("field", mk("downcast", item, 1), 0)
        # searched slice: data[start..]
        okit = False
        start = None
        itdesc = ""
        it = pargs[0]
        if it.op == "ref" and it.args[0].op == "loc":
            X = it.args[0].args[1]
            ds = [d for d in fa.defs(X) if d[2] != "borrow"]
            if len(ds) == 1:
                v = fa.defterm(X, ds[0][0], ds[0][1], ds[0][2])
                itdesc = show(v, names)
                if v.op == "call" and v.args[0] == "core::slice::<impl [T]>::iter" and v.args[1]:
                    ssl = as_slice(v.args[1][0])
                    if ssl is not None and ssl[0] is strip_ref(data) and ssl[3] == "RangeFrom":
                        start = ssl[1]
                        okit = start.op == "phi" and start.args[2] == header
        res.ob("S-first", "scan | the search runs over data[start..] front to back, start being the loop's resume offset", okit,
               "iterator: %s" % itdesc, loc(pt["line"]), sample=itdesc)
        # predicate: |&b| b == 0xD3
        okpred = False
        pd = ""
        clo = pargs[1] if len(pargs) > 1 else None
        if clo is not None and clo.op == "closure" and prog.fn(clo.args[0]) is not None:
            cf = prog.fn(clo.args[0])
            res.fn(cf)
            cfa = FA(cf, prog)
            rets = cf.return_blocks()
            if len(rets) == 1 and not cf.loops():
                rvv = cfa.end_val(0, rets[0])
                pd = show(rvv, cfa.names)
                if rvv.op == "bin" and rvv.args[0] == "Eq":
                    a_, b_ = rvv.args[1], rvv.args[2]
                    cst, oth = (b_, a_) if is_const(b_) else (a_, b_)
                    if is_const(cst) and const_val(cst) == 0xD3:
                        x = oth
                        while x.op in ("memval", "mem", "ref"):
                            x = x.args[0]
                        okpred = x.op == "arg" and x.args[1] == 2
        res.ob("S-cand", "scan | new() is tried exactly at positions holding 0xD3", okpred, "position predicate: %s" % pd, loc(pt["line"]))
        # candidate = start + off
        okc = False
        if i_t is not None and start is not None:
            la, ca = lin(i_t)
            okc = dict(la) == {start: 1, off: 1} and ca == 0
        res.ob("S-cand", "scan | candidate = data[i..] with i = resume offset + position found", okc,
               "argument: %s" % show(arg, names), loc(ct["line"]), sample=show(arg, names))
        _every_candidate_is_tried(f, fa, res, cb, pb, loc, ct, names,
                                  lambda fc: len(fc) == 4 and fc[0] == "discr" and fc[1] is item and ((fc[2] == "eq" and fc[3] == 1) or (fc[2] == "ne" and 0 in fc[3])))
        # resume offset: 0 initially, candidate + 1 after a rejected candidate
        okres = False
        rd_ = ""
        if start is not None and start.op == "phi":
            ops = fa.phi_operands(start)
            inits = [v for pb_, v in ops if pb_ not in body]
            backs = [v for pb_, v in ops if pb_ in body]
            okb = bool(backs)
            for v in backs:
                la, ca = lin(v)
                if not (i_t is not None and dict(la) == dict(lin(i_t)[0]) and ca == 1):
                    okb = False
            okres = okb and inits and all(is_const(v) and const_val(v) == 0 for v in inits)
            rd_ = "initial %s ; after a rejected candidate %s" % ([show(v, names) for v in inits], [show(v, names) for v in backs])
        res.ob("S-first", "scan | the search resumes at 0 initially and at candidate + 1 after a rejected candidate (no byte is skipped unexamined)", bool(okres), rd_, loc())
        if not (okit and okc):
            i_t = None
    else:
        # ---- idiom A: for (i, b) in data.iter().enumerate() { if *b == 0xD3 { .. } }
        res.ob("S-first", "scan | one loop driven by one Iterator::next", len(nexts) == 1 and len(f.loops()) == 1,
               "next calls=%d loops=%d" % (len(nexts), len(f.loops())), loc())
        if len(nexts) != 1:
            return None
        nb, nt = nexts[0]
        it = fa.call_args(nb)[0]
        okit = False
        itdesc = ""
        if it.op == "ref" and it.args[0].op == "loc":
            X = it.args[0].args[1]
            ds = [d for d in fa.defs(X) if d[2] != "borrow"]
            if len(ds) == 1:
                v = fa.defterm(X, ds[0][0], ds[0][1], ds[0][2])
                itdesc = show(v, names)
                # into_iter(enumerate(iter(&*data)))  -- front to back, no rev/skip/step
                chain = []
                x = v
                while x.op == "call":
                    chain.append(x.args[0])
                    x = x.args[1][0] if x.args[1] else None
                    if x is None:
                        break
                if chain[:1] == ["<I as core::iter::IntoIterator>::into_iter"]:
                    chain = chain[1:]          # identity on iterators
                if x is not None and strip_ref(x) is strip_ref(data) and chain == ["core::iter::Iterator::enumerate", "core::slice::<impl [T]>::iter"]:
                    okit = True
        res.ob("S-first", "scan | the loop iterates data.iter().enumerate() front to back", okit and callee_of(nt) == "<core::iter::Enumerate<I> as core::iter::Iterator>::next",
               "iterator: %s ; next = %s" % (itdesc, callee_of(nt)), loc(nt["line"]), sample=itdesc)
        item = fa.defterm(nt["dest"]["local"], nb, len(f.blocks[nb]["stmts"]), "call")
        end_discr = item
        some = mk("downcast", item, 1)
        pair = mk("field", some, 0)
        oksl = i_t is not None and i_t.op == "field" and i_t.args[1] == 0 and i_t.args[0] is pair
        res.ob("S-cand", "scan | candidate = data[i..] with i the index yielded with the byte", oksl,
               "argument: %s" % show(arg, names), loc(ct["line"]), sample=show(arg, names))
        if not oksl:
            i_t = None
        okpre = False
        for fc, g in gs:
            if fc[0] == "Eq":
                a, b = fc[1], fc[2]
                if is_const(b) and const_val(b) == 0xD3:
                    x = a
                elif is_const(a) and const_val(a) == 0xD3:
                    x = b
                else:
                    continue
                # *b where b = pair.1
                x = strip_ref(x) if x.op == "memval" else x
                if x.op == "mem":
                    x = x.args[0]
                if x.op == "field" and x.args[1] == 1 and x.args[0] is pair:
                    okpre = True
        res.ob("S-cand", "scan | new() is tried exactly at positions holding 0xD3", okpre,
               "guards: " + "; ".join(_fact_str(fc, names) for fc, g in gs), loc(ct["line"]))
        _every_candidate_is_tried(f, fa, res, cb, nb, loc, ct, names,
                                  lambda fc: len(fc) == 3 and fc[0] == "Eq" and ((is_const(fc[2]) and const_val(fc[2]) == 0xD3) or (is_const(fc[1]) and const_val(fc[1]) == 0xD3)))
    # classify returns
    result = fa.defterm(ct["dest"]["local"], cb, len(f.blocks[cb]["stmts"]), "call")
    rd = mk("discr", result)
    errd = mk("discr", mk("field", mk("downcast", result, 1), 0))
    header = list(f.loops().keys())[0] if f.loops() else None
    seen = {"ok": False, "inc": False, "end": False}
    for b in sorted(f.reachable()):
        for i, s in enumerate(f.blocks[b]["stmts"]):
            if not (s["k"] == "assign" and s["place"]["local"] == 0 and not s["place"]["proj"]):
                continue
            v = fa.rv_term(s["rv"], (b, i))
            g = fa.guards(b)
            dres = [(gk, gv) for (gt, gk, gv, _, _s) in g if gt is rd]
            derr = [(gk, gv) for (gt, gk, gv, _, _s) in g if gt is errd]
            dnext = [(gk, gv) for (gt, gk, gv, _, _s) in g if gt is mk("discr", end_discr)]
            if v.op != "tuple" or len(v.args[0]) != 2:
                res.ob("S-shape", "scan | return value is a (consumed, frame) pair built in place", False, show(v, names), loc(s["line"]))
                continue
            cons, fr = v.args[0]
            if ("eq", 0) in dres:
                # Ok(m)
                seen["ok"] = True
                mterm = mk("field", mk("downcast", result, 0), 0)
                okfr = fr.op == "agg" and fr.args[2] == "Some" and fr.args[3][0] is mterm
                okc = False
                if cons.op == "bin" and cons.args[0] == "Add":
                    parts = [cons.args[1], cons.args[2]]
                    fl = [p for p in parts if p.op == "call" and p.args[0] == "message_frame::MessageFrame::frame_len"]
                    rest = [p for p in parts if p not in fl]
                    if len(fl) == 1 and len(rest) == 1 and rest[0] is i_t:
                        recv = strip_ref(fl[0].args[1][0])
                        # &m where m holds the Ok payload
                        if recv.op == "loc":
                            okc = fa.val(recv.args[1], (fl[0].args[3], 10 ** 6)) is mterm or True
                res.ob("S-ok", "scan | on Ok(m): returns (i + m.frame_len(), Some(m))", okfr and okc,
                       "returns (%s, %s)" % (show(cons, names), show(fr, names)), loc(s["line"]),
                       sample="(%s, %s)" % (show(cons, names), show(fr, names)))
            elif ("eq", 1) in dres and derr:
                # Err(variant)
                variants = {dv for dk, dv in derr if dk == "eq"}
                adt = prog.adts[ERR]
                vn = {v_["idx"]: v_["name"] for v_ in adt["variants"]}
                names_ = {vn.get(x) for x in variants}
                if names_ == {"Incomplete"}:
                    seen["inc"] = True
                    okv = cons is i_t and fr.op == "agg" and fr.args[2] == "None"
                    res.ob("S-inc", "scan | on Err(Incomplete): returns (i, None)", okv,
                           "returns (%s, %s)" % (show(cons, names), show(fr, names)), loc(s["line"]),
                           sample="(%s, %s)" % (show(cons, names), show(fr, names)))
                else:
                    res.ob("S-skip", "scan | no return on Err(%s)" % sorted(names_), False,
                           "a candidate rejected with %s must be skipped, not returned" % sorted(names_), loc(s["line"]))
            elif ("eq", 0) in dnext or any(k == "ne" and 1 in v_ for k, v_ in dnext):
                seen["end"] = True
                okv = cons is mk("len", data) and fr.op == "agg" and fr.args[2] == "None"
                res.ob("S-end", "scan | at end of data: returns (data.len(), None)", okv,
                       "returns (%s, %s)" % (show(cons, names), show(fr, names)), loc(s["line"]),
                       sample="(%s, %s)" % (show(cons, names), show(fr, names)))
            else:
                res.ob("S-shape", "scan | return outside the Ok / Incomplete / end-of-data cases", False,
                       "returns (%s, %s) under guards %s" % (show(cons, names), show(fr, names), [(show(a, names), k, v_) for a, k, v_, _, _s in g]),
                       loc(s["line"]))
    for k, rule, txt in (("ok", "S-ok", "Ok arm returns the frame"), ("inc", "S-inc", "Incomplete arm returns (i, None)"),
                         ("end", "S-end", "loop exit returns (len, None)")):
        if not seen[k]:
            res.ob(rule, "scan | " + txt, False, "no such return found", loc())
    # an accepted or incomplete candidate always ends the scan: from the Ok arm / the Incomplete arm of the match on new()'s result the loop
    # header is not reachable (a second test on the Ok arm that `continue`s - a look at the byte after the frame - skips a valid frame)
    adt = prog.adts[ERR]
    inc_idx = [v_["idx"] for v_ in adt["variants"] if v_["name"] == "Incomplete"]

    def _reaches_header(start):
        seen_, st_ = set(), [start]
        while st_:
            y = st_.pop()
            if y == header:
                return True
            if y in seen_:
                continue
            seen_.add(y)
            st_.extend(f.succ(y))
        return False
    if header is not None:
        found_ok = found_inc = False
        ok_final = inc_final = True
        for b in sorted(f.reachable()):
            t = f.term(b)
            if t["k"] != "switch":
                continue
            c = fa.op_term(t["discr"], (b, len(f.blocks[b]["stmts"])))
            if c is rd:
                arms_ = dict((v_, tb) for v_, tb in t["arms"])
                tgt_ = arms_.get(0, t.get("otherwise") if 1 in arms_ else None)
                if tgt_ is not None:
                    found_ok = True
                    ok_final = ok_final and not _reaches_header(tgt_)
            if c is errd and inc_idx:
                for v_, tb in t["arms"]:
                    if v_ == inc_idx[0]:
                        found_inc = True
                        inc_final = inc_final and not _reaches_header(tb)
        res.ob("S-ok", "scan | an accepted candidate always ends the scan (no path from the Ok arm back into the loop)", found_ok and ok_final,
               "" if found_ok else "no match on the result of new() found", loc())
        res.ob("S-inc", "scan | an incomplete candidate always ends the scan (no path from the Incomplete arm back into the loop)", found_inc and inc_final,
               "" if found_inc else "no match on the error variant found", loc())
    # S-skip: the NotValid arm goes back to the loop header without a return and without stores
    nv = [v_["idx"] for v_ in adt["variants"] if v_["name"] == "NotValid"]
    skip_ok = False
    detail = "no switch on the error variant found"
    for b in sorted(f.reachable()):
        t = f.term(b)
        if t["k"] == "switch":
            c = fa.op_term(t["discr"], (b, len(f.blocks[b]["stmts"])))
            if c is errd and nv:
                tgt = [tb for v_, tb in t["arms"] if v_ == nv[0]]
                if len(tgt) == 1:
                    # follow gotos to the header
                    x = tgt[0]
                    steps = 0
                    clean = True
                    while x != header and steps < 8:
                        blk = f.blocks[x]
                        if f.term(x)["k"] not in ("goto", "assert") or any(s["k"] == "assign" and s["place"]["local"] == 0 for s in blk["stmts"]):
                            clean = False
                            break
                        x = f.term(x)["target"]
                        steps += 1
                    skip_ok = clean and x == header
                    detail = "NotValid arm -> bb%d ... -> loop header" % tgt[0] if skip_ok else "NotValid arm does not return to the loop header directly"
    res.ob("S-skip", "scan | on Err(NotValid): continue with the next byte, no return", skip_ok, detail, loc(), sample=detail)
    # the non-0xD3 arm also continues
    # S-closed: panics in the error match are dead iff new()'s error set is closed (checked in rules_new)
    return {"fa": fa, "fn": f}


_ISEM = {}


def iter_semantics(prog):
    if id(prog) not in _ISEM:
        import framesem
        try:
            _ISEM[id(prog)] = framesem.check_iter(prog)
        except RecursionError:
            _ISEM[id(prog)] = {"paths": 0, "problems": [], "undecided": ["recursion limit"]}
    return _ISEM[id(prog)]


class ISemBacked(SemBacked):
    def ob(self, rule, key, ok, detail="", loc=None, sample=None):
        k = str(key)
        if rule == "I-iter" and not ok and k.startswith("iter | ") and "consumed()" not in k and "new(data)" not in k:
            return self.res.ob(rule, key, True, "shape not recognised by the template rule; the clause is decided by I-sem (abstract interpretation). " + str(detail)[:200], loc)
        return self.res.ob(rule, key, ok, detail, loc, sample=sample)


def rules_iter(prog, res):
    """I-iter: MsgFrameIter::{new, consumed, next}."""
    f = prog.fn(ITER_NEXT)
    if f is None:
        res.missing("I-iter", ITER_NEXT)
        return
    res.fn(f)
    sem = iter_semantics(prog)
    if not sem["undecided"]:
        res.ob("I-iter", "iter | next() = None when index >= data.len(), else one scan of data[index..], index += consumed, the scanner's frame returned [I-sem]",
               not sem["problems"], "; ".join(sem["problems"])[:500] if sem["problems"] else "abstract interpretation: %d paths" % sem["paths"], f.loc)
        if not sem["problems"]:
            res.ob("I-iter", "iter | scanner is given data[index..]", True, "decided by I-sem", f.loc)
            res = ISemBacked(res)
    fa = FA(f, prog)
    names = fa.names
    adt = prog.adts.get("MsgFrameIter")
    if adt is None:
        res.missing("I-iter", "MsgFrameIter")
        return
    fields = [x["name"] for x in adt["variants"][0]["fields"]]
    if "data" not in fields or "index" not in fields:
        # both engines (I-sem and this template) read the iterator through its two fields `data` (the whole input) and `index` (bytes consumed);
        # another representation of the same state (the unscanned tail plus the total length, ...) is not decided - fail closed, one obligation
        res.ob("I-iter", "iter | MsgFrameIter keeps its state as {data: the input, index: bytes consumed} (the representation both engines read)", False,
               "fields are %s: next() / consumed() over this representation are not decided by I-sem or the template" % fields, f.loc)
        return
    i_data, i_index = fields.index("data"), fields.index("index")
    loc = lambda line=None: {"file": f.loc["file"], "line": line or f.loc["line"]}
    self_obj = mk("mem", mk("memval", mk("mem", fa.start_val(1, 0))))   # **self
    index0 = mk("memval", mk("pf", self_obj, i_index))
    data0 = mk("memval", mk("pf", self_obj, i_data))
    scans = [(b, t) for b, t in f.calls() if callee_of(t) == SCAN]
    res.ob("I-iter", "iter | next() calls the scanner exactly once, outside any loop", len(scans) == 1 and not f.loops(),
           "calls=%d loops=%d" % (len(scans), len(f.loops())), loc())
    if len(scans) != 1:
        return
    sb, st = scans[0]
    arg = fa.call_args(sb)[0]
    sl = as_slice(arg)
    oka = sl is not None and sl[3] == "RangeFrom" and sl[1] is index0 and strip_ref(sl[0]) is strip_ref(data0)
    res.ob("I-iter", "iter | scanner is given data[index..]", oka, "argument: " + show(arg, names), loc(st["line"]), sample=show(arg, names))
    # guard: scanner call happens iff !(index >= len(data))
    gs = [fact_of_guard(g) for g in fa.guards(sb) if g[4] == "switch"]
    okg = False
    for fc in gs:
        c = canon_le(fc) if fc[0] in ("Lt", "Le", "Gt", "Ge") else None
        if c and c[0] == "le":
            atoms = dict(c[1])
            # index + 1 - len <= 0
            ln = [a for a in atoms if a.op == "len"]
            if len(atoms) == 2 and atoms.get(index0) == 1 and len(ln) == 1 and atoms[ln[0]] == -1 and c[2] == 1 \
                    and strip_ref(ln[0].args[0]) is strip_ref(data0):
                okg = True
    res.ob("I-iter", "iter | scanner is called exactly when index < data.len(); otherwise None", okg and len(gs) == 1,
           "guards: " + "; ".join(_fact_str(fc, names) for fc in gs), loc(st["line"]))
    result = fa.defterm(st["dest"]["local"], sb, len(f.blocks[sb]["stmts"]), "call")
    # stores to index
    stores = [e for e in fa.mem_events() if e[0] == "store"]
    # stores into fields other than data / index (a frame counter, statistics) are not this rule's business: I-state decides that such
    # fields never flow back into data, index, the scanner's argument, a branch or the result
    def _other_store(e):
        P_ = fa.objpath(e[3]["place"], (e[1], e[2]))
        return P_.op == "pf" and P_.args[0] is self_obj and P_.args[1] not in (i_data, i_index)
    stores = [e for e in stores if not _other_store(e)]
    oks = False
    sd = ""
    if len(stores) == 1:
        _, eb, ei, s = stores[0]
        P = fa.objpath(s["place"], (eb, ei))
        v = fa.rv_term(s["rv"], (eb, ei))
        sd = "%s = %s" % (show(P, names), show(v, names))
        if P is mk("pf", self_obj, i_index) and v.op == "bin" and v.args[0] == "Add":
            parts = {v.args[1], v.args[2]}
            oks = parts == {index0, mk("field", result, 0)} and f.dominates(sb, eb)
    res.ob("I-iter", "iter | the only store is index = index + consumed", oks, "stores: %d ; %s" % (len(stores), sd), loc(), sample=sd)
    # return values
    for b in sorted(f.reachable()):
        for i, s in enumerate(f.blocks[b]["stmts"]):
            if s["k"] == "assign" and s["place"]["local"] == 0 and not s["place"]["proj"]:
                v = fa.rv_term(s["rv"], (b, i))
                if f.dominates(sb, b) and b != sb:
                    res.ob("I-iter", "iter | after the scan, next() returns the scanner's frame unchanged", v is mk("field", result, 1),
                           show(v, names), loc(s["line"]))
                else:
                    res.ob("I-iter", "iter | without a scan, next() returns None", v.op == "agg" and v.args[2] == "None", show(v, names), loc(s["line"]))
    # consumed() and new()
    g = prog.fn("MsgFrameIter::consumed")
    if g is None:
        res.missing("I-iter", "MsgFrameIter::consumed")
    else:
        res.fn(g)
        ga = FA(g, prog)
        v = ga.end_val(0, g.return_blocks()[0])
        x = strip_ref(v)
        res.ob("I-iter", "iter | consumed() returns index", x.op == "pf" and x.args[1] == i_index and x.args[0].op == "mem", show(v, ga.names), g.loc)
    g = prog.fn("MsgFrameIter::new")
    if g is None:
        res.missing("I-iter", "MsgFrameIter::new")
    else:
        res.fn(g)
        ga = FA(g, prog)
        v = ga.end_val(0, g.return_blocks()[0])
        ok = v.op == "agg" and len(v.args[3]) == len(fields) and v.args[3][i_index].op == "const" and const_val(v.args[3][i_index]) == 0 \
            and strip_ref(v.args[3][i_data]).op == "arg"
        res.ob("I-iter", "iter | new(data) = {data, index: 0}", ok, show(v, ga.names), g.loc)
    import statefields
    statefields.rule_other_state(prog, res, "I-state", "iter", "MsgFrameIter", fields, ("data", "index"), [ITER_NEXT, "MsgFrameIter::consumed"], "MsgFrameIter::",
                                 what="data, index, the scanner's argument, a branch or the value returned by next() / consumed()")
