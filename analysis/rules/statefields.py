"""Taint rule for state added to a struct whose other fields carry a property: the extra fields may be counted, cached or logged, but their
values must not flow into the fields the property is about, into a branch, into a call into the crate, or into the return value."""


def _short(p):
    return p.rsplit("::", 1)[1] if "::" in p else p


# ------------------------------------------------------------------ T-state: no builder state besides data / has_run reaches the frame
def _places_of_operand(o):
    return [o["place"]] if o and o.get("k") in ("copy", "move") else []


def _rv_places(rv):
    """(places read, places borrowed) by an rvalue"""
    k = rv["k"]
    reads, borrows = [], []
    if k in ("use", "cast", "repeat", "shallowinitbox"):
        reads += _places_of_operand(rv.get("op"))
    elif k == "unop":
        reads += _places_of_operand(rv.get("a"))
    elif k in ("binop", "checked"):
        reads += _places_of_operand(rv.get("a")) + _places_of_operand(rv.get("b"))
    elif k == "aggregate":
        for o in rv.get("ops", []):
            reads += _places_of_operand(o)
    elif k in ("ref", "rawptr"):
        borrows.append(rv["place"])
    elif k in ("discr", "len", "copyforderef"):
        reads.append(rv["place"])
    else:
        for v in rv.values():
            if isinstance(v, dict) and "place" in v and v.get("k") in ("copy", "move"):
                reads.append(v["place"])
            elif isinstance(v, dict) and "local" in v and "proj" in v:
                reads.append(v)
    return reads, borrows


def rule_other_state(prog, res, rule, key, tyname, fields, keep, roots, method_prefix, what):
    """T-state: when MessageBuilder has fields besides `data` and `has_run`, their values must not reach the frame: in build_message and the
    MessageBuilder methods it calls, a value read from such a field flows only into stores to such fields (local taint analysis on MIR;
    a branch, a store into data / has_run / the return value, or a call into the crate with such a value is reported)."""
    others = [i for i, n in enumerate(fields) if n not in keep]
    if not others:
        res.ob(rule, "%s | %s has no state besides %s" % (key, tyname, " and ".join(keep)), True, str(fields))
        return
    names = [fields[i] for i in others]
    todo = list(roots)
    seen = set()
    problems = []
    while todo:
        path = todo.pop()
        if path in seen:
            continue
        seen.add(path)
        f = prog.fn(path)
        if f is None:
            continue
        res.fn(f)
        blocks = f.rec["blocks"]

        def first_field(pl):
            pr = pl["proj"]
            j = 0
            while j < len(pr) and pr[j]["k"] == "deref":
                j += 1
            return pr[j]["i"] if 0 < j < len(pr) and pr[j]["k"] == "field" else None

        def other_place(pl, selfs):
            return pl["local"] in selfs and first_field(pl) in others

        def kept_place(pl, selfs):
            i = first_field(pl)
            return pl["local"] in selfs and i is not None and i not in others

        def whole_self(pl, selfs):
            return pl["local"] in selfs and all(p["k"] == "deref" for p in pl["proj"])

        selfs = {1}          # locals holding the &mut MessageBuilder (reborrows of *self included)
        taint = set()        # locals holding a value (or a pointer to a value) derived from another field
        changed = True
        local_problems = []
        while changed:
            changed = False
            local_problems = []
            for bi, blk in enumerate(blocks):
                if blk.get("cleanup"):
                    continue
                for st in blk["stmts"]:
                    if st["k"] != "assign":
                        continue
                    rv, dst = st["rv"], st["place"]
                    reads, borrows = _rv_places(rv)
                    # reborrow of the whole builder
                    if rv["k"] in ("ref", "rawptr", "copyforderef") and whole_self(rv["place"], selfs) and not dst["proj"]:
                        if dst["local"] not in selfs:
                            selfs.add(dst["local"]); changed = True
                        continue
                    if rv["k"] == "use" and rv["op"].get("k") in ("copy", "move") and whole_self(rv["op"]["place"], selfs) and not dst["proj"]:
                        if dst["local"] not in selfs:
                            selfs.add(dst["local"]); changed = True
                        continue
                    t = any(other_place(pl, selfs) or pl["local"] in taint for pl in reads + borrows)
                    if not t:
                        continue
                    if not dst["proj"] and dst["local"] != 0:
                        if dst["local"] not in taint:
                            taint.add(dst["local"]); changed = True
                    elif other_place(dst, selfs) or (dst["local"] in taint):
                        pass                                   # stored back into builder state that is not the frame
                    else:
                        local_problems.append("%s: a value derived from field %s is stored into %s (line %s)" % (
                            _short(path), "/".join(names), "the return value" if dst["local"] == 0 else
                            (" / ".join(keep) if kept_place(dst, selfs) else "_%d%s" % (dst["local"], "".join("." + p["k"] for p in dst["proj"]))), st.get("line")))
                tm = blk["term"]
                k = tm["k"]
                if k in ("switch", "assert"):
                    o = tm.get("discr") or tm.get("cond")
                    for pl in _places_of_operand(o):
                        if pl["local"] in taint or other_place(pl, selfs):
                            local_problems.append("%s: control flow depends on field %s (%s at line %s)" % (_short(path), "/".join(names), k, tm.get("line")))
                elif k == "call":
                    callee = tm.get("resolved") or tm.get("callee")
                    args = tm.get("args", [])
                    targ = [a for a in args for pl in _places_of_operand(a) if pl["local"] in taint or other_place(pl, selfs)]
                    sarg = [a for a in args for pl in _places_of_operand(a) if whole_self(pl, selfs)]
                    if sarg:
                        if callee in prog.fns and callee.startswith(method_prefix):
                            todo.append(callee)
                        else:
                            local_problems.append("%s: the whole value is handed to %s (line %s)" % (_short(path), callee, tm.get("line")))
                    if targ:
                        d = tm.get("dest")
                        if callee in prog.fns:
                            local_problems.append("%s: a value derived from field %s is passed to the crate function %s (line %s)" % (
                                _short(path), "/".join(names), callee, tm.get("line")))
                        elif d is not None:
                            if not d["proj"] and d["local"] != 0:
                                if d["local"] not in taint:
                                    taint.add(d["local"]); changed = True
                            elif not (other_place(d, selfs) or d["local"] in taint):
                                local_problems.append("%s: the result of %s on field %s is stored into the frame or the return value (line %s)" % (
                                    _short(path), callee, "/".join(names), tm.get("line")))
        problems += local_problems
    res.ob(rule, "%s | fields other than %s (%s) never reach %s" % (key, " / ".join(keep), ", ".join(names), what),
           not problems, "; ".join(sorted(set(problems)))[:600] or "analysed %s" % sorted(x.rsplit("::", 1)[1] for x in seen), None,
           sample={"fields": names, "functions": sorted(seen)})



