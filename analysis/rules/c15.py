"""C15: lists of every admissible length survive; counts and capacities agree."""
import lists
import panics
import bitio
import dispatch
import engine

META = {
    "level": "other",
    "trusted_base": ["DataVec<_, N>::len() <= N (type-level capacity)", "Range<usize> yields start..end in order", "rustc MIR construction", "mirfacts exporter"],
    "explanation": "For the 9 frag_vec, 23 frag_vec_with_len and 2 descriptor-string codecs (floors) and the 9 messages with a mid-header count: "
                   "(K-adeq) the capacity in the list's TYPE is <= 2^w - 1 of the count field it is written to, so the on-wire count cannot wrap; the "
                   "count written is the length of the same vector the write loop iterates (G-count); decoders read one count, guard it against the "
                   "capacity (accepting exactly 0..=N, rejecting with CapacityExceeded), then read exactly count elements pushing each once in order "
                   "(K-guard, G-count; push safety is C02's P-push); (K-fit) the static maximum bit length of every list-bearing message with all loops "
                   "at their capacity is <= 8172; (E-prop) every fallible call in the decode closure is propagated with ?, returned or matched, so a "
                   "short body (BufferOverflow) or an over-capacity count reaches from_message_frame's Corrupt mapping (E-map)."
                   "(B-sem) the bit-exact reading of put / parse these clauses stand on (field bits MSB first at the cursor, nothing else touched) is the abstract interpretation of C07, imported and decided here too. Completeness and integrity: the decoded list is mutated only by the loop's push (no pop / truncate / reorder afterwards), encoders propagate every element error (E-prop on the encode closure), and message 1029's count-prefixed text is covered through X-lim / X-utf8 (counts, limits, 'no byte is skipped', 'the text is exactly the counted bytes'), and X-cap of C17 for ArrayString (a text that fills the capacity keeps its last character: try_push refuses a character exactly when it does not fit).",
    "assumptions": ["MSM and code-bias structures are covered by C10 / C16"],
}


def run(ctx, res):
    prog = ctx.prog("K0")
    import rejects, re
    rejects.rule_encode_reject_inventory(prog, res, only=re.compile(r'(_vec::encode|df_desc_str\\w*::encode|Assembler::put)$'))
    mods = lists.rule_lists(prog, res)
    lists.rule_fit(prog, res, mods)
    cl = panics.closure(prog, panics.DEC_ROOTS)
    lists.rule_error_propagation(prog, res, cl)
    # the encoders propagate every error too: a swallowed Err (out-of-range element, full buffer) would let build_message succeed with a
    # partly written element, and the frame would not decode to the message that was given
    import panics as _p
    lists.rule_error_propagation(prog, engine.Filtered(res, {"E-prop"}), _p.closure(prog, _p.ENC_ROOTS), side="encode", floor=1000 if "all_msgs" in set(prog.crate["features"]) else 1)
    dispatch.decode_table(prog, engine.Filtered(res, {"E-map"}, ("return-shape", "corrupt-arm", "typed-arm", "arm-complete", "default-arm", "empty-arm")), rule="E-map")
    # "a body shorter than its counts imply is Corrupt" rests on the parser seeing exactly the payload: data() = input[3..L+3] (A-out / A-sem,
    # not the checksum bytes behind it) and from_message_frame building its Parser over data() at bit 12 (D-par)
    import framing
    m_ = framing.rules_new(prog, engine.Filtered(res, {"A-out", "A-shape"}))
    dec_ = dispatch.decode_table(prog, engine.Filtered(res, set()))
    if dec_:
        dispatch.parser_rule(prog, engine.Filtered(res, {"D-par"}), dec_)
    bitio.rule_guard_cursor(prog, res, bitio.PARSE, 2)
    bitio.import_transport(prog, res, signed=False)
    # message 1029's text is a count-prefixed string as well (character count, byte count, bytes): its count / limit / byte-loop rules
    import textrules
    textrules.rule_limits(prog, engine.Filtered(res, {"X-lim"}))
    textrules.rule_utf8_writers(prog, engine.Filtered(res, {"X-utf8"}, key_prefixes=("1029 decode",)))
    # "decoding returns exactly that many elements" for a text that fills the capacity: the decoder goes through ArrayString::from(&str), which must
    # keep every character that fits (S135: a capacity test one byte too strict drops the last character of a 255-byte text)
    textrules.rule_capacity(prog, engine.Filtered(res, {"X-cap"}, key_contains={"X-cap": ("ArrayString", "array_string")}))
