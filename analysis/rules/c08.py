"""C08: every data field is lossless on its grid and has exactly one 'absent' pattern."""
import fieldmodel

META = {
    "level": "proof",
    "exhaustive": True,
    "trusted_base": ["IEEE-754 round-to-nearest semantics of Rust f32/f64 arithmetic, exact int->float conversion below 2^t, saturating float->int `as`",
                     "Parser::parse::<IT>(w) returns every w-bit pattern as the value range of its kind and put writes the low w bits (C07's assumed part)",
                     "rustc MIR construction", "mirfacts exporter"],
    "explanation": "For each df! field (floor 309) the decode and encode bodies are matched against the field templates by term dataflow (one parse, "
                   "value = cast(p)[*res][+bias], optional absent test p == INV; encode: optional is_none -> put(INV), optional bias guard and "
                   "subtraction, optional division, optional rounding template, cast, one put). Obligations, discharged with exact rational arithmetic on "
                   "the extracted constants (floats taken as their exact binary values): both directions agree on carrier/width/res/bias/INV; "
                   "1 <= W <= BITS; INV is a representable W-bit pattern (so exactly one pattern is absent); integer fields: no overflow and exact inverse; "
                   "float fields: |p| <= 2^t (exact conversion), finite results, round-half-away template, and the forward-error bound of "
                   "decode->encode is below 1/2 - u(|p|+1) for the largest pattern, hence E(D(p)) = p for every p (all 2^W patterns, including the "
                   "34-38-bit fields). A body that does not match the templates is a violation (fail closed). The hand-written SSR lists (1059 / 1065 / 1230) are covered by their quantiser rule (Q-quant) and, for their integer fields (satellite id, signal code, counts), by C16's mask / count / flow clauses, imported: every id pattern of the field's width is accepted by the encoder and written under its own id. Message level: the dispatch tables pair number n with the decode / encode of one macro-built codec module (C14's D-coh, imported), so no message edits a field on its way to or from the field codec.",
    "assumptions": ["the negative-zero pattern of sign-magnitude fields is the allowed exception (not a W-bit value of parse's range)"],
}


def run(ctx, res):
    prog = ctx.prog("K0")
    fieldmodel.check_fields(prog, res, prop="C08")
    fieldmodel.check_handwritten(prog, res, prop="C08")
    # the hand-written SSR lists also carry plain integer fields (satellite id, signal code, counts) whose every pattern must survive
    # decode -> encode: the encoder has to accept the whole range of the id field and write each group under its own id (C16's Q-mask / Q-pred /
    # Q-flow clauses, imported)
    import ssr, engine
    view = engine.Filtered(res, {"Q-mask", "Q-cnt", "Q-pred", "Q-flow", "Q-1230", "K-adeq"})
    ssr.rule_count_fields(prog, view)
    ssr.rule_value_flow(prog, view)
    # "every numeric data field of every supported message": a message reaches its fields through its codec module - the dispatch tables must
    # send number n to msgN::decode / msgN::encode of one module, the macro-built one (D-coh codec-module; a wrapper that edits fields on the
    # way - clearing words under a flag of a neighbouring field - is a different function)
    import dispatch
    dispatch.coherence(prog, engine.Filtered(res, {"D-coh", "T-dec"}), ctx.repo, dec_keys=dispatch.ROUNDTRIP_KEYS)
    # the field models read "carrier kind + width" as unsigned / two's-complement / sign-magnitude values: that reading is decided here
    import bitio
    bitio.rule_bitsem(prog, res)
    bitio.rule_signsem(prog, res)
