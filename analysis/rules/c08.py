"""C08: every data field is lossless on its grid and has exactly one 'absent' pattern."""
import fieldmodel

META = {
    "level": "proof",
    "exhaustive": True,
    "trusted_base": ["IEEE-754 round-to-nearest semantics of Rust f32/f64 arithmetic, exact int->float conversion below 2^t, saturating float->int `as`",
                     "Parser::parse::<IT>(w) returns every w-bit pattern as the value range of its kind and put writes the low w bits (C07's assumed part)",
                     "rustc MIR construction", "mirfacts exporter"],
    "explanation": "For each df! field (floor 309) the decode and encode bodies are matched against the field templates by term dataflow (one parse, "
                   "value = cast(p)[*res][+bias], optional absent test p == INV; encode: optional is_none -> put(INV), optional bias guard and "
                   "subtraction, optional division, optional rounding template, cast, one put). Obligations, discharged with exact rational arithmetic on "
                   "the extracted constants (floats taken as their exact binary values): both directions agree on carrier/width/res/bias/INV; "
                   "1 <= W <= BITS; INV is a representable W-bit pattern (so exactly one pattern is absent); integer fields: no overflow and exact inverse; "
                   "float fields: |p| <= 2^t (exact conversion), finite results, round-half-away template, and the forward-error bound of "
                   "decode->encode is below 1/2 - u(|p|+1) for the largest pattern, hence E(D(p)) = p for every p (all 2^W patterns, including the "
                   "34-38-bit fields). A body that does not match the templates is a violation (fail closed). The hand-written SSR lists (1059 / 1065 / 1230) are covered by their quantiser rule (Q-quant) and, for their integer fields (satellite id, signal code, counts), by C16's mask / count / flow clauses, imported: every id pattern of the field's width is accepted by the encoder and written under its own id. Message level: the dispatch tables pair number n with the decode / encode of one macro-built codec module (C14's D-coh, imported), so no message edits a field on its way to or from the field codec; (F-flow) no function of the decode / encode closures overwrites a field of a message or fragment value with a value built on the spot.",
    "assumptions": ["the negative-zero pattern of sign-magnitude fields is the allowed exception (not a W-bit value of parse's range)"],
}


def rule_field_stores(prog, res):
    """F-flow: inside the decode and encode closures a message / fragment value is only ever given field values that come from somewhere - a
    codec's result, an argument, another field.  A store of a value built on the spot (a literal, `None`) into a field of such a value - clearing a
    word when a neighbouring flag says so, blanking a rate next to an absent phase - edits the field between its codec and the user: decode then
    encode no longer reproduces the pattern, whatever the field codec does."""
    import panics
    from terms import FA, subterms, show

    def base_tys(f, place):
        ty = f.locals[place["local"]]
        out = []
        for p_ in place["proj"]:
            if p_["k"] == "deref":
                ty = ty.get("to", {})
            elif p_["k"] == "field":
                out.append(ty)
                ty = p_.get("ty", {})
            elif p_["k"] in ("index", "constindex"):
                ty = ty.get("elem", {})
        return out
    cl = set(panics.closure(prog, panics.ENC_ROOTS)) | set(panics.closure(prog, panics.DEC_ROOTS))
    n = 0
    for p in sorted(cl):
        f = prog.fns.get(p)
        if f is None:
            continue
        fa = None
        for b in sorted(f.reachable()):
            for i, s in enumerate(f.blocks[b]["stmts"]):
                if not (s["k"] == "assign" and any(x["k"] == "field" for x in s["place"]["proj"])):
                    continue
                hit = [t.get("path") for t in base_tys(f, s["place"]) if t.get("k") == "adt" and (t.get("path") or "").startswith(("msg::", "df::dfs::"))
                       and not (t.get("path") or "").endswith("MessageBuilder")]
                if not hit:
                    continue
                n += 1
                fa = fa or FA(f, prog)
                v = fa.rv_term(s["rv"], (b, i))
                if not any(x.op in ("call", "arg", "mem", "memval", "phi", "loc", "havoc") for x in subterms(v)):
                    res.fn(f)
                    res.ob("F-flow", "%s | a field of %s is overwritten with a value built on the spot" % (p, hit[0]), False,
                           "stored: %s" % show(v, fa.names)[:120], {"file": f.loc["file"], "line": s.get("line") or f.loc["line"]})
    res.ob("F-flow", "codec closures | field stores into message / fragment values carry codec results, arguments or other fields (never a value built on the spot)",
           True, "%d stores examined" % n, None, sample={"stores": n})
    if "all_msgs" in set(prog.crate["features"]):
        res.floor("F-flow", "field stores examined", n, 300)


def run(ctx, res):
    prog = ctx.prog("K0")
    fieldmodel.check_fields(prog, res, prop="C08")
    fieldmodel.check_handwritten(prog, res, prop="C08")
    # the hand-written SSR lists also carry plain integer fields (satellite id, signal code, counts) whose every pattern must survive
    # decode -> encode: the encoder has to accept the whole range of the id field and write each group under its own id (C16's Q-mask / Q-pred /
    # Q-flow clauses, imported)
    import ssr, engine
    view = engine.Filtered(res, {"Q-mask", "Q-cnt", "Q-pred", "Q-flow", "Q-1230", "K-adeq"})
    ssr.rule_count_fields(prog, view)
    ssr.rule_value_flow(prog, view)
    # "every numeric data field of every supported message": a message reaches its fields through its codec module - the dispatch tables must
    # send number n to msgN::decode / msgN::encode of one module, the macro-built one (D-coh codec-module; a wrapper that edits fields on the
    # way - clearing words under a flag of a neighbouring field - is a different function)
    import dispatch
    dispatch.coherence(prog, engine.Filtered(res, {"D-coh", "T-dec"}), ctx.repo, dec_keys=dispatch.ROUNDTRIP_KEYS)
    rule_field_stores(prog, res)
    # the field models read "carrier kind + width" as unsigned / two's-complement / sign-magnitude values: that reading is decided here
    import bitio
    bitio.rule_bitsem(prog, res)
    bitio.rule_signsem(prog, res)
