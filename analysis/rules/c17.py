"""C17: text fields are preserved exactly or cut on a character boundary."""
import textrules
import lists

META = {
    "level": "other",
    "trusted_base": ["core: str::chars yields the characters in order, char::len_utf8 / encode_utf8 agree, char::from_u32(c) is Some for c <= 255, "
                     "str::from_utf8 accepts exactly valid UTF-8", "tinyvec 1.13.3", "rustc MIR construction", "mirfacts exporter"],
    "explanation": "from_char / to_char / push touch their argument only through comparisons with constants, so they are decided by finite case "
                   "analysis over the regions those constants induce: from_char is the identity exactly on code 1..=255 and 0xA4 elsewhere, to_char maps "
                   "0 to U+00A4 and c to U+00c, push maps byte 0 to 0xA4. try_push of both string types writes only under len + n <= capacity (n = 1 or "
                   "len_utf8(ch), and the slice written is encode_utf8 of that same ch), refuses without writing otherwise; from_iter / From<&str> break at "
                   "the first refusal (longest prefix of whole characters); ArrayString's bytes are private and written only by try_push, so deref's "
                   "from_utf8().unwrap() cannot fail; 1029 decode accepts text only on the Ok arm of from_utf8 and reports InvalidUtf8String otherwise; "
                   "1029 encode refuses more than 127 characters / 255 bytes, which are exactly the capacities of the 7- and 8-bit count fields; the "
                   "descriptor codecs write len then the bytes and read them back under a capacity guard (C15 rules)."
                   "(B-sem) the bit-exact reading of put / parse these clauses stand on (field bits MSB first at the cursor, nothing else touched) is the abstract interpretation of C07, imported and decided here too. The prefix loops and the 1029 byte loop are driven by the input's own iterator (no take / skip / filter adaptor) and perform their push / write on every iteration (X-cap, X-lim); a bulk copy of a &str prefix cut at a character boundary is accepted as a second writer idiom with its own lemma (bulk_prefix_writer).",
    "assumptions": [],
}


def run(ctx, res):
    prog = ctx.prog("K0")
    textrules.rule_char_maps(prog, res)
    textrules.rule_witness_privacy(prog, res)
    textrules.rule_capacity(prog, res)
    textrules.rule_utf8_writers(prog, res)
    textrules.rule_limits(prog, res)
    lists.rule_strings(prog, res)
    import bitio
    bitio.import_transport(prog, res, signed=False)
