"""MSM data segment rules (C10; M-guards is also relied on by C09's residue)."""
import re
from terms import FA, show, mk, ty_of, is_const, const_val, T, subterms, same_agg_through_phi
from facts import callee_of
from intervals import Intervals
from algebra import fact_of_guard, canon_le, lin
import libmodel

_CELLSEM = {}
ENC_RE = re.compile(r"msg::msg1\d{3}::msg1\d{3}_data::encode")
DEC_RE = re.compile(r"msg::msg1\d{3}::msg1\d{3}_data::decode")
ERR = "rtcm_error::RtcmError"
WANTED = ("InvalidSatelliteId", "DuplicateSatellite", "InvalidSignalId", "SatelliteMismatch", "DuplicateSatelliteSignal",
          "InvalidSatelliteSignalCount")


def msm_functions(prog, rx):
    return [f for p, f in sorted(prog.fns.items()) if rx.fullmatch(p)]


def or_updates(fa, t, depth=0):
    """For an accumulator phi t: the terms d such that some operand is BitOr(t, d) (through inner phis); None if other shapes."""
    out = []
    inits = []
    for pb, v in fa.phi_operands(t):
        r = _or_delta(fa, v, t, 0)
        if r is None:
            inits.append(v)
        elif r != "self":
            out.extend(r)
    return inits, out


def _or_delta(fa, v, t, depth):
    if v is t:
        return "self"
    if depth > 4:
        return None
    if v.op == "bin" and v.args[0] == "BitOr" and (v.args[1] is t or v.args[2] is t):
        return [v.args[2] if v.args[1] is t else v.args[1]]
    if v.op == "phi":
        out = []
        for qb, w in fa.phi_operands(v):
            r = _or_delta(fa, w, t, depth + 1)
            if r is None:
                return None
            if r != "self":
                out.extend(r)
        return out if out else "self"
    return None


def or_update_sites(fa, t, v=None, pb=None, depth=0):
    """[(block the update arrives from, d)] for every operand BitOr(t, d) of the accumulator phi t (through inner phis)"""
    out = []
    if v is None:
        for qb, w in fa.phi_operands(t):
            out.extend(or_update_sites(fa, t, w, qb, depth + 1))
        return out
    if depth > 5 or v is t:
        return out
    if v.op == "bin" and v.args[0] == "BitOr" and (v.args[1] is t or v.args[2] is t):
        return [(pb, v.args[2] if v.args[1] is t else v.args[1])]
    if v.op == "phi":
        for qb, w in fa.phi_operands(v):
            out.extend(or_update_sites(fa, t, w, qb, depth + 1))
    return out


def err_returns(f, fa):
    out = []
    for b in sorted(f.reachable()):
        for i, s in enumerate(f.blocks[b]["stmts"]):
            if s["k"] == "assign" and s["place"]["local"] == 0 and not s["place"]["proj"]:
                v = fa.rv_term(s["rv"], (b, i))
                if v.op == "agg" and v.args[2] == "Err" and v.args[3]:
                    e_ = same_agg_through_phi(fa, v.args[3][0])
                    if e_.op == "agg" and e_.args[0] == ERR:
                        out.append((b, e_.args[2], s["line"]))
    return out


def is_bit(t, width_const):
    """t == 1 << (W - x) : returns x"""
    if t.op == "bin" and t.args[0] == "Shl" and is_const(t.args[1]) and const_val(t.args[1]) == 1:
        a = t.args[2]
        while a.op == "cast" and a.args[0] == "IntToInt":
            # a widening conversion of the unsigned shift amount (`shift.into()`, `as u32`) does not change it
            sty, dty = ty_of(a.args[1]), ty_of(a)
            if not (sty and dty and sty.get("k") == "uint" and dty.get("k") in ("uint", "int") and int(sty.get("bits") or 64) <= int(dty.get("bits") or 64)):
                break
            a = a.args[1]
        if a.op == "bin" and a.args[0] == "Sub" and is_const(a.args[1]) and const_val(a.args[1]) == width_const:
            return a.args[2]
    return None


def rule_guards(prog, res, floor=49):
    """M-guards / M-range / M-bit / M-cell on every MSM data-segment encoder."""
    fs = msm_functions(prog, ENC_RE)
    active = set(prog.crate["features"])
    if "all_msgs" in active:
        res.floor("M-guards", "MSM data segment encoders", len(fs), floor)
    for f in fs:
        res.fn(f)
        _encode_rules(prog, res, f)
    return fs


def _encode_rules(prog, res, f):
    fa = FA(f, prog)
    iv = Intervals(fa, prog)
    names = fa.names
    tag = f.path
    loc = f.loc
    errs = err_returns(f, fa)
    variants = {}
    for b, v, line in errs:
        variants.setdefault(v, []).append((b, line))
    # --- presence of every rejection
    for w in WANTED:
        res.ob("M-guards", "%s | %s is returned on some path" % (tag, w), w in variants, "error variants returned: %s" % sorted(variants), loc,
               sample=sorted(variants) if w == "SatelliteMismatch" else None)
    # --- locate the three puts
    puts = [(b, fa.call_args(b), t) for b, t in f.calls() if callee_of(t) == "df::assembler::Assembler::put"]
    main = [(b, a, t) for b, a, t in puts if not (is_const(a[1]) and const_val(a[1]) == 0)]
    zero = [(b, a, t) for b, a, t in puts if is_const(a[1]) and const_val(a[1]) == 0]
    okm = len(main) == 3
    res.ob("M-bit", "%s | three mask writes (U64.64 satellites, U32.32 signals, U64.n cells)" % tag, okm, "found %d" % len(main), loc)
    if not okm:
        return
    main.sort(key=lambda x: x[0])
    # identify by carrier/width
    sat_put = [x for x in main if libmodel.carrier_of(x[2].get("rargs") or x[2].get("cargs"))[0] == "U64" and is_const(x[1][2]) and const_val(x[1][2]) == 64]
    sig_put = [x for x in main if libmodel.carrier_of(x[2].get("rargs") or x[2].get("cargs"))[0] == "U32" and is_const(x[1][2]) and const_val(x[1][2]) == 32]
    cell_put = [x for x in main if x not in sat_put and x not in sig_put]
    if not (len(sat_put) == 1 and len(sig_put) == 1 and len(cell_put) == 1):
        res.ob("M-bit", "%s | mask writes have the standard carriers and widths" % tag, False, "", loc)
        return
    order_ok = f.dominates(sat_put[0][0], sig_put[0][0]) and f.dominates(sig_put[0][0], cell_put[0][0])
    res.ob("M-bit", "%s | masks are written in the order satellites, signals, cells" % tag, order_ok, "", loc)
    sat_acc, sig_acc, cell_acc = sat_put[0][1][1], sig_put[0][1][1], cell_put[0][1][1]
    ccl = cell_put[0][1][2]
    # --- satellite mask accumulator
    sat_id_terms = []
    okb = False
    d = show(sat_acc, names)
    if sat_acc.op == "phi":
        inits, ups = or_updates(fa, sat_acc)
        xs = [is_bit(u, 64) for u in ups]
        okb = bool(ups) and all(x is not None for x in xs) and all(is_const(i) and const_val(i) == 0 for i in inits) \
            and ty_of(sat_acc).get("bits") == 64
        sat_id_terms = [(u, x) for u, x in zip(ups, xs) if x is not None]
        d = "updates: %s" % [show(u, names) for u in ups]
    res.ob("M-bit", "%s | satellite mask = OR of 1 << (64 - satellite_id), starting from 0" % tag, okb, d, loc, sample=d)
    okb = False
    sig_terms = []
    d = show(sig_acc, names)
    if sig_acc.op == "phi":
        inits, ups = or_updates(fa, sig_acc)
        xs = [is_bit(u, 32) for u in ups]
        okk = []
        for x in xs:
            # x = Some-payload of to_id(signal_id)
            okk.append(x is not None and x.op == "field" and x.args[0].op == "downcast" and x.args[0].args[1] == 1 and x.args[0].args[0].op == "call"
                       and x.args[0].args[0].args[0].startswith("msg::msm_mappings::") and x.args[0].args[0].args[0].endswith("::to_id"))
        okb = bool(ups) and all(okk) and all(is_const(i) and const_val(i) == 0 for i in inits) and ty_of(sig_acc).get("bits") == 32
        sig_terms = xs
        d = "updates: %s" % [show(u, names) for u in ups]
    res.ob("M-bit", "%s | signal mask = OR of 1 << (32 - to_id(signal_id)), starting from 0" % tag, okb, d, loc)
    # --- M-all: every row contributes.  An iteration of a row loop either returns an error or passes the mask update (and, in the signal loop,
    #     the push onto the cell list): the updating block dominates every back edge of its loop.  A `continue` in front of the update would
    #     leave a row out of the masks while the fragments still write its data.
    def _update_blocks(acc):
        out = []
        for b in sorted(f.reachable()):
            for i, s_ in enumerate(f.blocks[b]["stmts"]):
                if s_["k"] == "assign" and s_["rv"]["k"] == "binop" and s_["rv"]["op"] == "BitOr":
                    v = fa.rv_term(s_["rv"], (b, i))
                    if v.op == "bin" and (v.args[1] is acc or v.args[2] is acc):
                        out.append(b)
        return out
    loops = f.loops()
    backs = {}
    for (src_, h_) in f.back_edges():
        backs.setdefault(h_, []).append(src_)
    for nm, acc in (("satellite", sat_acc), ("signal", sig_acc), ("cell", cell_acc)):
        if acc.op != "phi" or acc.args[2] not in loops:
            continue
        h_ = acc.args[2]
        ub = _update_blocks(acc)
        okall = bool(ub) and all(any(f.dominates(u, l_) for u in ub) for l_ in backs.get(h_, []))
        res.ob("M-all", "%s | every %s row that is not refused updates the %s mask (the update dominates every back edge of its loop)" % (tag, "cell" if nm == "cell" else nm, nm),
               okall, "update blocks %s, back edges from %s" % (ub, backs.get(h_)), loc)
        if nm == "signal":
            body = loops[h_]
            pushes = [b for b, t in f.calls() if b in body and callee_of(t) == "tinyvec::ArrayVec::<A>::push"]
            okp = len(pushes) == 1 and all(f.dominates(pushes[0], l_) for l_ in backs.get(h_, []))
            res.ob("M-all", "%s | every signal row that is not refused is pushed onto the cell list" % tag, okp, "push blocks %s" % pushes, loc)
    # --- M-range: at every mask update the satellite id interval is exactly [1, 64]
    # (all Shl(1, 64 - x) terms on u64 in the function)
    shl_sites = []
    for b in sorted(f.reachable()):
        for i, s in enumerate(f.blocks[b]["stmts"]):
            if s["k"] == "assign" and s["rv"]["k"] == "binop" and s["rv"]["op"] == "Shl":
                v = fa.rv_term(s["rv"], (b, i))
                x = is_bit(v, 64)
                if x is not None and ty_of(v) and ty_of(v).get("bits") == 64:
                    shl_sites.append((b, x, s["line"]))
    res.ob("M-range", "%s | two satellite-bit computations (satellite rows, signal rows)" % tag, len(shl_sites) == 2, "found %d" % len(shl_sites), loc)
    ivx = Intervals(fa, prog, use_asserts=False)
    for b, x, line in shl_sites:
        ii = ivx.interval(x, b)
        res.ob("M-range", "%s | satellite id accepted for the mask is exactly 1..=64 (%s)" % (tag, show(x, names)), ii == (1, 64),
               "interval of the id where its bit is computed: %s" % (ii,), {"file": loc["file"], "line": line}, sample={"id": show(x, names), "interval": ii})
    # --- duplicate checks: Err blocks guarded by (bit & acc) > 0 / != 0
    def dup_guard(err_name, acc_pred):
        ok = False
        dd = ""
        for b, line in variants.get(err_name, []):
            for g in fa.guards(b):
                fc = fact_of_guard(g)
                if fc[0] in ("Gt", "Ne") and is_const(fc[2]) and const_val(fc[2]) == 0 and fc[1].op == "bin" and fc[1].args[0] == "BitAnd":
                    a1, a2 = fc[1].args[1], fc[1].args[2]
                    for bit, acc in ((a1, a2), (a2, a1)):
                        if acc_pred(bit, acc):
                            ok = True
                            dd = show(fc[1], names)
        return ok, dd
    ok, dd = dup_guard("DuplicateSatellite", lambda bit, acc: acc is sat_acc and is_bit(bit, 64) is not None)
    res.ob("M-guards", "%s | DuplicateSatellite is decided by (satellite bit & satellite mask so far) != 0" % tag, ok, dd, loc)

    def dup_excluded(acc):
        """the converse: a bit is OR-ed into the accumulator only where (bit & accumulator) == 0 is established, so a repeated bit cannot pass silently"""
        sites = or_update_sites(fa, acc) if acc.op == "phi" else []
        if not sites:
            return False, "no update sites"
        for pb, d in sites:
            hit = False
            for g in fa.guards(pb):
                fc = fact_of_guard(g)
                if fc[0] in ("Le", "Eq") and is_const(fc[2]) and const_val(fc[2]) == 0 and fc[1].op == "bin" and fc[1].args[0] == "BitAnd" \
                        and ((fc[1].args[1] is d and fc[1].args[2] is acc) or (fc[1].args[2] is d and fc[1].args[1] is acc)):
                    hit = True
            if not hit:
                return False, "the update by %s (arriving from bb%d) is not dominated by the test (bit & mask) == 0" % (show(d, names)[:80], pb)
        return True, "%d update site(s)" % len(sites)
    ok, dd = dup_excluded(sat_acc)
    res.ob("M-guards", "%s | a satellite bit is added to the mask only after (bit & mask so far) == 0" % tag, ok, dd, loc)
    # --- SatelliteMismatch: Ne(sat_acc, satsig_acc)
    ok = False
    dd = ""
    satsig = None
    for b, line in variants.get("SatelliteMismatch", []):
        for g in fa.guards(b):
            fc = fact_of_guard(g)
            if fc[0] == "Ne" and sat_acc in (fc[1], fc[2]):
                other = fc[2] if fc[1] is sat_acc else fc[1]
                if other.op == "phi":
                    inits, ups = or_updates(fa, other)
                    if ups and all(is_bit(u, 64) is not None for u in ups) and all(is_const(i) and const_val(i) == 0 for i in inits):
                        ok = True
                        satsig = other
                        dd = "Ne(%s, %s)" % (show(sat_acc, names), show(other, names))
    res.ob("M-guards", "%s | SatelliteMismatch is decided by satellite mask != mask of the signal rows' satellites" % tag, ok, dd, loc)
    # --- InvalidSignalId: to_id(..) is None
    ok = False
    for b, line in variants.get("InvalidSignalId", []):
        for g in fa.guards(b):
            if g[0].op == "discr" and g[0].args[0].op == "call" and g[0].args[0].args[0].endswith("::to_id") and \
                    ((g[1] == "ne" and 1 in g[2]) or (g[1] == "eq" and g[2] == 0)):
                ok = True
    res.ob("M-guards", "%s | InvalidSignalId is decided by to_id(signal_id) == None" % tag, ok, "", loc)
    # --- count guard: Gt(ccl, 64), ccl = mask_len(sig_mask) * len(satellite_data); dominates the cell loop and the mask writes
    ok = False
    dd = show(ccl, names)
    shape = ccl.op == "bin" and ccl.args[0] == "Mul"
    if shape:
        parts = [ccl.args[1], ccl.args[2]]
        ml = [p for p in parts if p.op == "call" and p.args[0] == "msg::mask_len_u32" and p.args[1][0] is sig_acc]
        ln = [p for p in parts if p.op == "call" and p.args[0] in libmodel.LEN_FNS]
        shape = len(ml) == 1 and len(ln) == 1
    res.ob("M-cell", "%s | cell count = popcount(signal mask) * satellite_data.len()" % tag, shape, dd, loc, sample=dd)
    for b, line in variants.get("InvalidSatelliteSignalCount", []):
        for g in fa.guards(b):
            fc = fact_of_guard(g)
            c = canon_le(fc) if fc[0] in ("Lt", "Le", "Gt", "Ge") else None
            # ccl > 64  <=>  -ccl + 65 <= 0
            if c == ("le", frozenset([(ccl, -1)]), 65):
                ok = True
    res.ob("M-guards", "%s | InvalidSatelliteSignalCount is decided by cell count > 64" % tag, ok, "", loc)
    civ = iv.interval(ccl, cell_put[0][0])
    res.ob("M-guards", "%s | the cell mask is written only with at most 64 cells" % tag, civ is not None and civ[1] <= 64, "cell count interval at the write: %s" % (civ,), loc)
    # --- cell mask accumulator and cell index
    okc = False
    dd = show(cell_acc, names)
    cidx = None
    if cell_acc.op == "phi":
        inits, ups = or_updates(fa, cell_acc)
        okc = bool(ups) and all(is_const(i) and const_val(i) == 0 for i in inits)
        for u in ups:
            # 1 << (ccl - 1 - idx)
            if not (u.op == "bin" and u.args[0] == "Shl" and is_const(u.args[1]) and const_val(u.args[1]) == 1):
                okc = False
                continue
            la, lc = lin(u.args[2])
            d_ = dict(la)
            if d_.get(ccl) != 1 or lc != -1:
                okc = False
                continue
            rest = {a: q for a, q in d_.items() if a is not ccl}
            # rest = -(sat_indx[..]*sig_len) - sig_indx[..]
            cidx = rest
        dd = "updates: %s" % [show(u, names) for u in ups]
    res.ob("M-cell", "%s | cell mask = OR of 1 << (cell_count - 1 - cell_index), starting from 0" % tag, okc, dd, loc)
    okidx = False
    dd = "" if cidx is None else "cell_index terms: %s" % ["%s * %s" % (q, show(a, names)) for a, q in cidx.items()]
    pc_rank = {64: False, 32: False}        # rank computed as a population count instead of read from a rank table
    if cidx is not None and len(cidx) == 2 and all(q == -1 for q in cidx.values()):
        mul = [a for a in cidx if a.op == "bin" and a.args[0] == "Mul"]
        idx = [a for a in cidx if a.op == "index" or _popcount_rank(prog, f, fa, a, sig_acc, 32) is not None]
        if len(mul) == 1 and len(idx) == 1:
            m_ = mul[0]
            parts = [m_.args[1], m_.args[2]]
            row = [p for p in parts if p.op == "index" or _popcount_rank(prog, f, fa, p, sat_acc, 64) is not None]
            width = [p for p in parts if p.op == "call" and p.args[0] == "msg::mask_len_u32" and p.args[1][0] is sig_acc]
            if len(row) == 1 and len(width) == 1:
                # row[0] = sat_indx[sat_id - 1] ; idx[0] = sig_indx[sig_id - 1]
                def minus1(t):
                    la, lc = lin(t)
                    return lc == -1 and len(la) == 1
                pc_rank[64] = row[0].op != "index"
                pc_rank[32] = idx[0].op != "index"
                okidx = (pc_rank[64] or (minus1(row[0].args[1]) and ty_of(row[0].args[0]) and ty_of(row[0].args[0]).get("len") == 64)) \
                    and (pc_rank[32] or (minus1(idx[0].args[1]) and ty_of(idx[0].args[0]) and ty_of(idx[0].args[0]).get("len") == 32))
                dd = "cell_index = %s * %s + %s" % (show(row[0], names), show(width[0], names), show(idx[0], names))
    res.ob("M-cell", "%s | cell index = rank(satellite) * signal count + rank(signal) (row-major)" % tag, okidx, dd, loc, sample=dd)
    ok, dd = dup_guard("DuplicateSatelliteSignal", lambda bit, acc: acc is cell_acc)
    res.ob("M-guards", "%s | DuplicateSatelliteSignal is decided by (cell bit & cell mask so far) != 0" % tag, ok, dd, loc)
    ok, dd = dup_excluded(cell_acc)
    res.ob("M-guards", "%s | a cell bit is added to the cell mask only after (bit & mask so far) == 0" % tag, ok, dd, loc)
    # --- rank tables: sat_indx[i] = counter when bit (63 - i) of the mask is set, counter += 1 (ascending loops)
    for acc_, n_ in ((sat_acc, 64), (sig_acc, 32)):
        if pc_rank[n_] and okidx:
            res.ob("M-cell", "%s | rank of an id in the %d-bit mask = population count of the mask bits before the id's own bit (ids before it that are present)" % (tag, n_), True,
                   "over %s" % show(acc_, names), loc)
        else:
            _rank_rule(res, f, fa, iv, tag, acc_, n_, loc)
    # --- Ok returns: dominated by the passing arms of mismatch and count guards
    oks = []
    for b in sorted(f.reachable()):
        for i, s in enumerate(f.blocks[b]["stmts"]):
            if s["k"] == "assign" and s["place"]["local"] == 0 and not s["place"]["proj"]:
                v = fa.rv_term(s["rv"], (b, i))
                if v.op == "agg" and v.args[2] == "Ok":
                    oks.append(b)
    main_ok = [b for b in oks if f.dominates(cell_put[0][0], b)]
    okd = len(main_ok) == 1
    if okd and satsig is not None:
        facts = [fact_of_guard(g) for g in fa.guards(main_ok[0])]
        okd = any(fc[0] == "Eq" and {fc[1], fc[2]} == {sat_acc, satsig} for fc in facts)
    res.ob("M-guards", "%s | the populated-segment Ok return is dominated by satellite mask == signal rows' satellite mask" % tag, okd, "", loc)
    # --- M-empty
    oke = False
    if len(zero) == 2 and len(oks) == 2:
        early = [b for b in oks if b not in main_ok]
        if len(early) == 1:
            facts = [fact_of_guard(g) for g in fa.guards(early[0])]
            lens = [fc for fc in facts if fc[0] == "Eq" and is_const(fc[2]) and const_val(fc[2]) == 0 and fc[1].op == "call" and fc[1].args[0] in libmodel.LEN_FNS]
            ws = sorted((libmodel.carrier_of(z[2].get("rargs") or z[2].get("cargs"))[0], const_val(z[1][2])) for z in zero)
            oke = len(lens) == 2 and ws == [("U32", 32), ("U64", 64)] and all(f.dominates(z[0], early[0]) for z in zero)
    res.ob("M-empty", "%s | two empty lists encode as 64 + 32 zero mask bits and nothing else" % tag, oke, "", loc)


def _same_value(a, b):
    """a and b denote the same value, possibly read through a fresh shared reference (`*&x`)"""
    def strip(x):
        while x.op in ("memval", "mem", "ref") and x.args:
            x = x.args[0]
        return x
    return a is b or strip(a) is strip(b)


def _popcount_rank(prog, f, fa, term, acc, n):
    """term = r(id) for a closure  r = |id| (mask >> (n - id)).count_ones() as usize - 1  whose captured mask is the accumulator `acc`:
    the number of ids before `id` that are present in the mask (id's own bit, n - id, is the lowest one counted and is taken off again).
    Returns the id term, or None."""
    # second form, written in place (or in a helper the pre-pass inlined):  (mask & !(MAX >> (id - 1))).count_ones()  - the set bits among the
    # id - 1 most significant ones, i.e. the ids before `id` that are present
    x0 = term
    while x0.op == "cast":
        x0 = x0.args[1]
    if x0.op == "call" and isinstance(x0.args[0], str) and x0.args[0].endswith("<impl u%d>::count_ones" % n) and len(x0.args[1]) == 1:
        a0 = x0.args[1][0]
        if a0.op == "bin" and a0.args[0] == "BitAnd":
            for m_, k_ in ((a0.args[1], a0.args[2]), (a0.args[2], a0.args[1])):
                if not _same_value(m_, acc):
                    continue
                if k_.op == "un" and k_.args[0] == "Not":
                    sh_ = k_.args[1]
                elif k_.op == "not":
                    sh_ = k_.args[0]
                else:
                    continue
                if sh_.op == "bin" and sh_.args[0] == "Shr" and is_const(sh_.args[1]) and const_val(sh_.args[1]) == (1 << n) - 1:
                    sa_, sc_ = lin(sh_.args[2])
                    if sc_ == -1 and len(sa_) == 1 and list(sa_)[0][1] == 1:
                        return list(sa_)[0][0]
        return None
    if not (term.op == "call" and isinstance(term.args[0], str) and "{closure" in term.args[0] and term.args[0] in prog.fns and len(term.args[1]) == 2):
        return None
    # the closure value: one definition, capturing the mask
    c = term.args[1][0]
    while c.op in ("ref", "mem", "memval"):
        c = c.args[0]
    if c.op != "loc":
        return None
    defs = [(b, i, s) for b in sorted(f.reachable()) for i, s in enumerate(f.blocks[b]["stmts"])
            if s["k"] == "assign" and s["place"]["local"] == c.args[1]]
    if len(defs) != 1 or defs[0][2]["place"]["proj"] or defs[0][2]["rv"]["k"] != "aggregate" or defs[0][2]["rv"].get("agg") != "closure":
        return None
    b, i, s = defs[0]
    clo = fa.rv_term(s["rv"], (b, i))
    if not (clo.op == "closure" and clo.args[0] == term.args[0] and len(clo.args[1]) == 1):
        return None
    cap = clo.args[1][0]
    while cap.op in ("ref", "mem", "memval"):
        cap = cap.args[0]
    if cap.op == "loc":
        cap = fa.val(cap.args[1], (b, i))
    if not _same_value(cap, acc):
        return None
    it = term.args[1][1]
    if not (it.op == "tuple" and len(it.args[0]) == 1):
        return None
    cf = prog.fns[term.args[0]]
    ca = FA(cf, prog)
    rets = cf.return_blocks()
    if len(rets) != 1 or cf.loops():
        return None
    la, lc = lin(ca.end_val(0, rets[0]))
    if lc != -1 or len(la) != 1 or list(la)[0][1] != 1:
        return None
    x = list(la)[0][0]
    while x.op == "cast":
        x = x.args[1]
    if not (x.op == "call" and x.args[0].endswith("<impl u%d>::count_ones" % n) and len(x.args[1]) == 1):
        return None
    sh = x.args[1][0]
    if not (sh.op == "bin" and sh.args[0] == "Shr"):
        return None
    m = sh.args[1]
    while m.op in ("ref", "mem", "memval"):
        m = m.args[0]
    if not (m.op == "pf" and m.args[1] == 0):
        return None
    root = m.args[0]
    while root.op in ("ref", "mem", "memval"):
        root = root.args[0]
    if not (root.op == "arg" and root.args[1] == 1):
        return None
    sa, sc = lin(sh.args[2])
    if sc != n or len(sa) != 1 or list(sa)[0][1] != -1:
        return None
    a = list(sa)[0][0]
    while a.op == "cast":
        a = a.args[1]
    if not (a.op == "arg" and a.args[1] == 2):
        return None
    return it.args[0][0]


def _rank_rule(res, f, fa, iv, tag, acc, n, loc):
    """an ascending loop 0..n stores counter into table[i] when (acc >> (n-1-i)) % 2 == 1 and then increments the counter"""
    found = False
    d = ""
    for b in sorted(f.reachable()):
        for i, s in enumerate(f.blocks[b]["stmts"]):
            if s["k"] == "assign" and s["place"]["proj"] and s["place"]["proj"][-1]["k"] == "index" and not any(p["k"] == "deref" for p in s["place"]["proj"]):
                lty = f.locals[s["place"]["local"]]
                if lty.get("k") == "array" and lty.get("len") == n and len(s["place"]["proj"]) == 1:
                    idx = fa.val(s["place"]["proj"][0]["local"], (b, i))
                    v = fa.rv_term(s["rv"], (b, i))
                    # idx is a Range(0, n) item
                    okr = False
                    if idx.op == "field" and idx.args[0].op == "downcast" and idx.args[0].args[0].op == "call" and idx.args[0].args[0].args[0] == libmodel.RANGE_NEXT:
                        src = libmodel.iterator_source(idx.args[0].args[0], fa)
                        if src is not None:
                            x = src[0]
                            if x.op == "call" and x.args[0] == libmodel.INTO_ITER:
                                x = x.args[1][0]
                            if x.op == "agg" and x.args[0] == "core::ops::Range" and is_const(x.args[3][0]) and const_val(x.args[3][0]) == 0 \
                                    and is_const(x.args[3][1]) and const_val(x.args[3][1]) == n:
                                okr = True
                    # guard: (acc >> (n-1-i)) % 2 == 1
                    okg = False
                    for g in fa.guards(b):
                        fc = fact_of_guard(g)
                        # the lowest bit of the shifted mask is set:  x % 2 == 1,  x & 1 == 1,  x & 1 != 0,  x % 2 != 0
                        low = len(fc) == 3 and fc[1].op == "bin" and is_const(fc[2]) and (
                            (fc[1].args[0] == "Rem" and is_const(fc[1].args[2]) and const_val(fc[1].args[2]) == 2) or
                            (fc[1].args[0] == "BitAnd" and is_const(fc[1].args[2]) and const_val(fc[1].args[2]) == 1)) and (
                            (fc[0] == "Eq" and const_val(fc[2]) == 1) or (fc[0] == "Ne" and const_val(fc[2]) == 0))
                        if low:
                            sh = fc[1].args[1]
                            if sh.op == "bin" and sh.args[0] == "Shr" and _same_value(sh.args[1], acc):
                                la, lc = lin(sh.args[2])
                                okg = dict(la) == {idx: -1} and lc == n - 1
                                if not okg and len(la) == 1:
                                    # the index read through a reference to the loop item (closure parameter `&i`)
                                    (a_, q_), = list(la)
                                    okg = q_ == -1 and lc == n - 1 and _same_value(a_, idx)
                    # stored value is the running counter: a phi accumulator with +1 updates
                    okv = v.op == "phi"
                    if okr and okg and okv:
                        found = True
                        d = "table[i] = counter under bit test on %s" % show(acc, fa.names)
                    # alternative: for (rank, id) in mask_to_id_vec_uN(mask).into_iter().enumerate() { table[id - 1] = rank }
                    #   (the id list is ascending and complete by S-asc, so the position of an id is its rank)
                    la, lc = lin(idx)
                    if not found and lc == -1 and len(la) == 1:
                        (it, q), = list(la)
                        x = it
                        if x.op == "cast":
                            x = x.args[1]
                        vv = v.args[1] if v.op == "cast" else v
                        if q == 1 and x.op == "field" and x.args[1] == 1 and vv.op == "field" and vv.args[1] == 0 and vv.args[0] is x.args[0] \
                                and x.args[0].op == "field" and x.args[0].args[0].op == "downcast" and x.args[0].args[0].args[0].op == "call" \
                                and x.args[0].args[0].args[0].args[0] == "<core::iter::Enumerate<I> as core::iter::Iterator>::next":
                            src = libmodel.iterator_source(x.args[0].args[0].args[0], fa)
                            if src is not None:
                                y = src[0]
                                chain = []
                                while y.op == "call" and y.args[1] and y.args[0] in (libmodel.INTO_ITER, "core::iter::Iterator::enumerate",
                                                                                   "<tinyvec::ArrayVec<A> as core::iter::IntoIterator>::into_iter"):
                                    chain.append(y.args[0])
                                    y = y.args[1][0]
                                if y.op == "call" and y.args[0] == "msg::mask_to_id_vec_u%d" % n and y.args[1] and y.args[1][0] is acc \
                                        and chain.count("core::iter::Iterator::enumerate") == 1:
                                    found = True
                                    d = "table[id - 1] = position of id in mask_to_id_vec_u%d(%s) (ascending by S-asc)" % (n, show(acc, fa.names))
    res.ob("M-cell", "%s | rank table of the %d-bit mask is filled by an ascending scan (bit n-1-i <-> entry i)" % (tag, n), found, d, loc)


def sibling_signature(f):
    """Structure of a function with message numbers / constellation names abstracted."""
    def norm(s):
        s = re.sub(r"msg1\d{3}", "msgN", s)
        s = re.sub(r"msm_mappings::\w+::", "msm_mappings::G::", s)
        s = re.sub(r"msm\d+(_glo)?_sat", "msmSAT", s)
        s = re.sub(r"Msg1\d{3}\w*", "MsgT", s)
        s = re.sub(r"Msm\w+", "MsgT", s)
        return s
    sig = []
    for b in sorted(f.reachable()):
        blk = f.blocks[b]
        row = []
        for s in blk["stmts"]:
            if s["k"] == "assign":
                rv = s["rv"]
                k = rv["k"]
                extra = rv.get("op") if k in ("binop", "unop") else (norm(rv.get("vname") or "") if k == "aggregate" else "")
                if k == "use" and rv["op"]["k"] == "const" and "val" in rv["op"]:
                    extra = rv["op"]["val"]
                row.append((k, str(extra), len(s["place"]["proj"])))
        t = blk["term"]
        tk = t["k"]
        extra = ""
        if tk == "call":
            extra = norm(t.get("resolved") or t.get("callee") or "?")
        elif tk == "switch":
            extra = str([v for v, _ in t["arms"]])
        elif tk == "assert":
            extra = t["kind"]
        sig.append((tuple(row), tk, extra, tuple(sorted(f.succ(b)))))
    return tuple(sig)


def rule_siblings(prog, res):
    """The 49 encoders (and decoders) are the same code up to constellation table and fragment callees."""
    for rx, what in ((ENC_RE, "encode"), (DEC_RE, "decode")):
        fs = msm_functions(prog, rx)
        sigs = {}
        for f in fs:
            sigs.setdefault(sibling_signature(f), []).append(f.path)
        res.ob("M-sib", "msm data segment %s | all instances share one normalised body" % what, len(sigs) == 1,
               "%d distinct bodies: %s" % (len(sigs), [v[:2] for v in sigs.values()][:3]), sample={"instances": len(fs)})


def rule_decode(prog, res, floor=49):
    """Decode side: count guard before the cell mask read, None -> InvalidSatelliteSignalCount, ascending reconstruction."""
    fs = msm_functions(prog, DEC_RE)
    if "all_msgs" in set(prog.crate["features"]):
        res.floor("M-order", "MSM data segment decoders", len(fs), floor)
    for f in fs:
        res.fn(f)
        fa = FA(f, prog)
        iv = Intervals(fa, prog)
        parses = [(b, fa.call_args(b), t) for b, t in f.calls() if callee_of(t) == "df::parser::Parser::parse"]
        var = [(b, a, t) for b, a, t in parses if not is_const(a[1])]
        ok = False
        d = ""
        if len(var) == 1:
            b, a, t = var[0]
            w = a[1]
            wi = iv.interval(w, b)
            shape = w.op == "bin" and w.args[0] == "Mul" and {x.args[0] for x in (w.args[1], w.args[2]) if x.op == "call"} == {"msg::mask_len_u64", "msg::mask_len_u32"}
            ok = shape and wi is not None and wi[0] >= 1 and wi[1] <= 64
            d = "cell mask width %s in %s" % (show(w, fa.names), wi)
        res.ob("M-order", "%s | the cell mask is read with popcount(sat)*popcount(sig) bits, guarded to 1..=64" % f.path, ok, d, f.loc, sample=d)
        errs = {v for b, v, line in err_returns(f, fa)}
        res.ob("M-order", "%s | an impossible cell count is rejected with InvalidSatelliteSignalCount" % f.path, "InvalidSatelliteSignalCount" in errs, str(sorted(errs)), f.loc)
    # S-asc on the shared helpers
    for name, n in (("msg::mask_to_id_vec_u64", 64), ("msg::mask_to_id_vec_u32", 32)):
        g = prog.fn(name)
        if g is None:
            res.missing("S-asc", name)
            continue
        res.fn(g)
        ga = FA(g, prog)
        pushes = [(b, ga.call_args(b)) for b, t in g.calls() if callee_of(t) == "tinyvec::ArrayVec::<A>::push"]
        ok = False
        d = ""
        if len(pushes) == 1:
            b, a = pushes[0]
            v = a[1]
            la, lc = lin(v)
            if len(la) == 1 and lc == 1:
                (it, k), = list(la)
                x = it
                if x.op == "cast":
                    x = x.args[1]
                isrange = x.op == "field" and x.args[0].op == "downcast" and x.args[0].args[0].op == "call" and x.args[0].args[0].args[0] == libmodel.RANGE_NEXT
                rng_ok = False
                if isrange:
                    src = libmodel.iterator_source(x.args[0].args[0], ga)
                    if src is not None:
                        y = src[0]
                        if y.op == "call" and y.args[0] == libmodel.INTO_ITER:
                            y = y.args[1][0]
                        rng_ok = y.op == "agg" and y.args[0] == "core::ops::Range" and is_const(y.args[3][0]) and const_val(y.args[3][0]) == 0 \
                            and is_const(y.args[3][1]) and const_val(y.args[3][1]) == n
                okg = False
                for gd in ga.guards(b):
                    fc = fact_of_guard(gd)
                    if fc[0] == "Eq" and is_const(fc[2]) and const_val(fc[2]) == 1 and fc[1].op == "bin" and fc[1].args[0] == "Rem":
                        sh = fc[1].args[1]
                        if sh.op == "bin" and sh.args[0] == "Shr" and sh.args[1].op == "arg":
                            l2, c2 = lin(sh.args[2])
                            okg = c2 == n - 1 and len(l2) == 1 and list(l2)[0][1] == -1
                ok = k == 1 and rng_ok and okg
                d = "pushes %s under the bit test" % show(v, ga.names)
        okk, dd = idvec_sem(prog, name, n)
        if okk is True:
            ok, d = True, dd
        elif okk is False:
            ok, d = False, dd           # the interpreter decided the function and it does not meet the specification
        elif not ok:
            okk2, dd2 = _idvec_semantics(prog, g, n)
            if okk2:
                ok, d = True, dd2
            else:
                d = (d + " ; " if d else "") + (dd or "") + " ; " + (dd2 or "")
        res.ob("S-asc", "%s | ids are rebuilt in ascending order: for i in 0..%d, bit (%d - i) set => push i + 1" % (name, n, n - 1), ok, d, g.loc, sample=d)
    g = prog.fn("msg::cell_mask_id_vec")
    if g is None:
        res.missing("S-asc", "msg::cell_mask_id_vec")
        return
    res.fn(g)
    ga = FA(g, prog)
    pushes = [(b, ga.call_args(b)) for b, t in g.calls() if callee_of(t) == "tinyvec::ArrayVec::<A>::push"]
    ok = False
    d = ""
    if len(pushes) == 1:
        b, a = pushes[0]
        v = a[1]
        if v.op == "tuple" and len(v.args[0]) == 2:
            s_, g_ = v.args[0]

            def idx_of(x):
                # *Index::index(&vec, i)
                y = x
                while y.op in ("memval", "mem", "ref"):
                    y = y.args[0]
                if y.op == "call" and y.args[0] == "<tinyvec::ArrayVec<A> as core::ops::Index<I>>::index":
                    return y.args[1][0], y.args[1][1]
                return None, None
            sv, si = idx_of(s_)
            gv, gi = idx_of(g_)
            if si is not None and gi is not None:
                okdiv = si.op == "bin" and si.args[0] == "Div" and gi.op == "bin" and gi.args[0] == "Rem" and si.args[1] is gi.args[1] and si.args[2] is gi.args[2]
                okvec = False
                lenarg = si.args[2] if okdiv else None
                if okdiv and lenarg.op == "call" and lenarg.args[0] == "tinyvec::ArrayVec::<A>::len":
                    sigv = lenarg.args[1][0]
                    okvec = sigv.op == "call" and sigv.args[0] == "msg::mask_to_id_vec_u32"
                ok = okdiv and okvec
                d = "pushes (sat_vec[%s], sig_vec[%s])" % (show(si, ga.names), show(gi, ga.names))
    okk, dd, nparts = cellvec_sem(prog)
    if okk is True:
        ok, d = True, dd
    elif okk is False:
        ok, d = False, dd
    else:
        d = (d + " ; " if d else "") + (dd or "")
    res.ob("S-asc", "cell_mask_id_vec | cells are rebuilt row-major: cell i -> (sat_vec[i / |sig|], sig_vec[i % |sig|])", ok, d, g.loc, sample=d)


_IDSEM = {}


def idvec_sem(prog, name, n):
    """(True | False | None, detail): if-conversion over the mask bits (guardsem); for a loop whose trip count depends on the mask
    (bit scan with leading_zeros) induction on the cleared prefix (bitscansem)"""
    key = (id(prog), name)
    if key not in _IDSEM:
        import guardsem
        okk, dd = guardsem.check_idvec(prog, name, n)
        if okk is None:
            import bitscansem
            ok2, d2 = bitscansem.check_idvec(prog, name, n)
            if ok2 is not None:
                okk, dd = ok2, d2
            else:
                dd = "%s ; %s" % (dd, d2)
        _IDSEM[key] = (okk, dd)
    return _IDSEM[key]


def cellvec_sem(prog):
    if id(prog) not in _CELLSEM:
        import guardsem
        r = guardsem.check_cellvec(prog)
        if r[0] is None:
            import bitscansem
            r2 = bitscansem.check_cellvec(prog)
            r = r2 if r2[0] is not None else (None, "%s ; %s" % (r[1], r2[1]), r[2])
        _CELLSEM[id(prog)] = r
    return _CELLSEM[id(prog)]


def _idvec_semantics(prog, g, n):
    """Abstract interpretation of mask_to_id_vec_uN written with iterator adaptors (`(1..=N).filter(|id| bit test).collect()`):
    the result is a guarded list [(condition, id)]; it must be [(mask bit N-id, id) for id = 1..N] in this order."""
    import bitsem
    from bitsem import Interp, State, BV, Ref, Adt, Undecided, Panic, bf_atom, bf_op, RangeIt, Closure

    class FilterIt(object):
        def __init__(self, inner, clo):
            self.inner, self.clo = inner, clo

    class VecInterp(Interp):
        def compare(self, op, x, y):
            if (isinstance(x, BV) or isinstance(y, BV)) and op in ("Eq", "Ne"):
                w = x.w if isinstance(x, BV) else y.w
                xb, yb = self.as_bv(x, w), self.as_bv(y, w)
                if xb.concrete() is None or yb.concrete() is None:
                    acc = 1
                    for a, b in zip(xb.bits, yb.bits):
                        eq = bf_op("not", bf_op("xor", a, b))
                        acc = bf_op("and", acc, eq)
                    if op == "Ne":
                        acc = bf_op("not", acc)
                    return BV([acc], False)
            return Interp.compare(self, op, x, y)

        def binop(self, st, op, x, y, tya, dest_ty):
            if op == "Rem" and isinstance(x, BV) and isinstance(y, int) and y > 0 and (y & (y - 1)) == 0:
                k = y.bit_length() - 1
                return BV(list(x.bits[:k]) + [0] * (x.w - k), x.signed)
            return Interp.binop(self, st, op, x, y, tya, dest_ty)

        def call(self, st, t):
            c = t.get("resolved") or t["callee"]
            if c == "core::ops::RangeInclusive::<Idx>::new":
                a = [self.operand(st, x) for x in t["args"]]
                return RangeIt(a[0], a[1], True)
            if c == "core::iter::Iterator::filter":
                a = [self.operand(st, x) for x in t["args"]]
                if isinstance(a[1], Closure):
                    inner = a[0]
                    if isinstance(inner, Adt) and (inner.path or "").startswith("core::ops::Range"):
                        inner = RangeIt(inner.fields[0], inner.fields[1], "Inclusive" in inner.path)
                    return FilterIt(inner, a[1])
            if c.endswith("Iterator::collect"):
                a = [self.operand(st, x) for x in t["args"]]
                it = a[0]
                out = []
                if isinstance(it, FilterIt) and isinstance(it.inner, RangeIt):
                    r = it.inner
                    if not (isinstance(r.lo, int) and isinstance(r.hi, int)):
                        raise Undecided("range with symbolic bounds")
                    hi = r.hi if r.inclusive else r.hi - 1
                    for e in range(r.lo, hi + 1):
                        st.locals[-100] = e
                        gd = self.exec_closure(st, it.clo, [Ref(("local", -100, (), st.frame))])
                        if isinstance(gd, BV):
                            gd = gd.bits[0]
                        out.append((gd, e))
                    return ("gvec", out)
                raise Undecided("collect of an unmodelled iterator")
            m = re.fullmatch(r"<[ui]\d+ as core::ops::(Sub|Add)<&[ui]\d+>>::(sub|add)", c)
            if m:
                a = [self.operand(st, x) for x in t["args"]]
                y = self._get(st, a[1].loc) if isinstance(a[1], Ref) else a[1]
                ty = self.place_ty(t["dest"])
                r = self.binop(st, m.group(1) + "WithOverflow", a[0], y, ty, None)
                if r.fields[1]:
                    raise Panic("overflow in %s" % c)
                return r.fields[0]
            return Interp.call(self, st, t)

    it = VecInterp(prog, g, "idvec", 0, 0, n)
    st = State()
    st.locals[1] = BV([bf_atom(("M", k)) for k in range(n)], False)
    try:
        it.run(st)
    except (Undecided, Panic) as e:
        return False, "abstract interpretation: %s" % e
    if len(it.results) != 1:
        return False, "abstract interpretation: %d paths" % len(it.results)
    ret = it.results[0][1]
    if not (isinstance(ret, tuple) and ret and ret[0] == "gvec"):
        return False, "abstract interpretation: result is not a collected list"
    want = [(bf_atom(("M", n - i)), i) for i in range(1, n + 1)]
    if ret[1] == want:
        return True, "abstract interpretation of the adaptor chain: result = [id for id in 1..=%d if mask bit (%d - id)] in ascending order" % (n, n)
    for (g1, e1), (g2, e2) in zip(ret[1], want):
        if (g1, e1) != (g2, e2):
            return False, "abstract interpretation: element %s is kept under %s, expected id %s under mask bit %d" % (e1, bitsem.bit_str(g1), e2, n - e2)
    return False, "abstract interpretation: %d elements, expected %d" % (len(ret[1]), n)
