"""C14: decode outcome is classified by message number, exhaustively."""
import dispatch

META = {
    "level": "proof",
    "exhaustive": True,
    "trusted_base": ["rustc MIR construction (SwitchInt semantics: listed values -> arms, everything else -> otherwise)",
                     "the mirfacts exporter", "Cargo.toml parsed with tomllib"],
    "explanation": "Tables extracted from the resolved program: Message variants and discriminants (ADT), the SwitchInt of "
                   "from_message_frame (number -> decode callee -> variant built on Ok / Corrupt on Err / MsgNotSupported carrying the "
                   "switched term on otherwise / Empty on message_number()==None), Message::number (discriminant -> Some(n)), "
                   "build_message (discriminant -> encode callee) and Cargo.toml features. A SwitchInt with these arms and that "
                   "otherwise classifies all 65536 u16 values, so the finite obligations below cover all 4096 numbers.",
    "assumptions": ["Empty <=> payload shorter than two bytes is decided by rule N-pres on MessageFrame::new (shared with C13)"],
}


def run(ctx, res):
    prog = ctx.prog("K0")
    import framing
    tabs = dispatch.coherence(prog, res, ctx.repo)
    if tabs:
        dispatch.parser_rule(prog, res, tabs["dec"])
    framing.rule_n_pres(prog, res)
