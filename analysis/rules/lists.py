"""Count-prefixed lists and strings (C15; string part also used by C17)."""
import re
from terms import err_variant, FA, show, mk, ty_of, is_const, const_val, T, subterms
from facts import callee_of
from intervals import Intervals
from algebra import fact_of_guard, canon_le, lin
import libmodel
import looptools

PUT = "df::assembler::Assembler::put"
PARSE = "df::parser::Parser::parse"
BRANCH = "<core::result::Result<T, E> as core::ops::Try>::branch"
EXCLUDE = re.compile(r"(msm\w*_sat::msm\w*_sat|msg1\d{3}_sig|df_msg1059_biases|df_msg1065_biases|df_msg1230_biases|df_msg1029_utf8_str)::")


def _argty(f, n):
    t = f.locals[n]
    while t.get("k") == "ref":
        t = t["to"]
    return t


def list_modules(prog):
    """[(module path, kind, N, encode fn, decode fn)] for frag_vec (kind 'ext'), frag_vec_with_len ('own'), strings ('str')."""
    out = []
    for p, f in sorted(prog.fns.items()):
        if not p.endswith("::encode") or f.argc != 2 or EXCLUDE.search(p):
            continue
        t = _argty(f, 2)
        if t.get("k") != "adt" or t["path"] not in ("util::data_vec::DataVec", "util::Df88591String"):
            continue
        mod = p[:-8]
        d = prog.fns.get(mod + "::decode")
        if d is None:
            continue
        N = libmodel.capacity_of_type(t)
        kind = "str" if t["path"] == "util::Df88591String" else ("ext" if d.argc == 2 else "own")
        out.append((mod, kind, N, f, d))
    return out


def _continue_payload(t):
    """Try::branch(call)@Continue.0 -> call"""
    if t.op == "field" and t.args[1] == 0 and t.args[0].op == "downcast" and t.args[0].args[1] == 0 and t.args[0].args[0].op == "call" \
            and t.args[0].args[0].args[0] == BRANCH:
        return t.args[0].args[0].args[1][0]
    return None


def _strip_casts(t):
    while t.op == "cast" and t.args[0] == "IntToInt":
        t = t.args[1]
    return t


def _obj_of(t):
    x = t
    while x.op in ("ref", "mem", "memval"):
        x = x.args[0]
    return x


def rule_lists(prog, res, floors=(9, 23, 2)):
    mods = list_modules(prog)
    by = {"ext": 0, "own": 0, "str": 0}
    for mod, kind, N, fe, fd in mods:
        by[kind] += 1
        res.fn(fe)
        res.fn(fd)
        _encode_side(prog, res, mod, kind, N, fe)
        _decode_side(prog, res, mod, kind, N, fd)
    if "all_msgs" in set(prog.crate["features"]):
        res.floor("K-adeq", "frag_vec codecs", by["ext"], floors[0])
        res.floor("K-adeq", "frag_vec_with_len codecs", by["own"], floors[1])
        res.floor("K-adeq", "descriptor string codecs", by["str"], floors[2])
    _len_field_sites(prog, res)
    return mods


def _encode_side(prog, res, mod, kind, N, f):
    fa = FA(f, prog)
    names = fa.names
    loc = f.loc
    value_obj = mk("mem", fa.start_val(2, 0))
    puts = [(b, fa.call_args(b), t) for b, t in f.calls() if callee_of(t) == PUT]
    loops = f.loops()
    # the write loop iterates value.iter()
    okloop = False
    it_desc = ""
    if len(loops) == 1:
        h, body = list(loops.items())[0]
        for x in sorted(body):
            t = f.term(x)
            if t["k"] == "call" and callee_of(t) in libmodel.FINITE_NEXT:
                src = libmodel.iterator_source(fa.call_term(x), fa)
                if src is not None:
                    v = src[0]
                    while v.op == "call" and v.args[0] in (libmodel.INTO_ITER, "util::data_vec::DataVec::<T, N>::iter", "util::Df88591String::<N>::iter",
                                                            "core::slice::<impl [T]>::iter"):
                        v = v.args[1][0]
                    it_desc = show(v, names)
                    if _obj_of(v) is _obj_of(value_obj):
                        okloop = True
    res.ob("G-count", "%s::encode | one loop, over the list itself, writes every element in order" % mod, okloop, "iterates " + it_desc, loc)
    # what is written per iteration is the element itself (not a transformed copy)
    if len(loops) == 1:
        h, body = list(loops.items())[0]
        writes = []
        for x in sorted(body):
            t = f.term(x)
            if t["k"] == "call":
                c = callee_of(t)
                if c == PUT or (c in prog.fns and c.endswith("::encode")):
                    writes.append((x, c, fa.call_args(x)))
        okel = len(writes) == 1
        d_el = "%d writes in the loop" % len(writes)
        if okel:
            x, c, a = writes[0]
            v = a[1]
            # item = next(&mut it)@Some.0 ; element encode gets the item reference itself, put gets *item
            y = v
            if c == PUT:
                while y.op in ("memval",):
                    y = y.args[0]
                if y.op == "mem":
                    y = y.args[0]
                okw = is_const(a[2]) and const_val(a[2]) == 8
            else:
                okw = True
                while y.op in ("ref", "mem", "memval"):
                    y = y.args[0]
            okel = okw and y.op == "field" and y.args[1] == 0 and y.args[0].op == "downcast" and y.args[0].args[1] == 1 and y.args[0].args[0].op == "call" \
                and y.args[0].args[0].args[0] in libmodel.FINITE_NEXT
            d_el = "writes %s" % show(v, names)
        res.ob("G-count", "%s::encode | each iteration writes exactly the element it was given" % mod, okel, d_el, loc)
    count_puts = [(b, a, t) for b, a, t in puts if not any(b in body for body in loops.values())]
    if kind == "ext":
        res.ob("G-count", "%s::encode | writes no count of its own (the parent message carries it)" % mod, not count_puts, "%d puts outside the loop" % len(count_puts), loc)
        return
    ok = False
    d = ""
    if len(count_puts) == 1:
        b, a, t = count_puts[0]
        v = _strip_casts(a[1])
        w = const_val(a[2]) if is_const(a[2]) else None
        islen = v.op == "call" and v.args[0] in libmodel.LEN_FNS and _obj_of(v.args[1][0]) is _obj_of(value_obj)
        before = all(f.dominates(b, x) for body in loops.values() for x in body)
        ok = islen and before and w is not None
        d = "put(%s, %s)" % (show(a[1], names), w)
        res.ob("K-adeq", "%s::encode | capacity %s fits the %s-bit count field (the count on the wire cannot wrap)" % (mod, N, w),
               ok and N is not None and w is not None and N <= (1 << w) - 1, "capacity %s, field max %s" % (N, (1 << w) - 1 if w else None), loc,
               sample={"codec": mod, "capacity": N, "count_bits": w})
    res.ob("G-count", "%s::encode | the count field is the list's own length, written before the elements" % mod, ok, d, loc, sample=d)


def _length_driven_loop(prog, f, fa, h, body, pushb, n_t, names):
    import looprules
    vec = _obj_of(fa.call_args(pushb)[0])
    if vec.op != "loc":
        return False, "the pushed list is not a local"
    L = vec.args[1]
    # fresh: the only definition outside the loop is the constructor
    ds = [d_ for d_ in fa.defs(L) if d_[2] != "borrow"]
    outside = [d_ for d_ in ds if d_[0] not in body]
    if len(outside) != 1:
        return False, "the list is not built once before the loop"
    v0 = fa.defterm(L, outside[0][0], outside[0][1], outside[0][2])
    if not (v0.op == "call" and v0.args[0].endswith("::new") and not v0.args[1]):
        return False, "the list does not start as new()"
    found = None
    for x in sorted(body):
        t = f.term(x)
        if t["k"] != "switch":
            continue
        stay = [s_ for s_ in f.succ(x) if s_ in body]
        leave = [s_ for s_ in f.succ(x) if s_ not in body]
        if len(stay) != 1 or len(leave) != 1:
            continue
        facts = [fact_of_guard(g) for g in fa.edge_guard(x, stay[0])]
        for fc in facts:
            if fc[0] == "Lt" and fc[1].op == "call" and fc[1].args[0] in libmodel.LEN_FNS and _is_list_value(fc[1].args[1][0], vec, L, h) \
                    and _strip_casts(fc[2]) is _strip_casts(n_t):
                found = (x, stay[0], leave[0])
    if found is None:
        return False, "no loop test `list.len() < count`"
    x, stay, leave = found
    if not f.dominates(x, pushb):
        return False, "the push is not under the length test"
    # every way back to the head passes the push (other exits of the body leave the function)
    okc, dc = looprules.action_complete(f, fa, pushb)
    if not okc:
        return False, dc
    okm, dm = looprules.only_mutated_by(f, L, {pushb})
    if not okm:
        return False, dm
    # a normal exit is only through the length test
    for y in sorted(body):
        for s_ in f.succ(y):
            if s_ not in body and (y, s_) != (x, leave):
                reach = f.reach_from(s_)
                if any(r in f.return_blocks() for r in reach) and not _only_err_returns(f, fa, s_):
                    return False, "the loop can also be left at block %d" % y
    return True, "while %s.len() < count { push }" % names.get(L, "_%d" % L)


def _is_list_value(t, vec, L, h):
    """t denotes the list local L at the loop head: a reference to it, or (observer calls carry the receiver's value) its loop-head phi"""
    x = _obj_of(t)
    return x is vec or (x.op == "phi" and x.args[1] == L and x.args[2] == h)


def _only_err_returns(f, fa, start):
    """every return reachable from `start` without re-entering a loop is an Err(..) / residual"""
    for b in f.reach_from(start) | {start}:
        for i, s_ in enumerate(f.blocks[b]["stmts"]):
            if s_["k"] == "assign" and s_["place"]["local"] == 0 and not s_["place"]["proj"]:
                v = fa.rv_term(s_["rv"], (b, i))
                if v.op == "agg" and v.args[2] == "Ok":
                    return False
        t = f.term(b)
        if t["k"] == "call" and t["dest"]["local"] == 0 and not (callee_of(t) or "").endswith("::from_residual"):
            return False
    return True


def _slot_fill_loop(prog, f, fa, loops, n_t, names):
    """`v = DataVec::new(); v.set_len(n); for slot in v.iter_mut() { *slot = decode(par)? }` -> (ok, detail, set_len block, stored value term, list local,
    blocks allowed to mutate the list) or None when the function is not of this form.  set_len(n) makes the list n default elements long (P-call checks
    n <= capacity), iter_mut yields each of the n slots once, front to back, and every completed iteration stores the decoded element into its slot: the
    list ends as the n decoded elements in order - the same list n pushes build."""
    import looprules
    sets = [(b, t) for b, t in f.calls() if callee_of(t) == "util::data_vec::DataVec::<T, N>::set_len"]
    if len(sets) != 1:
        return None
    setb, sett = sets[0]
    h, body = list(loops.items())[0]
    if setb in body:
        return None
    sa = fa.call_args(setb)
    v = sa[0]
    while v.op in ("ref", "mem", "memval"):
        v = v.args[0]
    if v.op != "loc":
        return None
    vloc = v.args[1]
    why = []
    if _strip_casts(sa[1]) is not _strip_casts(n_t):
        why.append("set_len(%s) is not the count read" % show(sa[1], names))
    # the loop is driven by IterMut::next over v.iter_mut()
    nexts = [x for x in sorted(body) if f.term(x)["k"] == "call" and callee_of(f.term(x)) == "<core::slice::IterMut<'a, T> as core::iter::Iterator>::next"]
    allowed = {setb}
    item = None
    if len(nexts) != 1:
        why.append("%d IterMut::next calls in the loop" % len(nexts))
    else:
        ct = fa.call_term(nexts[0])
        src = libmodel.iterator_source(ct, fa)
        y = src[0] if src is not None else None
        while y is not None and y.op == "call" and y.args[0] == libmodel.INTO_ITER:
            y = y.args[1][0]
        okit = y is not None and y.op == "call" and y.args[0] in ("util::data_vec::DataVec::<T, N>::iter_mut", "core::slice::<impl [T]>::iter_mut")
        if okit:
            r_ = y.args[1][0]
            for _ in range(8):
                if r_.op in ("ref", "mem", "memval"):
                    r_ = r_.args[0]
                elif r_.op == "call" and r_.args[0].endswith("DerefMut>::deref_mut") and r_.args[1]:
                    r_ = r_.args[1][0]
                else:
                    break
            okit = r_.op == "loc" and r_.args[1] == vloc
        if not okit:
            why.append("the loop does not run over the list's own iter_mut()")
        for b_, t_ in f.calls():
            c_ = callee_of(t_)
            if c_ in ("util::data_vec::DataVec::<T, N>::iter_mut", "core::slice::<impl [T]>::iter_mut") or (c_ or "").endswith("DerefMut>::deref_mut"):
                if b_ in body:
                    why.append("a second mutable view of the list is taken inside the loop")
                elif not _dominates(f, setb, b_):
                    why.append("the slots are borrowed before the length is set")
                allowed.add(b_)
        item = mk("field", mk("downcast", ct, 1), 0)
    # the store *slot = value: one per iteration, on every completed iteration
    stores = []
    for x in sorted(body):
        for i, st_ in enumerate(f.blocks[x]["stmts"]):
            if st_["k"] == "assign" and st_["place"]["proj"] and st_["place"]["proj"][0]["k"] == "deref" and len(st_["place"]["proj"]) == 1:
                holder = fa.val(st_["place"]["local"], (x, i)) if hasattr(fa, "val") else None
                if item is not None and holder is item:
                    stores.append((x, i, st_))
    pv = None
    if len(stores) != 1:
        why.append("%d stores into the current slot per iteration" % len(stores))
    else:
        x, i, st_ = stores[0]
        pv = fa.rv_term(st_["rv"], (x, i))
        okc, dc = looprules.action_complete(f, fa, x)
        if not okc:
            why.append(dc)
    return (not why, "; ".join(why) if why else "set_len(count), then one decoded element stored into each slot of iter_mut()", setb, pv, vloc, allowed)


def _dominates(f, a, b):
    return f.dominates(a, b)


def _decode_side(prog, res, mod, kind, N, f):
    fa = FA(f, prog)
    iv = Intervals(fa, prog)
    names = fa.names
    loc = f.loc
    loops = f.loops()
    # the count term
    if kind == "ext":
        n_t = fa.start_val(2, 0)
        okn = True
        nd = "argument"
    else:
        parses = [(b, fa.call_args(b), t) for b, t in f.calls() if callee_of(t) == PARSE and not any(b in body for body in loops.values())]
        okn = len(parses) == 1
        n_t = None
        nd = ""
        if okn:
            call = fa.call_term(parses[0][0])
            n_t = mk("field", mk("downcast", mk("call", BRANCH, (call,), id(f), f.term(parses[0][0])["target"]), 0), 0)
            nd = "parse(%s)" % show(parses[0][1][1], names)
    res.ob("G-count", "%s::decode | one count is read before the elements" % mod, okn, nd, loc)
    if n_t is None:
        return
    # loop: Range(0, n') with n' = n (possibly cast), one push per iteration
    okr = False
    pushb = None
    d = ""
    if len(loops) == 1:
        h, body = list(loops.items())[0]
        for x in sorted(body):
            t = f.term(x)
            if t["k"] == "call" and callee_of(t) == libmodel.RANGE_NEXT:
                src = libmodel.iterator_source(fa.call_term(x), fa)
                if src is not None:
                    y = src[0]
                    if y.op == "call" and y.args[0] == libmodel.INTO_ITER:
                        y = y.args[1][0]
                    if y.op == "agg" and y.args[0] == "core::ops::Range":
                        lo, hi = y.args[3]
                        okr = is_const(lo) and const_val(lo) == 0 and _strip_casts(hi) is _strip_casts(n_t)
                        d = "0..%s" % show(hi, names)
        pushes = [x for x in body if f.term(x)["k"] == "call" and (callee_of(f.term(x)) or "").endswith(("DataVec::<T, N>::push", "Df88591String::<N>::push"))]
        if len(pushes) == 1:
            pushb = pushes[0]
        if not okr and pushb is not None:
            # `while value.len() < n { value.push(..) }`: the list starts empty, the loop continues exactly while its length is below n, the one
            # push is on every path back to the head and nothing else changes the list - so it ends with exactly n pushes
            okr, d = _length_driven_loop(prog, f, fa, h, body, pushb, n_t, names)
    fill = None
    if not (okr and pushb is not None) and len(loops) == 1:
        # the slot form the MSM fragment decoders use:  v = new(); v.set_len(n); for slot in v.iter_mut() { *slot = decode(par)? }
        fill = _slot_fill_loop(prog, f, fa, loops, n_t, names)
    if fill is not None:
        okf, df, setb, pv_, vloc, allowed_ = fill
        res.ob("G-count", "%s::decode | reads exactly `count` elements, pushing each once, in order" % mod, okf, df, loc, sample=df)
        src = _continue_payload(pv_) if pv_ is not None else None
        okp = src is not None and src.op == "call" and (src.args[0] == PARSE or (src.args[0] in prog.fns and src.args[0].endswith("::decode")))
        if okp and src.args[0] == PARSE:
            okp = is_const(src.args[1][1]) and const_val(src.args[1][1]) == 8
        res.ob("G-count", "%s::decode | the value pushed is exactly what the element decoder / 8-bit read returned" % mod, okp, show(pv_, names) if pv_ is not None else "", loc)
        import looprules
        okm, dm = looprules.only_mutated_by(f, vloc, allowed_) if vloc is not None else (False, "list local not found")
        res.ob("G-count", "%s::decode | the list is mutated only by that push" % mod, okm, dm, loc)
        pushb = setb            # the capacity guard below is judged where the length is set
    else:
        res.ob("G-count", "%s::decode | reads exactly `count` elements, pushing each once, in order" % mod, okr and pushb is not None, d, loc, sample=d)
    if pushb is not None and fill is None:
        pv = fa.call_args(pushb)[1]
        src = _continue_payload(pv)
        okp = src is not None and src.op == "call" and (src.args[0] == PARSE or (src.args[0] in prog.fns and src.args[0].endswith("::decode")))
        if okp and src.args[0] == PARSE:
            okp = is_const(src.args[1][1]) and const_val(src.args[1][1]) == 8
        res.ob("G-count", "%s::decode | the value pushed is exactly what the element decoder / 8-bit read returned" % mod, okp, show(pv, names), loc)
        # ... and the list that is returned is that list, untouched otherwise (no pop / truncate / sort / reverse after the loop)
        import looprules
        recv = fa.call_args(pushb)[0]
        r_ = recv
        while r_.op in ("ref", "mem", "memval"):
            r_ = r_.args[0]
        if r_.op == "loc":
            okm, dm = looprules.only_mutated_by(f, r_.args[1], {pushb})
            res.ob("G-count", "%s::decode | the list is mutated only by that push" % mod, okm, dm, loc)
    # capacity guard: accepting arm has count in [0, N] exactly; rejecting arm returns CapacityExceeded
    if pushb is not None and N is not None:
        ni = iv.interval(_strip_casts(n_t) if False else n_t, pushb)
        # use the widest cast of n that is compared
        cands = [n_t] + [x for x in subterms(fa.call_args(pushb)[0]) if False]
        best = None
        for c, fc in iv.facts(pushb):
            if c[0] == "le" and len(c[1]) == 1:
                (a, q), = list(c[1])
                if _strip_casts(a) is _strip_casts(n_t) and q == 1:
                    best = -c[2]
        # the count field may be narrower than the capacity (then the guard is redundant but harmless)
        # raw range of the count field (from its bit width, before any guard)
        raw_max = None
        if kind != "ext":
            for x in subterms(n_t):
                if x.op == "call" and x.args[0] == PARSE and is_const(x.args[1][1]):
                    raw_max = (1 << const_val(x.args[1][1])) - 1
        # accepted counts must be exactly 0..=min(N, raw_max): not more (push past capacity) and not fewer (full lists rejected)
        want = N if raw_max is None else min(N, raw_max)
        eff = best if best is not None else raw_max
        if best is not None and raw_max is not None:
            eff = min(best, raw_max)
        res.ob("K-guard", "%s::decode | elements are pushed exactly when count <= capacity %s (a full list is accepted, nothing beyond)" % (mod, N),
               eff is not None and eff == want,
               "guard accepts up to %s, count field holds up to %s, capacity %s" % (best, raw_max, N), loc, sample={"codec": mod, "guard": best, "capacity": N})
    errs = set()
    for b in sorted(f.reachable()):
        for i, s in enumerate(f.blocks[b]["stmts"]):
            if s["k"] == "assign" and s["place"]["local"] == 0 and s["rv"]["k"] == "aggregate" and s["rv"].get("vname") == "Err":
                v = fa.rv_term(s["rv"], (b, i))
                _ev = err_variant(v, fa)
                if _ev is not None:
                    errs.add(_ev)
    res.ob("K-guard", "%s::decode | a count above the capacity is reported as CapacityExceeded" % mod, errs == {"CapacityExceeded"}, str(sorted(errs)), loc)


def _len_field_sites(prog, res):
    """frag_vec users (msg_len_middle!): the count goes through a df codec: encode gets &vec.len(), decode's result feeds the list decoder."""
    n = 0
    for p, f in sorted(prog.fns.items()):
        if not (p.startswith("msg::") and p.endswith("::encode")):
            continue
        fa = None
        for b, t in f.calls():
            c = callee_of(t)
            if c and c.startswith("df::dfs::") and c.endswith("::encode"):
                if fa is None:
                    fa = FA(f, prog)
                a = fa.call_args(b)
                v = a[1]
                x = v
                while x.op == "ref":
                    x = x.args[0]
                if x.op == "loc":
                    x = fa.val(x.args[1], (b, len(f.blocks[b]["stmts"])))
                if x.op == "call" and x.args[0] in libmodel.LEN_FNS:
                    n += 1
                    res.fn(f)
                    cap = libmodel.capacity_of_type(libmodel.obj_type(x.args[1][0]))
                    # width of the df codec
                    g = prog.fn(c)
                    w = None
                    if g is not None:
                        ga = FA(g, prog)
                        for bb, tt in g.calls():
                            if callee_of(tt) == PUT:
                                aa = ga.call_args(bb)
                                if is_const(aa[2]):
                                    w = const_val(aa[2])
                    # the list written by this message is the same vector whose length is written
                    vec_obj = _obj_of(x.args[1][0])
                    written = False
                    for b2, t2 in f.calls():
                        c2 = callee_of(t2)
                        if c2 and c2.endswith("_vec::encode"):
                            a2 = fa.call_args(b2)
                            if _obj_of(a2[1]) is vec_obj:
                                written = True
                    res.ob("K-adeq", "%s | capacity %s of the list fits the %s-bit count field %s" % (p, cap, w, c.split("::")[2]),
                           cap is not None and w is not None and cap <= (1 << w) - 1 and written,
                           "capacity %s, field max %s, same vector written: %s" % (cap, (1 << w) - 1 if w else None, written), f.loc,
                           sample={"message": p, "capacity": cap, "count_bits": w})
    if "all_msgs" in set(prog.crate["features"]):
        res.floor("K-adeq", "messages with a mid-header count field", n, 9)
    # decode side
    m = 0
    for p, f in sorted(prog.fns.items()):
        if not (p.startswith("msg::") and p.endswith("::decode") and f.argc == 1):
            continue
        fa = None
        for b, t in f.calls():
            c = callee_of(t)
            if c and c.endswith("_vec::decode") and len(t["args"]) == 2:
                if fa is None:
                    fa = FA(f, prog)
                a = fa.call_args(b)
                src = _continue_payload(a[1])
                ok = src is not None and src.op == "call" and src.args[0].startswith("df::dfs::") and src.args[0].endswith("::decode")
                m += 1
                res.fn(f)
                res.ob("G-count", "%s | the list decoder is given the count field just read" % p, ok, show(a[1], fa.names), f.loc)
    if "all_msgs" in set(prog.crate["features"]):
        res.floor("G-count", "messages handing a count to a list decoder", m, 9)


def rule_strings(prog, res):
    """string codecs only (C17)"""
    for mod, kind, N, fe, fd in list_modules(prog):
        if kind == "str":
            res.fn(fe)
            res.fn(fd)
            _encode_side(prog, res, mod, "own", N, fe)
            _decode_side(prog, res, mod, "own", N, fd)


# ---------------------------------------------------------------- E-prop
RESULT_SWALLOW = {"core::result::Result::<T, E>::ok", "core::result::Result::<T, E>::unwrap_or", "core::result::Result::<T, E>::unwrap_or_default",
                  "core::result::Result::<T, E>::unwrap_or_else", "core::result::Result::<T, E>::is_ok", "core::result::Result::<T, E>::is_err",
                  "core::result::Result::<T, E>::err", "core::result::Result::<T, E>::map_or"}


def rule_error_propagation(prog, res, closure, side="decode", floor=None):
    """E-prop: in codec functions every Result is propagated with `?`, returned, or matched - never dropped or defaulted."""
    n = 0
    for p in sorted(closure):
        if not (p.startswith("msg::") or p.startswith("df::")):
            continue
        f = prog.fns[p]
        fa = None
        for b, t in f.calls():
            c = callee_of(t)
            if c in RESULT_SWALLOW:
                # only a swallowed *codec* error counts: `u8::try_from(n).ok()` turns a TryFromIntError into an Option, which is a range test
                ety = None
                ca = t.get("cargs") or t.get("rargs") or []
                if len(ca) >= 2:
                    ety = ca[1]
                if ety is None or ety.get("path") == "rtcm_error::RtcmError" or ety.get("k") in ("param", "other"):
                    res.ob("E-prop", "%s | %s" % (p, c.rsplit("::", 1)[1]), False, "a decode/encode error is inspected or swallowed instead of propagated",
                           {"file": f.loc["file"], "line": t["line"]})
                continue
            dty = None
            pl = t["dest"]
            if not pl["proj"]:
                dty = f.locals[pl["local"]]
            if dty and dty.get("k") == "adt" and dty["path"] == "core::result::Result" and len(dty["args"]) == 2 \
                    and dty["args"][1].get("path") == "rtcm_error::RtcmError":
                n += 1
                L = pl["local"]
                if L == 0:
                    continue
                # must be consumed: operand of Try::branch, or moved to _0, or its discriminant read - directly or after being moved into
                # another local (`let r = match .. { arm => encode(..), .. }; r?`)
                holders = {L}
                wrapped = set()         # locals holding Some(result) / (result,): an iterator item on its way to the loop body
                grew = True
                while grew:
                    grew = False
                    for bb in f.reachable():
                        for s in f.blocks[bb]["stmts"]:
                            if s["k"] != "assign" or s["place"]["proj"] or s["place"]["local"] == 0:
                                continue
                            rv_ = s["rv"]
                            dl = s["place"]["local"]
                            if rv_["k"] == "use" and rv_["op"]["k"] in ("copy", "move"):
                                sp = rv_["op"]["place"]
                                if not sp["proj"] and sp["local"] in holders and dl not in holders:
                                    holders.add(dl)
                                    grew = True
                                elif not sp["proj"] and sp["local"] in wrapped and dl not in wrapped:
                                    wrapped.add(dl)
                                    grew = True
                                elif sp["proj"] and sp["local"] in wrapped and all(x["k"] in ("downcast", "field") for x in sp["proj"]) and dl not in holders:
                                    holders.add(dl)
                                    grew = True
                            elif rv_["k"] == "aggregate" and rv_.get("agg") in ("adt", "tuple") and len(rv_.get("ops", [])) == 1 and dl not in wrapped:
                                o_ = rv_["ops"][0]
                                if o_["k"] in ("copy", "move") and not o_["place"]["proj"] and o_["place"]["local"] in holders and \
                                        (rv_.get("agg") == "tuple" or rv_.get("path") == "core::option::Option"):
                                    wrapped.add(dl)
                                    grew = True
                used = False
                for bb in f.reachable():
                    blk = f.blocks[bb]
                    for s in blk["stmts"]:
                        if s["k"] == "assign":
                            rv = s["rv"]
                            if rv["k"] == "discr" and rv["place"]["local"] in holders:
                                used = True
                            if rv["k"] == "discr" and rv["place"]["local"] in wrapped and rv["place"]["proj"] and \
                                    all(x["k"] in ("downcast", "field") for x in rv["place"]["proj"]):
                                used = True         # match on the Result inside Some(..) (`Option<Result>::transpose` spelled out)
                            if rv["k"] == "use" and rv["op"]["k"] in ("copy", "move") and rv["op"]["place"]["local"] in holders and s["place"]["local"] == 0:
                                used = True
                    tt = blk["term"]
                    if tt["k"] == "call" and callee_of(tt) == BRANCH:
                        for a in tt["args"]:
                            if a["k"] in ("copy", "move") and a["place"]["local"] in holders:
                                used = True
                if not used:
                    res.ob("E-prop", "%s | result of %s" % (p, c), False, "the Result of this call is never propagated or matched",
                           {"file": f.loc["file"], "line": t["line"]})
    res.ob("E-prop", "%s functions | every fallible call is propagated, returned or matched" % ("codec" if side == "decode" else side), True,
           "%d fallible calls inspected" % n, sample={"fallible_calls": n})
    if floor is None:
        floor = 1500 if "all_msgs" in set(prog.crate["features"]) else 1
    res.floor("E-prop", "fallible calls inspected (%s side)" % side, n, floor)


# ---------------------------------------------------------------- K-fit
def max_bits(prog, path, memo, stack=()):
    """Upper bound on the number of bits an encode function can write (None if unbounded / unknown)."""
    if path in memo:
        return memo[path]
    if path in stack:
        return None
    f = prog.fn(path)
    if f is None:
        return None
    fa = FA(f, prog)
    iv = Intervals(fa, prog)
    w = {}
    for b in f.reachable():
        t = f.term(b)
        bits = 0
        if t["k"] == "call":
            c = callee_of(t)
            if c == PUT:
                a = fa.call_args(b)
                wi = iv.interval(a[2], b)
                if wi is None:
                    memo[path] = None
                    return None
                bits = wi[1]
            elif c in prog.fns and (c.endswith("::encode")):
                sub = max_bits(prog, c, memo, stack + (path,))
                if sub is None:
                    memo[path] = None
                    return None
                bits = sub
        w[b] = bits
    r = _longest(f, fa, iv, w)
    memo[path] = r
    return r


def _longest(f, fa, iv, w):
    """Longest weighted path entry->return with each natural loop collapsed to trip_bound * (longest path through its body)."""
    loops = f.loops()
    # only handle non-nested or properly nested loops by recursion on headers sorted by body size
    headers = sorted(loops, key=lambda h: len(loops[h]))
    weight = dict(w)
    collapsed = {}   # block -> representative header
    for h in headers:
        body = loops[h]
        tb = looptools.trip_bound(f, fa, iv, h, body)
        if tb is None:
            return None
        # longest path inside the body from h to any back-edge source (acyclic once back edges are removed)
        backs = {(s, hh) for (s, hh) in f.back_edges()}
        order = [b for b in f.rpo() if b in body]
        dist = {h: weight.get(h, 0)}
        for b in order:
            if b not in dist:
                continue
            for s in f.succ(b):
                if s in body and (b, s) not in backs and collapsed.get(s, s) == s:
                    nd = dist[b] + weight.get(s, 0)
                    if nd > dist.get(s, -1):
                        dist[s] = nd
        per_iter = max(dist.values()) if dist else 0
        # collapse: header keeps tb * per_iter (+ one extra header evaluation is weight-free), body blocks weigh 0
        for b in body:
            if b != h:
                weight[b] = 0
                collapsed[b] = h
        weight[h] = tb * per_iter
    # DAG longest path over the whole function with back edges removed
    backs = set(f.back_edges())
    dist = {0: weight.get(0, 0)}
    for b in f.rpo():
        if b not in dist:
            continue
        for s in f.succ(b):
            if (b, s) in backs:
                continue
            nd = dist[b] + weight.get(s, 0)
            if nd > dist.get(s, -1):
                dist[s] = nd
    rets = [dist[b] for b in f.return_blocks() if b in dist]
    return max(rets) if rets else 0


def rule_fit(prog, res, mods, limit=8184 - 12):
    """K-fit: every list-bearing message (other than MSM / code-bias) fits the payload at full capacity."""
    memo = {}
    list_mods = {m for m, kind, N, fe, fd in mods if kind in ("ext", "own")}
    n = 0
    for p, f in sorted(prog.fns.items()):
        mm = re.fullmatch(r"msg::(msg1\d{3})::\1::encode", p)
        if not mm:
            continue
        # does the message (transitively) contain one of the list codecs / strings?
        cl = prog.closure_from([p])
        has_list = any(c[:-8] in list_mods for c in cl if c.endswith("::encode")) or any("df_desc_str" in c or "df_msg1029" in c for c in cl)
        if not has_list:
            continue
        if any(re.search(r"msm\w*_sat|_sig::encode|df_msg10(59|65)_biases", c) for c in cl):
            continue
        n += 1
        mb = max_bits(prog, p, memo)
        res.fn(f)
        res.ob("K-fit", "%s | a message with every list at capacity fits the 1023-byte payload" % mm.group(1), mb is not None and mb <= limit,
               "maximum body %s bits, limit %d" % (mb, limit), f.loc, sample={"message": mm.group(1), "max_bits": mb})
    if "all_msgs" in set(prog.crate["features"]):
        res.floor("K-fit", "list-bearing messages", n, 30)
