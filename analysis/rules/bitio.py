"""Rules on the bit reader / writer (C07, and the preconditions C02/C09 rely on)."""
import re
from terms import FA, show, mk, ty_of, is_const, const_val, T, subterms, set_ty, U
from facts import callee_of
from intervals import Intervals
from algebra import fact_of_guard, canon_le, lin, lin_str
import libmodel

PUT = "df::assembler::Assembler::put"
PARSE = "df::parser::Parser::parse"
ERR = "rtcm_error::RtcmError"


def _self_field(i, fa):
    return mk("pf", mk("mem", fa.start_val(1, 0)), i)


def rule_guard_cursor(prog, res, path, len_arg):
    """B-guard + B-cursor on put / parse."""
    f = prog.fn(path)
    short = path.rsplit("::", 1)[1]
    if f is None:
        res.missing("B-guard", path)
        return
    res.fn(f)
    fa = FA(f, prog)
    names = fa.names
    adt_name = "df::assembler::Assembler" if short == "put" else "df::parser::Parser"
    adt = prog.adts.get(adt_name)
    fields = [x["name"] for x in adt["variants"][0]["fields"]]
    i_data, i_off = fields.index("data"), fields.index("offset")
    off_obj = _self_field(i_off, fa)
    off0 = mk("memval", off_obj)
    lenarg = fa.start_val(len_arg, 0)
    data_obj = mk("mem", mk("memval", _self_field(i_data, fa)))
    dlen = mk("len", data_obj)
    want_ok = ("le", frozenset([(off0, 1), (lenarg, 1), (dlen, -8)]), 0)
    # find the guard
    guard = None
    for b in sorted(f.reachable()):
        t = f.term(b)
        if t["k"] != "switch" or t["dty"].get("k") != "bool":
            continue
        for s in f.succ(b):
            for g in fa.edge_guard(b, s):
                fc = fact_of_guard(g)
                c = canon_le(fc) if fc[0] in ("Lt", "Le", "Gt", "Ge") else None
                if c == want_ok:
                    guard = (b, s)
    loc = f.loc
    res.ob("B-guard", "%s | has the bounds test 8*len(data) < offset + len (strict)" % short, guard is not None,
           "no branch whose passing arm is exactly offset + len <= 8*len(data)", loc,
           sample="passing arm: %s <= 0" % lin_str((want_ok[1], want_ok[2]), names))
    if guard is None:
        return
    gb, ok_succ = guard
    err_succ = [s for s in f.succ(gb) if s != ok_succ]
    # error arm: returns Err(BufferOverflow), no store, no call taking &mut
    err_region = set()
    for s in err_succ:
        err_region |= f.reach_from(s)
    events = fa.mem_events()
    bad = [e for e in events if e[1] in err_region and e[0] == "store"]
    badc = [e for e in events if e[1] in err_region and e[0] == "call"]
    res.ob("B-guard", "%s | the overflow arm changes neither the buffer nor the cursor" % short, not bad and not badc,
           "stores/calls with &mut on the error path: %d/%d" % (len(bad), len(badc)), loc)
    errvals = []
    for b in sorted(err_region):
        for i, s in enumerate(f.blocks[b]["stmts"]):
            if s["k"] == "assign" and s["place"]["local"] == 0 and not s["place"]["proj"]:
                errvals.append(fa.rv_term(s["rv"], (b, i)))
    okerr = len(errvals) == 1 and errvals[0].op == "agg" and errvals[0].args[2] == "Err" and errvals[0].args[3][0].op == "agg" \
        and errvals[0].args[3][0].args[2] == "BufferOverflow"
    res.ob("B-guard", "%s | the overflow arm returns Err(BufferOverflow)" % short, okerr, "; ".join(show(v, names) for v in errvals), loc)
    # every store / &mut call happens under the passing arm, and the test itself precedes all of them
    stores = [e for e in events if e[0] == "store"]
    outside = [e for e in events if not f.dominates(ok_succ, e[1])]
    res.ob("B-guard", "%s | every write is dominated by the passing arm of the bounds test" % short, not outside,
           "%d write(s) / &mut call(s) not dominated by the bounds test" % len(outside), loc)
    # B-cursor
    offstores = []
    for e in stores:
        _, eb, ei, s = e
        P = fa.objpath(s["place"], (eb, ei))
        if P is off_obj:
            offstores.append((eb, ei, s))
    okc = False
    d = ""
    if len(offstores) == 1:
        eb, ei, s = offstores[0]
        v = fa.rv_term(s["rv"], (eb, ei))
        d = show(v, names)
        la, lc = lin(v)
        rets_ok = [b for b in f.reachable() for i, st in enumerate(f.blocks[b]["stmts"])
                   if st["k"] == "assign" and st["place"]["local"] == 0 and st["rv"]["k"] == "aggregate" and st["rv"].get("vname") == "Ok"]
        okc = dict(la) == {off0: 1, lenarg: 1} and lc == 0 and not f.can_reach(eb, eb) and all(f.dominates(eb, r) for r in rets_ok) and rets_ok
    res.ob("B-cursor", "%s | the only cursor update is offset = offset + len, once, before Ok" % short, okc,
           "offset stores: %d ; value %s" % (len(offstores), d), loc, sample=d)
    # other stores: put writes through iterator items of self.data only; parse writes nothing else
    others = [e for e in stores if (e[1], e[2]) not in [(x[0], x[1]) for x in offstores]]
    if short == "parse":
        res.ob("B-guard", "parse | the buffer is never written", not others, "%d stores besides the cursor" % len(others), loc)
    return {"fa": fa, "f": f, "others": others, "ok_succ": ok_succ}


def rule_merge(prog, res):
    """B-merge: the byte stored by put is  bset ? bval : old  (per bit truth table)."""
    f = prog.fn(PUT)
    if f is None:
        res.missing("B-merge", PUT)
        return
    fa = FA(f, prog)
    names = fa.names
    # stores through a deref whose target type is u8, grouped by block
    byblock = {}
    for e in fa.mem_events():
        if e[0] != "store":
            continue
        _, eb, ei, s = e
        ty = fa.place_type(s["place"])
        if ty and ty.get("k") == "uint" and ty["bits"] == 8:
            byblock.setdefault(eb, []).append((ei, s))
    res.ob("B-merge", "put | buffer bytes are written in exactly one block (one merge per byte)", len(byblock) == 1,
           "blocks with byte stores: %d" % len(byblock), f.loc)
    if len(byblock) != 1:
        return
    eb, sts = next(iter(byblock.items()))
    blk = f.blocks[eb]
    # symbolic execution of the block over the variable D (the byte) - bitwise ops only
    target = sts[0][1]["place"]
    D = ("var", "D")
    env = {}

    def place_key(pl):
        return (pl["local"], tuple((p["k"], p.get("i"), p.get("local")) for p in pl["proj"]))
    tkey = place_key(target)
    cur = {"D": D}
    atoms = {}

    def opval(o, idx):
        if o["k"] == "const":
            return ("const", o.get("val"))
        pl = o["place"]
        k = place_key(pl)
        if k == tkey:
            return cur["D"]
        if k in env:
            return env[k]
        t = fa.place_term(pl, (eb, idx))
        a = atoms.setdefault(t, ("var", "x%d" % len(atoms)))
        return a

    ok = True
    for i, s in enumerate(blk["stmts"]):
        if s["k"] != "assign":
            continue
        rv = s["rv"]
        val = None
        if rv["k"] == "use":
            val = opval(rv["op"], i)
        elif rv["k"] == "binop" and rv["op"] in ("BitAnd", "BitOr", "BitXor"):
            val = (rv["op"], opval(rv["a"], i), opval(rv["b"], i))
        elif rv["k"] == "unop" and rv["op"] == "Not":
            val = ("Not", opval(rv["a"], i))
        k = place_key(s["place"])
        if k == tkey:
            if val is None:
                ok = False
                break
            cur["D"] = val
        else:
            if val is not None:
                env[k] = val
            else:
                env.pop(k, None)
    final = cur["D"]
    vars_ = sorted({v for v in _vars(final)})
    detail = "final byte = %s over %s" % (_bstr(final), {v: show(t, names) for t, (_, v) in atoms.items()})
    good = False
    if ok and len(vars_) == 3 and "D" in vars_:
        others = [v for v in vars_ if v != "D"]
        # which of the two is the mask?  try both assignments; exactly one must match  bset ? bval : D
        for m, v in (others, others[::-1]):
            if all(_beval(final, {"D": d, m: bm, v: bv}) == (bv if bm else d) for d in (0, 1) for bm in (0, 1) for bv in (0, 1)):
                # the mask must be the term built from 255 >> / << (bset), the value the val_cast result
                mt = [t for t, (_, n) in atoms.items() if n == m][0]
                vt = [t for t, (_, n) in atoms.items() if n == v][0]
                good = vt.op == "call" and vt.args[0].endswith("BitValue::val_cast")
    res.ob("B-merge", "put | stored byte = (old & !mask) | (mask & value) for every bit", good, detail, {"file": f.loc["file"], "line": sts[0][1]["line"]},
           sample=detail)


def _vars(e):
    if e[0] == "var":
        return {e[1]}
    if e[0] == "const":
        return set()
    out = set()
    for x in e[1:]:
        out |= _vars(x)
    return out


def _beval(e, env):
    k = e[0]
    if k == "var":
        return env[e[1]]
    if k == "const":
        return 1 if e[1] else 0
    if k == "Not":
        return 1 - _beval(e[1], env)
    a, b = _beval(e[1], env), _beval(e[2], env)
    return {"BitAnd": a & b, "BitOr": a | b, "BitXor": a ^ b}[k]


def _bstr(e):
    if e[0] == "var":
        return e[1]
    if e[0] == "const":
        return str(e[1])
    if e[0] == "Not":
        return "!" + _bstr(e[1])
    return "(%s %s %s)" % (_bstr(e[1]), {"BitAnd": "&", "BitOr": "|", "BitXor": "^"}[e[0]], _bstr(e[2]))


def _width_residue():
    import json, os, engine
    p = os.path.join(engine.VERIF, "oracles", "residue.json")
    out = []
    if os.path.exists(p):
        for r in json.load(open(p)).get("entries", []):
            if "WIDTH" in r.get("sides", []):
                out.append((re.compile(r["key"]), r))
    return out


def rule_r_width(prog, res, floor_put=380, floor_parse=380, which=("put", "parse")):
    """R-width: at every put::<IT>(_, w) / parse::<IT>(w) call site of the crate, w lies in [1, BITS(IT)]."""
    nput = nparse = 0
    fput = fparse = 0     # functions with at least one site: the floor counts these (388 / 387 today), so that merging the two puts of an
                          # optional field into one put of a merged pattern does not look like lost coverage
    for p in sorted(prog.fns):
        f = prog.fns[p]
        wanted = tuple(x for x, n in ((PUT, "put"), (PARSE, "parse")) if n in which)
        sites = [(b, t) for b, t in f.calls() if callee_of(t) in wanted]
        if not sites:
            continue
        fput += any(callee_of(t) == PUT for _, t in sites)
        fparse += any(callee_of(t) == PARSE for _, t in sites)
        res.fn(f)
        fa = FA(f, prog)
        iv = Intervals(fa, prog)
        for b, t in sites:
            c = callee_of(t)
            g = libmodel.carrier_of(t.get("rargs") or t.get("cargs"))
            args = fa.call_args(b)
            w = args[2] if c == PUT else args[1]
            if c == PUT:
                nput += 1
            else:
                nparse += 1
            if g is None:
                # generic forwarder (none today)
                res.ob("R-width", "%s | %s with an unresolved carrier" % (p, c.rsplit("::", 1)[1]), False, "", {"file": f.loc["file"], "line": t["line"]})
                continue
            name, kind, bits = g
            wi = iv.interval(w, b)
            lo = 1   # w = 0 at a byte-aligned offset underflows (o-1)/8 - o/8 inside put/parse
            ok = wi is not None and lo <= wi[0] and wi[1] <= bits
            key = "%s | %s::<%s>(%s)" % (p, c.rsplit("::", 1)[1], name, show(w, fa.names))
            detail = "width in %s, allowed [%d, %d]" % (wi, lo, bits)
            if not ok and wi is not None and wi[1] <= bits and wi[0] >= 0:
                # reviewed lower-bound exceptions (relational arguments), see oracles/residue.json
                for pat, r in _width_residue():
                    if pat.fullmatch("R-width | " + key):
                        ok = True
                        detail += " ; lower bound by residue %s: %s" % (r["id"], r["reason"][:80])
                        res.extra.setdefault("width_residue_used", set()).add(r["id"])
            res.ob("R-width", key, ok, detail, {"file": f.loc["file"], "line": t["line"]},
                   sample={"site": p, "carrier": name, "width": wi})
    active = set(prog.crate["features"])
    if "all_msgs" in active:
        if "put" in which:
            res.floor("R-width", "functions with put call sites", fput, floor_put)
        if "parse" in which:
            res.floor("R-width", "functions with parse call sites", fparse, floor_parse)
    return nput, nparse


def rule_p_pre(prog, res):
    """P-pre: the object invariants the interiors of parse/put are analysed under."""
    # Parser::new sites
    n = 0
    absorbed = prog.absorbed_fns()
    for p in sorted(prog.fns):
        if p in absorbed:
            continue          # a helper / closure inlined at every call site: its sites are examined in the callers' inlined copies
        f = prog.fns[p]
        for b, t in f.calls():
            c = callee_of(t)
            if c == "df::parser::Parser::new":
                n += 1
                fa = FA(f, prog)
                a = fa.call_args(b)
                x = a[0]
                while x.op in ("ref", "mem", "memval"):
                    x = x.args[0]
                ok = x.op == "call" and x.args[0] == "message_frame::MessageFrame::data" and is_const(a[1]) and const_val(a[1]) == 12
                res.ob("P-pre", "Parser::new site in %s reads MessageFrame::data() from bit 12" % p, ok, show(a, fa.names), {"file": f.loc["file"], "line": t["line"]})
            if c == "df::assembler::Assembler::new":
                n += 1
                fa = FA(f, prog)
                iv = Intervals(fa, prog)
                a = fa.call_args(b)
                import framing
                sl = framing.as_slice(a[0])
                ok = False
                d = show(a, fa.names)
                if sl is not None and sl[3] == "Range":
                    lo, hi = iv.interval(sl[1], b), iv.interval(sl[2], b)
                    ok = lo is not None and hi is not None and hi[1] - lo[0] <= 1023 and is_const(a[1]) and const_val(a[1]) == 0
                    d += " window %s..%s" % (lo, hi)
                res.ob("P-pre", "Assembler::new site in %s: window of at most 1023 bytes from bit 0" % p, ok, d, {"file": f.loc["file"], "line": t["line"]})
            if c == "df::parser::Parser::consume_bits":
                fa = FA(f, prog)
                iv = Intervals(fa, prog)
                a = fa.call_args(b)
                # argument = 8 * n where a dominating guard gives len(par.data()) >= n
                la, lc = lin(a[1])
                ok = False
                d = show(a[1], fa.names)
                if len(la) == 1 and lc == 0:
                    (nt, k), = list(la)
                    if k == 8:
                        for cfact, fc in iv.facts(b):
                            if cfact[0] == "le":
                                dd = dict(cfact[1])
                                lens = [x for x in dd if x.op == "len" and _is_parser_data(x.args[0])]
                                if lens and dd.get(nt) == 1 and dd[lens[0]] == -1 and cfact[2] >= 0 and len(dd) == 2:
                                    ok = True
                res.ob("P-pre", "consume_bits site in %s is guarded by len(par.data()) >= n and advances by 8*n" % p, ok, d, {"file": f.loc["file"], "line": t["line"]})
    res.floor("P-pre", "Parser/Assembler construction sites", n, 2)
    # the cursor fields are stored only by parse / consume_bits / put (and initialised by new)
    writers = set()
    for p, f in sorted(prog.fns.items()):
        for ai in range(1, f.argc + 1):
            ty = f.locals[ai]
            if ty.get("k") == "ref" and ty["mut"] and ty["to"].get("k") == "adt" and ty["to"]["path"] in ("df::parser::Parser", "df::assembler::Assembler"):
                adt = prog.adts[ty["to"]["path"]]
                ioff = [x["name"] for x in adt["variants"][0]["fields"]].index("offset")
                for blk in f.blocks:
                    for s in blk["stmts"]:
                        if s["k"] == "assign" and s["place"]["local"] == ai and len(s["place"]["proj"]) == 2 and s["place"]["proj"][0]["k"] == "deref" \
                                and s["place"]["proj"][1]["k"] == "field" and s["place"]["proj"][1]["i"] == ioff:
                            writers.add(p)
    allowed = {"df::parser::Parser::parse", "df::parser::Parser::consume_bits", "df::assembler::Assembler::put"}
    res.ob("P-pre", "cursor stores | Parser.offset / Assembler.offset are written only by parse, consume_bits and put", writers <= allowed and len(writers) >= 2,
           "writers: %s" % sorted(writers), sample=sorted(writers))
    # MessageFrame.data is at most 1023 bytes: data = fd[3..L+3] with L a 10-bit value
    f = prog.fn("message_frame::MessageFrame::new")
    if f is None:
        res.missing("P-pre", "message_frame::MessageFrame::new")
        return
    fa = FA(f, prog)
    iv = Intervals(fa, prog)
    adt = prog.adts.get("message_frame::MessageFrame")
    fields = [x["name"] for x in adt["variants"][0]["fields"]]
    import framing
    found = 0
    for b in sorted(f.reachable()):
        for i, s in enumerate(f.blocks[b]["stmts"]):
            if s["k"] == "assign" and s["rv"]["k"] == "aggregate" and s["rv"].get("path") == "message_frame::MessageFrame":
                v = fa.rv_term(s["rv"], (b, i))
                sl = framing.as_slice(v.args[3][fields.index("data")]) if "data" in fields and len(v.args[3]) == len(fields) else None
                ok = False
                d = ""
                if sl is not None and sl[1] is not None and sl[2] is not None:
                    la, ca = lin(sl[2])
                    lb, cb = lin(sl[1])
                    dd = dict(la)
                    for a_, q in lb:
                        dd[a_] = dd.get(a_, 0) - q
                    hi = ca - cb
                    okk = True
                    for a_, q in dd.items():
                        ia = iv.interval(a_, b)
                        if ia is None:
                            okk = False
                            break
                        hi += max(q * ia[0], q * ia[1])
                    ok = okk and hi <= 1023
                    d = "payload length <= %s" % hi
                found += 1
                if not ok:
                    sem = framing.frame_semantics(prog)
                    if not sem["undecided"] and not [1 for c_, t_ in sem["problems"] if c_ in ("out", "panic")]:
                        ok = True
                        d = "data = input[3 .. L+3] with L a 10-bit value (decided by A-sem): at most 1023 bytes"
                res.ob("P-pre", "MessageFrame.data holds at most 1023 bytes", ok, d, {"file": f.loc["file"], "line": s["line"]}, sample=d)
    res.floor("P-pre", "MessageFrame constructions", found, 1)
    # only MessageFrame::new builds a MessageFrame (fields are private: type level) - count aggregates crate-wide
    builders = set()
    for p, g in prog.fns.items():
        for blk in g.blocks:
            for s in blk["stmts"]:
                if s["k"] == "assign" and s["rv"]["k"] == "aggregate" and s["rv"].get("path") == "message_frame::MessageFrame":
                    builders.add(p)
    builders -= prog.derived_clone_fns("message_frame::MessageFrame")
    res.ob("P-pre", "MessageFrame values are built only by MessageFrame::new", builders == {"message_frame::MessageFrame::new"}, str(sorted(builders)), f.loc)


def _is_parser_data(obj):
    x = obj
    while x.op in ("mem", "memval", "ref"):
        x = x.args[0]
    return x.op == "call" and x.args[0] == "df::parser::Parser::data"


def rule_r_kind(prog, res):
    """R-kind: the 15 BitValue impls: 5 per kind, the same decision structure and result terms up to the carrier width."""
    from paths import enum_paths
    groups = {"U": [], "I": [], "SM": []}
    for p in sorted(prog.fns):
        m = re.fullmatch(r"<df::bit_value::(U|I|SM)(\d+) as df::bit_value::BitValue>::(\w+)", p)
        if m:
            groups[m.group(1)].append((int(m.group(2)), m.group(3), prog.fns[p]))
    for kind, lst in groups.items():
        bym = {}
        for bits, meth, f in lst:
            bym.setdefault(meth, []).append((bits, f))
        known = {m_: v for m_, v in bym.items() if m_ in ("sign_fix", "sign_fix_rev", "u8_cast", "val_cast")}
        res.ob("R-kind", "%s | four methods x five widths" % kind, len(known) == 4 and all(len(v) == 5 for v in known.values()),
               "found %d functions" % len(lst))
        for meth, fs in sorted(known.items()):
            sigs = {}
            for bits, f in fs:
                if bits == 8 and meth in ("u8_cast", "val_cast"):
                    continue   # u8 <-> 8-bit carrier: the cast is the identity / a sign reinterpretation
                res.fn(f)
                fa = FA(f, prog)
                paths = []
                for blocks, facts, rv, flist in enum_paths(fa):
                    fs_ = sorted("%s %s %s" % (_abs(show(t, fa.names), bits), k, _absv(v, bits)) for t, (k, v) in facts.items())
                    paths.append((tuple(fs_), _abs(show(rv, fa.names), bits)))
                sigs.setdefault(tuple(sorted(paths)), []).append(bits)
            okk = len(sigs) == 1
            dk = "%d distinct normalised decision structures: %s" % (len(sigs), list(sigs.values()))
            if not okk:
                # the sibling comparison is a cross-check of shapes; where every one of the impls is decided on its own against the kind's
                # specification (S-sem: all widths, all paths), the impls agree by meaning, whatever their shapes
                import signsem
                k_ = id(prog)
                if k_ not in _SIGNSEM:
                    _SIGNSEM[k_] = signsem.check(prog)
                o_ = _SIGNSEM[k_]
                mine = {f.path for _, f in fs}
                trouble = [x for x, _ in o_["problems"] + o_["undecided"] if x in mine]
                if not trouble and len(mine) == 5:
                    okk, dk = True, "shapes differ (%s); each impl decided against the specification of its kind by S-sem" % dk
            res.ob("R-kind", "%s::%s | the impls agree up to the carrier width" % (kind, meth), okk, dk, fs[0][1].loc,
                   sample={"widths": sorted(b for b, _ in fs), "paths": len(next(iter(sigs))) if sigs else 0})


def _abs(s, bits):
    s = re.sub(r"\b[iu]%d\b" % bits, "T", s)
    s = re.sub(r"\b%d\b" % bits, "W", s)
    return s


def _absv(v, bits):
    return "W" if v == bits else v


# ------------------------------------------------------------------ B-sem: partitioned abstract interpretation (bitsem.py)
_BITSEM = {}


def carrier_widths(prog):
    ws = set()
    n = 0
    for q, f in prog.fns.items():
        if q.endswith(" as df::bit_value::BitValue>::u8_cast"):
            ty = f.locals[0]
            if ty.get("k") in ("int", "uint"):
                ws.add(ty["bits"])
                n += 1
            else:
                return None, n
    return tuple(sorted(ws)), n


def bitsem_summary(prog):
    """{'put': out, 'parse': out} with out as bitsem.analyse (cached per program and on disk by the hash of the two bodies)."""
    key = id(prog)
    if key in _BITSEM:
        return _BITSEM[key]
    import bitsem, hashlib, json, os, engine
    ws, nimpl = carrier_widths(prog)
    out = {"widths": ws, "impls": nimpl}
    for path, kind, adt_name in ((PUT, "put", "df::assembler::Assembler"), (PARSE, "parse", "df::parser::Parser")):
        f = prog.fn(path)
        if f is None or not ws:
            out[kind] = None
            continue
        adt = prog.adts.get(adt_name)
        fields = [x["name"] for x in adt["variants"][0]["fields"]] if adt else []
        if "data" not in fields or "offset" not in fields:
            out[kind] = {"partitions": 0, "asserts_decided": 0, "assert_sites": [], "shift_sites": [], "expected": 8 * sum(ws),
                         "problems": {"struct": {"first": None, "count": 1, "text": "%s does not have the fields data and offset: %s" % (adt_name, fields)}}}
            continue
        order = (fields.index("data"), fields.index("offset"))
        h = hashlib.sha256((json.dumps(f.rec["blocks"], sort_keys=True) + json.dumps(f.rec["locals"], sort_keys=True) + repr(ws) + repr(order) + repr(len(fields))
                            + open(bitsem.__file__).read()).encode()).hexdigest()[:24]
        cpath = os.path.join(engine.CACHE, "bitsem-%s.json" % h)
        r = None
        if os.environ.get("VERIF_NOCACHE") != "1" and os.path.exists(cpath):
            try:
                r = json.load(open(cpath))
            except Exception:
                r = None
        if r is None:
            a = bitsem.analyse(prog, path, kind, widths=ws, field_order=order, nfields=len(fields))
            r = {"partitions": a["partitions"], "asserts_decided": a["asserts_decided"],
                 "assert_sites": sorted([list(x) for x in a["assert_sites"]], key=str), "shift_sites": sorted(x for x in a["shift_sites"] if x is not None),
                 "expected": 8 * sum(ws), "problems": {k: {"first": list(v["first"]), "count": v["count"], "text": v["text"]} for k, v in a["problems"].items()}}
            os.makedirs(engine.CACHE, exist_ok=True)
            with open(cpath + ".tmp", "w") as fh:
                json.dump(r, fh)
            os.replace(cpath + ".tmp", cpath)
        out[kind] = r
    _BITSEM[key] = out
    return out


def rule_bitsem(prog, res, rule="B-sem", which=("put", "parse")):
    """Bit-exactness of put / parse and panic freedom of their interiors, decided per partition (offset mod 8, width, carrier)."""
    s = bitsem_summary(prog)
    ws = s["widths"]
    res.ob(rule, "carriers | every BitValue::ValueType is a primitive integer (widths %s)" % (list(ws) if ws else "?"), bool(ws) and s["impls"] >= 15,
           "%d impls" % s["impls"], None)
    ok_all = True
    for kind in which:
        r = s.get(kind)
        path = PUT if kind == "put" else PARSE
        f = prog.fn(path)
        if r is None or f is None:
            res.missing(rule, path)
            ok_all = False
            continue
        res.fn(f)
        spec = ("the w bits at offset..offset+w are the low w bits of sign_fix_rev(value), most significant first; every other bit of the buffer keeps "
                "its value; the cursor advances by w; Err(BufferOverflow) exactly when 8*len < offset+w, with nothing written and the cursor unchanged"
                if kind == "put" else
                "the result is sign_fix(v, w) with v = the w buffer bits at offset..offset+w, most significant first, zero-extended; the buffer is not "
                "written; the cursor advances by w; Err(BufferOverflow) exactly when 8*len < offset+w with the cursor unchanged")
        probs = r["problems"]
        complete = r["partitions"] == r["expected"] and r["partitions"] > 0
        res.ob(rule, "%s | all %d partitions (offset mod 8) x (width 1..=W) x (W in %s) were interpreted" % (kind, r["expected"], list(ws)), complete,
               "%d partitions" % r["partitions"], f.loc)
        res.ob(rule, "%s | at least one Assert terminator was decided in the interior (vacuity guard)" % kind, r["asserts_decided"] > 0,
               "%d assert evaluations over %d sites" % (r["asserts_decided"], len(r["assert_sites"])), f.loc)
        if not probs:
            res.ob(rule, "%s | %s" % (kind, spec), True, "holds in every partition; %d assert evaluations, all passing" % r["asserts_decided"], f.loc,
                   sample={"function": path, "partitions": r["partitions"], "assert_sites": len(r["assert_sites"]), "carrier_shift_sites": len(r["shift_sites"])})
        else:
            ok_all = False
            for k, v in sorted(probs.items())[:12]:
                w_ = v["first"]
                wit = "first at offset%%8=%s width=%s carrier=%s bits" % tuple(w_) if w_ else ""
                res.ob(rule, "%s | %s" % (kind, k[:160]), False, "%s; %d partitions affected; %s" % (v["text"][:400], v["count"], wit),
                       {"file": f.loc["file"], "line": _line_of(v["text"]) or f.loc["line"]})
    return ok_all


def _line_of(text):
    m = re.search(r"\(line (\d+)\)", text)
    return int(m.group(1)) if m else None


# ------------------------------------------------------------------ S-sem: value mapping of the 15 carriers (signsem.py)
_SIGNSEM = {}


def rule_signsem(prog, res, rule="S-sem"):
    """sign_fix / sign_fix_rev of every BitValue impl, every width 1..=BITS, against the unsigned / two's-complement /
    sign-magnitude specification (abstract interpretation, see signsem.py)."""
    import signsem
    k = id(prog)
    if k not in _SIGNSEM:
        _SIGNSEM[k] = signsem.check(prog)
    o = _SIGNSEM[k]
    res.ob(rule, "carriers | 15 impls x {sign_fix, sign_fix_rev} found", o["impls"] == 30, "found %d" % o["impls"], None)
    bad = {}
    for f, t in o["problems"]:
        bad.setdefault(f, []).append(t)
    und = {}
    for f, t in o["undecided"]:
        und.setdefault(f, []).append(t)
    n = 0
    for p in sorted(prog.fns):
        m = signsem.IMPL.fullmatch(p)
        if not m:
            continue
        if m.group(3) in ("u8_cast", "val_cast"):
            f = prog.fns[p]
            res.fn(f)
            probs = bad.get(p, []) + ["undecided: " + u for u in und.get(p, [])]
            res.ob(rule, "%s%s::%s | %s" % (m.group(1), m.group(2), m.group(3), "keeps the low 8 bits" if m.group(3) == "val_cast" else "zero-extends the byte"),
                   not probs, "; ".join(probs)[:300], f.loc)
            continue
        n += 1
        f = prog.fns[p]
        res.fn(f)
        kind = {"U": "unsigned: identity", "I": "two's complement: sign extension from bit len-1 on read, low len bits on write",
                "SM": "sign-magnitude: sign bit len-1 and magnitude = |value|"}[m.group(1)]
        probs = bad.get(p, []) + ["undecided: " + u for u in und.get(p, [])]
        res.ob(rule, "%s%s::%s | %s, for every width 1..=%s" % (m.group(1), m.group(2), m.group(3), kind, m.group(2)), not probs,
               "; ".join(probs)[:500] if probs else "holds in all %s width partitions" % m.group(2), f.loc,
               sample={"function": p, "partitions": int(m.group(2))} if n <= 2 else None)
    res.extra["signsem"] = {"partitions": o["partitions"], "paths": o["paths"]}


def import_transport(prog, res, signed=True, which=("put", "parse")):
    """For properties whose statement is about wire content produced / consumed through put and parse (masks, counts, list elements, text bytes):
    the bit-exact reading of put / parse (B-sem) and, if signed values are involved, of the carriers (S-sem) is part of what they rely on.
    Only those two rule families are recorded, under the importing property."""
    import engine
    view = engine.Filtered(res, {"B-sem", "S-sem"})
    rule_bitsem(prog, view, which=which)
    if signed:
        rule_signsem(prog, view)
