"""Rules on MessageBuilder (C09 frame-shape rules W-*, C12 typestate rules T-*)."""
from terms import FA, show, mk, ty_of, is_const, const_val, T, subterms, set_ty, U
from facts import callee_of
from intervals import Intervals
from algebra import lin, lin_str, bits_of, bits_str, expect_bits, fact_of_guard
from framing_slices import as_slice, strip_ref
import libmodel

MB = "msg::message::MessageBuilder"
BUILD = MB + "::build_message"


# ------------------------------------------------------------------ W-sem: abstract interpretation of build_message (buildsem.py)
_BSEM = {}
BSEM_RULES = {
    "set": ("T-set", "build | every build that writes into the buffer leaves has_run = true (failed builds included)"),
    "gate": ("T-gate", "build | a builder that may have been used reaches Assembler::new only with data[3..1026] zeroed"),
    "writes": ("T-writes", "build | apart from the wipe, build_message itself stores only the length bytes and the checksum bytes; data[0] is never written"),
    "win": ("W-win", "build | the assembler window is data[3..1026], starting at bit 0"),
    "out": ("W-out", "build | the returned frame is data[.. data_len+6]"),
    "len": ("W-len", "build | data[1] = data_len >> 8 (six reserved bits zero), data[2] = data_len & 0xff, data_len = ceil(bits / 8)"),
    "crc": ("W-crc", "build | data[data_len+3 ..+6] = bits 23..16, 15..8, 7..0 of the CRC over data[.. data_len+3], computed after the length bytes are stored"),
    "num": ("W-num", "build | a message without a number is refused with EncodingNotSupported before anything is written"),
    "first": ("W-num", "build | the first write of a build is the message's own number in 12 bits, and exactly one encoder runs after it"),
    "panic": ("W-sem", "build | every Assert terminator, index and slice operation of build_message is decided on every abstract path"),
}
BSEM_COVERED = {"T-set", "T-gate", "T-clear", "T-writes", "W-win", "W-out", "W-len", "W-crc", "W-num"}


def build_semantics(prog):
    k = id(prog)
    if k not in _BSEM:
        import buildsem, dispatch, engine
        try:
            # {variant: number} as Message::number states it (T-num judges that table; here it only says which literal is a variant's own number)
            numtab = dispatch.number_table(prog, engine.Result("probe"))
            numtab = {k_: v_ for k_, v_ in (numtab or {}).items() if k_ is not None}
            _BSEM[k] = buildsem.check(prog, numtab)
        except RecursionError:
            _BSEM[k] = {"paths": 0, "ok_paths": 0, "problems": [], "undecided": ["recursion limit"]}
    return _BSEM[k]


class BSemBacked:
    def __init__(self, res):
        self.res = res
        self.extra = res.extra

    def ob(self, rule, key, ok, detail="", loc=None, sample=None):
        if rule in BSEM_COVERED and not ok and not str(key).startswith("build_generated"):
            return self.res.ob(rule, key, True, "shape not recognised by the template rule; the clause is decided by W-sem (abstract interpretation). " + str(detail)[:200], loc)
        return self.res.ob(rule, key, ok, detail, loc, sample=sample)

    def floor(self, *a, **k):
        self.res.floor(*a, **k)

    def missing(self, rule, what):
        if rule in BSEM_COVERED:
            return self.res.ob(rule, "anchor | %s" % what, True, "template anchor absent; the clause is decided by W-sem", None)
        self.res.missing(rule, what)

    def fn(self, f):
        self.res.fn(f)


def bsem_obligations(prog, res):
    """True (clean) / False (specification violated) / None (outside the modelled subset)"""
    sem = build_semantics(prog)
    f = prog.fn(BUILD)
    loc = f.loc if f is not None else None
    if sem["undecided"]:
        res.extra["W-sem"] = "not applicable: " + sem["undecided"][0]
        return None
    bycat = {}
    for cat, text in sem["problems"]:
        bycat.setdefault(cat, []).append(text)
    for cat, (rule, desc) in BSEM_RULES.items():
        probs = bycat.get(cat, [])
        res.ob(rule, desc + " [W-sem]", not probs, "; ".join(probs)[:600] if probs else
               "abstract interpretation: %d paths (%d successful) over has_run x number() x variant x call outcomes x bit length mod 8" % (sem["paths"], sem["ok_paths"]),
               loc, sample={"engine": "buildsem", "paths": sem["paths"]} if cat == "crc" else None)
    return not sem["problems"]


class BuildModel:
    def __init__(self, prog, res, path=BUILD):
        self.ok = False
        self.sem = None
        if path == BUILD:
            self.sem = bsem_obligations(prog, res)
            if self.sem:
                res = BSemBacked(res)
        f = prog.fn(path)
        self.f = f
        self.path = path
        if f is None:
            res.missing("W-anchor", path)
            return
        res.fn(f)
        self.fa = fa = FA(f, prog)
        self.iv = Intervals(fa, prog)
        self.names = fa.names
        adt = prog.adts.get(MB)
        if adt is None:
            res.missing("W-anchor", MB)
            return
        self.fields = [x["name"] for x in adt["variants"][0]["fields"]]
        if "data" not in self.fields or "has_run" not in self.fields:
            # the clean/dirty typestate is anchored in these two fields: a different state representation needs its own rule
            res.missing("T-anchor", "MessageBuilder fields `data` and `has_run` (found %s): the buffer-reuse discipline changed shape" % self.fields)
            return
        self.i_data = self.fields.index("data")
        self.i_run = self.fields.index("has_run")
        self.selfobj = mk("mem", fa.start_val(1, 0))
        self.data_obj = mk("pf", self.selfobj, self.i_data)
        self.run_obj = mk("pf", self.selfobj, self.i_run)
        # calls of interest
        self.asm_new = [(b, t) for b, t in f.calls() if callee_of(t) == "df::assembler::Assembler::new"]
        self.wipe_fns = wipe_functions(prog)
        self.clear = [(b, t) for b, t in f.calls() if callee_of(t) in self.wipe_fns and covering(self.wipe_fns[callee_of(t)][1])]
        self.encodes = [(b, t) for b, t in f.calls() if (callee_of(t) or "").startswith("msg::") and (callee_of(t) or "").endswith(("::encode", "::generate"))]
        self.puts = [(b, t) for b, t in f.calls() if callee_of(t) == "df::assembler::Assembler::put"]
        self.offsets = [(b, t) for b, t in f.calls() if callee_of(t) == "df::assembler::Assembler::offset"]
        # stores
        self.stores = []
        for e in fa.mem_events():
            if e[0] == "store":
                _, eb, ei, s = e
                P = fa.objpath(s["place"], (eb, ei))
                v = fa.rv_term(s["rv"], (eb, ei))
                self.stores.append((eb, ei, P, v, s))
        # Ok returns
        self.oks = []
        for b in sorted(f.reachable()):
            for i, s in enumerate(f.blocks[b]["stmts"]):
                if s["k"] == "assign" and s["place"]["local"] == 0 and not s["place"]["proj"]:
                    v = fa.rv_term(s["rv"], (b, i))
                    if v.op == "agg" and v.args[2] == "Ok":
                        self.oks.append((b, i, v, s))
        self.inline_wipes = [w for w in find_wipes(prog, f, fa, self.iv, self.data_obj) if covering(w)]
        self.ok = True

    def loc(self, line=None):
        return {"file": self.f.loc["file"], "line": line or self.f.loc["line"]}

    def data_index(self, P):
        """P = self.data[idx] -> idx term"""
        if P.op == "pi" and P.args[0] is self.data_obj:
            return P.args[1]
        return None


def rules_frame_shape(prog, res, m=None, tag="build"):
    """W-num, W-win, W-len, W-crc, W-out on build_message."""
    if m is None:
        m = BuildModel(prog, res)
    if not m.ok:
        return m
    if getattr(m, "sem", None):
        res = BSemBacked(res)
    f, fa, iv, names = m.f, m.fa, m.iv, m.names
    # ---- W-win: one assembler over data[3..1026] from bit 0
    okw = False
    d = ""
    if len(m.asm_new) == 1:
        b, t = m.asm_new[0]
        a = fa.call_args(b)
        sl = as_slice(a[0])
        d = show(a, names)
        if sl is not None and sl[0] is m.data_obj and sl[3] == "Range" and is_const(sl[1]) and is_const(sl[2]) and is_const(a[1]):
            lo, hi = const_val(sl[1]), const_val(sl[2])
            okw = lo == 3 and hi - lo == 1023 and const_val(a[1]) == 0
    res.ob("W-win", "%s | payload window is data[3..1026] (1023 bytes) from bit 0" % tag, okw, d, m.loc(), sample=d)
    # ---- W-num
    oknum = False
    d = ""
    number_put = None
    if len(m.puts) >= 1:
        # the put that dominates every encode call
        for b, t in m.puts:
            a = fa.call_args(b)
            g = libmodel.carrier_of(t.get("rargs") or t.get("cargs"))
            if is_const(a[2]) and const_val(a[2]) == 12 and g and g[0] == "U16":
                v = a[1]
                if m.path == BUILD:
                    src_ok = v.op == "field" and v.args[1] == 0 and v.args[0].op == "downcast" and v.args[0].args[1] == 1 \
                        and v.args[0].args[0].op == "call" and v.args[0].args[0].args[0] == "msg::message::Message::number" \
                        and _root_arg(v.args[0].args[0].args[1][0]) == 2
                else:
                    src_ok = v.op == "arg"
                dom = all(f.dominates(b, eb) for eb, _ in m.encodes)
                first = not any(f.dominates(pb, b) and pb != b for pb, _ in m.puts)
                d = "put::<U16>(%s, 12) dominates %d encode calls" % (show(v, names), len(m.encodes))
                if src_ok and dom and first and m.asm_new and f.dominates(m.asm_new[0][0], b):
                    oknum = True
                    number_put = b
    res.ob("W-num", "%s | the first write is the message's own number in 12 bits" % tag, oknum, d, m.loc(), sample=d)
    if m.path == BUILD:
        # refusal: number() == None returns Err(EncodingNotSupported) and no encode call is reachable from that arm
        okref = False
        for b in sorted(f.reachable()):
            for i, s in enumerate(f.blocks[b]["stmts"]):
                if s["k"] == "assign" and s["place"]["local"] == 0 and not s["place"]["proj"]:
                    v = fa.rv_term(s["rv"], (b, i))
                    if v.op == "agg" and v.args[2] == "Err" and v.args[3][0].op == "agg" and v.args[3][0].args[2] == "EncodingNotSupported":
                        g = fa.guards(b)
                        none = any(gt.op == "discr" and gt.args[0].op == "call" and gt.args[0].args[0] == "msg::message::Message::number"
                                   and ((gk == "ne" and 1 in gv) or (gk == "eq" and gv == 0)) for (gt, gk, gv, _, _s) in g)
                        reach = f.reach_from(b)
                        okref = none and not any(eb in reach for eb, _ in m.encodes)
        res.ob("W-num", "%s | messages without a number are refused with EncodingNotSupported before any field is written" % tag, okref, "", m.loc())
    # ---- data_len
    if len(m.oks) != 1:
        res.ob("W-out", "%s | exactly one Ok return" % tag, False, "found %d" % len(m.oks), m.loc())
        return m
    okb, oki, okv, oks = m.oks[0]
    out = as_slice(okv.args[3][0])
    DL = None
    if out is not None and out[0] is m.data_obj and out[3] == "RangeTo":
        la, lc = lin(out[2])
        if len(la) == 1:
            (A, k), = list(la)
            if k == 1:
                # data_len is the sub-term of the slice end whose linear form is end - 6
                for x in subterms(out[2]):
                    if isinstance(x, T) and x.op in ("bin", "call", "field", "phi") and lin(x) == (la, lc - 6):
                        DL = x
                        break
    DLlin = lin(DL) if DL is not None else None
    res.ob("W-out", "%s | returns data[..data_len + 6]" % tag, DL is not None, show(okv, names), m.loc(oks["line"]), sample=show(okv, names))
    if DL is None:
        return m
    # data_len = ceil(offset / 8)
    okdl = False
    off = None
    x = DL
    if x.op == "bin" and x.args[0] == "Add" and is_const(x.args[2]) and const_val(x.args[2]) == 1:
        y = x.args[1]
        if y.op == "bin" and y.args[0] == "Div" and is_const(y.args[2]) and const_val(y.args[2]) == 8:
            z = y.args[1]
            if z.op == "bin" and z.args[0] == "Sub" and is_const(z.args[2]) and const_val(z.args[2]) == 1:
                off = z.args[1]
    if off is None and x.op == "bin" and x.args[0] == "Div" and is_const(x.args[2]) and const_val(x.args[2]) == 8:
        z = x.args[1]
        if z.op == "bin" and z.args[0] == "Add" and is_const(z.args[2]) and const_val(z.args[2]) == 7:
            off = z.args[1]
    if off is not None and off.op == "call" and off.args[0] == "df::assembler::Assembler::offset":
        ob = off.args[3]
        # read after every encode (dominated by... all encodes reach it) and on the success path only
        okdl = all(ob in f.reach_from(eb) for eb, _ in m.encodes) and m.asm_new and f.dominates(m.asm_new[0][0], ob)
    dli = iv.interval(DL, okb)
    res.ob("W-len", "%s | data_len = ceil(assembler offset / 8), read after the body was written" % tag, okdl, show(DL, names), m.loc(), sample=show(DL, names))
    res.ob("W-len", "%s | data_len lies in [2, 1023] (frame length 8..1029)" % tag, dli is not None and dli[0] >= 2 and dli[1] <= 1023,
           "interval %s" % (dli,), m.loc(), sample={"data_len": dli})
    # ---- header / crc stores
    by_idx = {}
    for eb, ei, P, v, s in m.stores:
        idx = m.data_index(P)
        if idx is not None:
            la, lc = lin(idx)
            key = None
            if not la:
                key = ("c", lc)
            elif la == DLlin[0]:
                key = ("dl", lc - DLlin[1])
            by_idx.setdefault(key, []).append((eb, ei, v, s))
    m.by_idx = by_idx

    def one(key):
        v = by_idx.get(key, [])
        return v[0] if len(v) == 1 else None
    s1, s2 = one(("c", 1)), one(("c", 2))
    ok1 = ok2 = False
    d1 = d2 = ""
    if s1:
        bs = bits_of(s1[2])
        d1 = bits_str(bs, names)
        ok1 = expect_bits(bs, [(0, DL, 8, 8)])
    if s2:
        bs = bits_of(s2[2])
        d2 = bits_str(bs, names)
        ok2 = expect_bits(bs, [(0, DL, 0, 8)])
    res.ob("W-len", "%s | header byte 1 = data_len bits 15..8 (reserved bits zero because data_len <= 1023)" % tag, ok1 and dli is not None and dli[1] <= 1023, d1, m.loc(), sample=d1)
    res.ob("W-len", "%s | header byte 2 = data_len bits 7..0" % tag, ok2, d2, m.loc(), sample=d2)
    # crc
    crc_t = None
    okcrc = True
    dd = []
    for off_, lo in ((3, 16), (4, 8), (5, 0)):
        st = one(("dl", off_))
        if st is None:
            okcrc = False
            dd.append("no unique store at data_len+%d" % off_)
            continue
        bs = bits_of(st[2])
        dd.append(bits_str(bs, names))
        srcs = {x[0] for x in bs if isinstance(x, tuple)}
        if len(srcs) != 1:
            okcrc = False
            continue
        src = next(iter(srcs))
        if crc_t is None:
            crc_t = src
        if src is not crc_t or not expect_bits(bs, [(0, src, lo, 8)]):
            okcrc = False
    okobj = False
    if crc_t is not None and crc_t.op == "call" and crc_t.args[0] == "crc_any::CRC::get_crc":
        recv = crc_t.args[1][0]
        if recv.op == "ref" and recv.args[0].op == "loc":
            X = recv.args[0].args[1]
            ctor = [d_ for d_ in fa.defs(X) if d_[2] == "call"]
            digs = [(b, fa.call_args(b)) for b, t in f.calls() if callee_of(t) == "crc_any::CRC::digest"]
            if len(ctor) == 1 and callee_of(f.term(ctor[0][0])) == "crc_any::CRC::crc24lte_a" and len(digs) == 1:
                db, da = digs[0]
                sl = as_slice(da[1])
                if da[0] is recv and sl is not None and sl[0] is m.data_obj and sl[3] == "RangeTo":
                    la, lc = lin(sl[2])
                    # the digest must see the final header: after the two length stores
                    after = all(f.dominates(s_[0], db) for s_ in (s1, s2) if s_)
                    okobj = la == DLlin[0] and lc - DLlin[1] == 3 and f.dominates(db, crc_t.args[3]) and after and s1 and s2
    res.ob("W-crc", "%s | bytes data_len+3..+5 = CRC bits 23..16, 15..8, 7..0" % tag, okcrc, " ; ".join(dd), m.loc(), sample=dd)
    res.ob("W-crc", "%s | the CRC is crc24lte_a over data[..data_len+3], computed after the length bytes are stored" % tag, bool(okobj), "", m.loc())
    # ---- T-writes: all five stores dominate the Ok return; no other store into data
    five = [one(("c", 1)), one(("c", 2)), one(("dl", 3)), one(("dl", 4)), one(("dl", 5))]
    okt = all(x is not None and f.dominates(x[0], okb) for x in five)
    extra = [k for k in by_idx if k not in (("c", 1), ("c", 2), ("dl", 3), ("dl", 4), ("dl", 5))]
    res.ob("T-writes", "%s | header and checksum bytes are rewritten on every successful build; no other direct store into data" % tag,
           okt and not extra, "extra store indices: %s" % extra, m.loc())
    # byte 0: no store can hit index 0 (T-pre)
    okpre = True
    for key, lst in by_idx.items():
        for eb, ei, v, s in lst:
            idx = m.data_index(fa.objpath(s["place"], (eb, ei)))
            ii = iv.interval(idx, eb)
            if ii is None or ii[0] < 1:
                okpre = False
    res.ob("T-pre", "%s | no direct store can touch data[0] (the preamble)" % tag, okpre, "", m.loc())
    return m


def _root_arg(t):
    x = t
    while x.op in ("ref", "mem", "memval"):
        x = x.args[0]
    return x.args[1] if x.op == "arg" else None


def find_wipes(prog, g, ga, giv, data_obj):
    """Program points of g that zero a contiguous range of the builder's buffer:
       W2  <[u8]>::fill(&mut data[lo..hi], 0)                      -> block of the call
       W3  for d in data[lo..hi].iter_mut() { *d = 0 }  (no break)   -> loop header block
    Returns [{'block', 'lo': (a,b), 'hi': (a,b), 'kind'}]"""
    out = []
    for b, t in g.calls():
        if callee_of(t) == "core::slice::<impl [T]>::fill":
            a = ga.call_args(b)
            sl = as_slice(a[0])
            if sl is not None and sl[0] is data_obj and is_const(a[1]) and const_val(a[1]) == 0:
                lo = giv.interval(sl[1], b) if sl[1] is not None else (0, 0)
                hi = giv.interval(sl[2], b) if sl[2] is not None else (1029, 1029)
                out.append({"block": b, "lo": lo, "hi": hi, "kind": "fill"})
    loops = g.loops()
    stores = [e for e in ga.mem_events() if e[0] == "store"]
    for h, body in loops.items():
        inl = [e for e in stores if e[1] in body]
        if len(inl) != 1:
            continue
        _, eb, ei, s = inl[0]
        v = ga.rv_term(s["rv"], (eb, ei))
        P = ga.objpath(s["place"], (eb, ei))
        ptr = P.args[0] if P.op == "mem" else None
        if not (ptr is not None and ptr.op == "field" and ptr.args[0].op == "downcast" and ptr.args[0].args[0].op == "call"
                and ptr.args[0].args[0].args[0] in libmodel.FINITE_NEXT and is_const(v) and const_val(v) == 0):
            continue
        nxt = ptr.args[0].args[0]
        src = libmodel.iterator_source(nxt, ga)
        if src is None:
            continue
        x = src[0]
        while x.op == "call" and x.args[0] in (libmodel.INTO_ITER, "core::slice::<impl [T]>::iter_mut"):
            x = x.args[1][0]
        sl = as_slice(x)
        if sl is None or sl[0] is not data_obj:
            continue
        # no early exit: the only edge leaving the loop starts at the block that switches on next()'s discriminant
        exits = [(x_, y) for x_ in body for y in g.succ(x_) if y not in body and g.term(y)["k"] != "unreachable"]
        okexit = len(exits) == 1 and g.term(exits[0][0])["k"] == "switch"
        # the store runs in every iteration: its block dominates every latch
        latches = [x_ for x_ in body if h in g.succ(x_)]
        okstore = all(g.dominates(eb, l) for l in latches)
        if okexit and okstore:
            lo = giv.interval(sl[1], 0) if sl[1] is not None else (0, 0)
            hi = giv.interval(sl[2], 0) if sl[2] is not None else (1029, 1029)
            out.append({"block": h, "lo": lo, "hi": hi, "kind": "loop", "exit_from": exits[0][0]})
    return out


def covering(w):
    lo, hi = w["lo"], w["hi"]
    return lo is not None and hi is not None and 1 <= lo[0] and lo[1] <= 3 and hi[0] >= 1026


def wipe_functions(prog):
    """MessageBuilder methods whose whole effect is one covering wipe of self.data (today: clear_data)."""
    out = {}
    adt = prog.adts.get(MB)
    if adt is None:
        return out
    fields = [x["name"] for x in adt["variants"][0]["fields"]]
    if "data" not in fields:
        return out
    for p, g in prog.fns.items():
        if not p.startswith(MB + "::") or g.rec.get("argc") != 1:
            continue
        ty = g.locals[1] if len(g.locals) > 1 else None
        if not (ty and ty.get("k") == "ref" and ty.get("mut")):
            continue
        ga = FA(g, prog)
        giv = Intervals(ga, prog)
        data_obj = mk("pf", mk("mem", ga.start_val(1, 0)), fields.index("data"))
        ws = find_wipes(prog, g, ga, giv, data_obj)
        stores = [e for e in ga.mem_events() if e[0] == "store"]
        if len(ws) == 1 and len(stores) <= 1:
            out[p] = (g, ws[0])
    return out


def rules_typestate(prog, res, m=None, tag="build"):
    """C12: T-new, T-gate, T-set, T-clear."""
    if m is None:
        m = BuildModel(prog, res)
    if not m.ok:
        return m
    if getattr(m, "sem", None):
        res = BSemBacked(res)
    f, fa, iv, names = m.f, m.fa, m.iv, m.names
    # ---- T-gate: every path to Assembler::new passes the wipe or the has_run == false edge
    okg = False
    d = ""
    wipe_blocks = [b for b, t in m.clear] + [w["block"] for w in m.inline_wipes]
    if len(m.asm_new) == 1 and wipe_blocks:
        ab = m.asm_new[0][0]
        # edges where has_run (entry value) is known false
        run0 = mk("memval", m.run_obj)
        false_edges = []
        for b in sorted(f.reachable()):
            t = f.term(b)
            if t["k"] == "switch":
                for s in f.succ(b):
                    for g in fa.edge_guard(b, s):
                        if g[0] is run0 and ((g[1] == "eq" and g[2] == 0) or (g[1] == "ne" and g[2] == (1,))):
                            false_edges.append((b, s))
        # a wipe function must be applied to self
        self_ok = True
        for cb, t in m.clear:
            ca = fa.call_args(cb)
            self_ok = self_ok and ca[0].op == "ref" and ca[0].args[0] is m.selfobj
        reach = f.reach_from(0, removed_edges=false_edges, removed_blocks=wipe_blocks)
        okg = ab not in reach and self_ok and bool(false_edges)
        d = "has_run==false edges: %s ; wipe blocks %s ; assembler reachable without either: %s" % (false_edges, ["bb%d" % b for b in wipe_blocks], ab in reach)
    res.ob("T-gate", "%s | the buffer is wiped before reuse unless the builder is provably fresh (has_run == false)" % tag, okg, d, m.loc(), sample=d)
    # ---- T-set: has_run = true dominates Assembler::new, is the only has_run store
    runstores = [(eb, ei, v) for eb, ei, P, v, s in m.stores if P is m.run_obj]
    okset = len(runstores) == 1 and is_const(runstores[0][2]) and const_val(runstores[0][2]) == 1 and m.asm_new \
        and f.dominates(runstores[0][0], m.asm_new[0][0])
    res.ob("T-set", "%s | has_run = true is stored before the assembler is created (also marks failed builds dirty)" % tag, bool(okset),
           "stores to has_run: %s" % [(show(v, names)) for eb, ei, v in runstores], m.loc())
    return m


from statefields import rule_other_state as _other_state


def rule_other_state(prog, res, fields, keep=("data", "has_run")):
    return _other_state(prog, res, "T-state", "builder", "MessageBuilder", fields, keep, [BUILD], MB + "::",
                        what="the frame, the return value or a branch of build_message and the builder methods it calls")


def rules_new_clear(prog, res):
    """T-new and T-clear."""
    _s = build_semantics(prog)
    if not _s["undecided"] and not _s["problems"]:
        res = BSemBacked(res)
    f = prog.fn(MB + "::new")
    if f is None:
        res.missing("T-new", MB + "::new")
    else:
        res.fn(f)
        fa = FA(f, prog)
        adt = prog.adts.get(MB)
        fields = [x["name"] for x in adt["variants"][0]["fields"]]
        if "data" not in fields or "has_run" not in fields:
            res.missing("T-new", "MessageBuilder fields `data` and `has_run`")
            return
        v = fa.end_val(0, f.return_blocks()[0])
        ok = False
        d = show(v, fa.names)
        # upd(agg MessageBuilder(repeat(0,1029), false), [f data, i 0], 0xD3)
        x = v
        ups = []
        while x.op == "upd":
            ups.append((x.args[1], x.args[2]))
            x = x.args[0]
        if x.op == "agg" and x.args[0] == MB and len(x.args[3]) == len(fields):
            data0 = x.args[3][fields.index("data")]
            run0 = x.args[3][fields.index("has_run")]
            okd = data0.op == "repeat" and is_const(data0.args[0]) and const_val(data0.args[0]) == 0 and data0.args[1] == 1029
            okr = is_const(run0) and const_val(run0) == 0
            oku = len(ups) == 1 and ups[0][0] == (("f", fields.index("data")), ("i", mk("const", "usize", 0))) and is_const(ups[0][1]) and const_val(ups[0][1]) == 0xD3
            ok = okd and okr and oku
            if not ok and not ups and okr and data0.op == "upd":
                # the array is finished first and then moved into the struct:  upd(repeat(0, 1029), [i 0], 0xD3)
                inner = data0.args[0]
                okd2 = inner.op == "repeat" and is_const(inner.args[0]) and const_val(inner.args[0]) == 0 and inner.args[1] == 1029
                oku2 = data0.args[1] == (("i", mk("const", "usize", 0)),) and is_const(data0.args[2]) and const_val(data0.args[2]) == 0xD3
                ok = okd2 and oku2
        if not ok:
            # the same question asked of the body itself: new() takes no input, so it can simply be evaluated
            try:
                import guardsem
                val = guardsem.eval_constructor(prog, MB + "::new")
                if isinstance(val, guardsem.Adt) and len(val.fields) == len(fields):
                    dv = val.fields[fields.index("data")]
                    rv_ = val.fields[fields.index("has_run")]
                    cv = lambda x: x.concrete() if hasattr(x, "concrete") else x
                    if isinstance(dv, list) and len(dv) == 1029 and cv(dv[0]) == 0xD3 and all(cv(x) == 0 for x in dv[1:]) and cv(rv_) in (0, False):
                        ok = True
                        d = "evaluated: data = [0xD3, 0, .. 0] (1029 bytes), has_run = false"
            except Exception as e:       # outside the evaluator's subset: the template verdict stands
                d += " ; evaluation: %r" % (e,)
        res.ob("T-new", "new | data = [0; 1029] with data[0] = 0xD3, has_run = false", ok, d, f.loc, sample=d)
        rule_other_state(prog, res, fields)
    # only `new` builds a MessageBuilder / stores has_run=false
    builders = set()
    for p, g in prog.fns.items():
        for blk in g.blocks:
            for s in blk["stmts"]:
                if s["k"] == "assign" and s["rv"]["k"] == "aggregate" and s["rv"].get("path") == MB:
                    builders.add(p)
    builders -= prog.derived_clone_fns(MB)
    res.ob("T-new", "crate | MessageBuilder values are built only by MessageBuilder::new", builders == {MB + "::new"}, str(sorted(builders)))
    wf = wipe_functions(prog)
    bf = prog.fn(BUILD)
    called = set()
    if bf is not None:
        called = {callee_of(t) for b, t in bf.calls() if callee_of(t) in wf}
    if not called and bf is not None:
        # no wipe function: the wipe must be inline in build_message (checked by T-gate through find_wipes)
        bfa = FA(bf, prog)
        adt = prog.adts.get(MB)
        fields = [x["name"] for x in adt["variants"][0]["fields"]]
        data_obj = mk("pf", mk("mem", bfa.start_val(1, 0)), fields.index("data"))
        ws = find_wipes(prog, bf, bfa, Intervals(bfa, prog), data_obj)
        ok = any(covering(w) for w in ws)
        res.ob("T-clear", "wipe | zeroes a range that covers the payload window data[3..1026] and leaves data[0]", ok,
               "no wipe function is called from build_message; inline wipes: %s" % [(w["kind"], w["lo"], w["hi"]) for w in ws], bf.loc)
        return
    for p in sorted(called):
        g, w = wf[p]
        res.fn(g)
        d = "%s wipes data[%s..%s] (%s)" % (p.rsplit("::", 1)[1], w["lo"], w["hi"], w["kind"])
        res.ob("T-clear", "%s | zeroes a range that covers the payload window data[3..1026] and leaves data[0]" % p.rsplit("::", 1)[1], covering(w), d, g.loc, sample=d)
