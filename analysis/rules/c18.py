"""C18: signal identifier tables are one-to-one and ordered as on the wire."""
import os
import sigtab
import engine

META = {
    "level": "proof",
    "exhaustive": True,
    "trusted_base": ["oracles/msm_signals.json (frozen transcription of the RTCM 10403.3/.4 MSM signal tables)",
                     "rustc match lowering (SwitchInt)", "u8::cmp / char::cmp of core are the usual total orders", "mirfacts exporter"],
    "explanation": "For each of the 7 constellations to_sig and to_id are extracted by enumerating every path of their (loop-free) match "
                   "lowering; obligations: to_id = to_sig^-1 (bijection), ids in 2..=32, every entry agrees with the frozen standard table "
                   "and no standard entry is missing, is_valid == to_id().is_some(). Ord::cmp is decided by finite case analysis over "
                   "(recognised?, recognised?, band ordering): (Some,Some) -> position order, unrecognised after recognised, otherwise "
                   "lexicographic (band, attribute): that is key(a).cmp(key(b)) for key = (0,id) | (1,band,attr), a total order, consistent "
                   "with derived Eq by injectivity; partial_cmp == Some(cmp). "
                   "Y-sem (ordsem.py) decides cmp first by evaluating its body once per consistent combination of (recognised?, recognised?, order of positions, of bands, of attributes) - 42 runs - with the parts of the descriptors as opaque symbols that can only be widened or compared, so the way the comparison is written (tuple match, rank numbers, then_with chains) does not matter; where a run leaves that subset the case analysis described above is the judge.",
    "assumptions": [],
}


def run(ctx, res):
    prog = ctx.prog("K0")
    tabs = sigtab.rule_tables(prog, res, os.path.join(engine.VERIF, "oracles", "msm_signals.json"))
    sigtab.rule_order(prog, res, tabs)
