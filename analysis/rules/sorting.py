"""S-sort: canonical order before writing (C01, C10, C16)."""
import re
from terms import FA, show, mk, ty_of, is_const, const_val, T
from facts import callee_of
from paths import enum_paths

SAT_RE = re.compile(r"msg::msm\w+_sat::msm\w+_sat::encode")
SIG_RE = re.compile(r"msg::msg1\d{3}::msg1\d{3}_sig::encode")
SORTS = ("core::slice::<impl [T]>::sort_unstable_by", "core::slice::<impl [T]>::sort_by")
SORTS_KEY = ("core::slice::<impl [T]>::sort_unstable_by_key", "core::slice::<impl [T]>::sort_by_key")
U8CMP = "core::cmp::impls::<impl core::cmp::Ord for u8>::cmp"


def _field_of_arg(t, adt_fields):
    """&(**argN).field -> (N, field name)"""
    x = t
    while x.op in ("ref", "memval"):
        x = x.args[0]
    if x.op == "pf":
        i = x.args[1]
        y = x.args[0]
        n = 0
        while y.op in ("mem", "memval"):
            y = y.args[0]
            n += 1
        if y.op == "arg":
            return y.args[1], i
    return None, None


def comparator_model(prog, path):
    """Closure |a, b| -> decision structure: list of (facts on inner cmp results, returned term)."""
    f = prog.fn(path)
    if f is None:
        return None
    fa = FA(f, prog)
    out = []
    for blocks, facts, rv, flist in enum_paths(fa):
        out.append((facts, rv))
    return fa, out


def rule_sort(prog, res, floors=(4, 49)):
    sat = [f for p, f in sorted(prog.fns.items()) if SAT_RE.fullmatch(p)]
    sig = [f for p, f in sorted(prog.fns.items()) if SIG_RE.fullmatch(p)]
    if "all_msgs" in set(prog.crate["features"]):
        res.floor("S-sort", "MSM satellite fragment encoders", len(sat), floors[0])
        res.floor("S-sort", "MSM signal fragment encoders", len(sig), floors[1])
    for f in sat:
        _sort_rule(prog, res, f, ("satellite_id",))
    for f in sig:
        _sort_rule(prog, res, f, ("satellite_id", "signal_id"))
    # the fragment decoders mirror the write loops: every row of a read loop is read
    for f in sat + sig:
        d = prog.fn(f.path.rsplit("::", 1)[0] + "::decode")
        if d is not None:
            _read_loops_complete(prog, res, d)
    g = prog.fn("df::dfs::df_msg1230_biases::encode")
    if g is not None:
        _sort_rule(prog, res, g, ("signal_id",))
    elif "msg1230" in set(prog.crate["features"]):
        res.missing("S-sort", "df::dfs::df_msg1230_biases::encode")


def _elem_fields(prog, f):
    """field names of the element struct of the DataVec argument (arg 2)"""
    ty = f.locals[2]
    while ty.get("k") == "ref":
        ty = ty["to"]
    if ty.get("k") == "adt" and ty["args"]:
        e = ty["args"][0]
        if e.get("k") == "adt":
            adt = prog.adts.get(e["path"])
            if adt:
                return [x["name"] for x in adt["variants"][0]["fields"]]
    return None


def _sort_rule(prog, res, f, keys):
    res.fn(f)
    fa = FA(f, prog)
    names = fa.names
    tag = f.path
    fields = _elem_fields(prog, f)
    sorts = [(b, t) for b, t in f.calls() if callee_of(t) in SORTS or callee_of(t) in SORTS_KEY]
    res.ob("S-sort", "%s | exactly one sort call" % tag, len(sorts) == 1, "found %d" % len(sorts), f.loc)
    if len(sorts) != 1 or fields is None:
        return
    sb, st = sorts[0]
    a = fa.call_args(sb)
    # sorted slice = as_mut_slice(&mut CLONE) with CLONE = clone(value)
    okc = False
    d = show(a[0], names)
    x = a[0]
    while x.op in ("ref", "mem", "memval"):
        x = x.args[0]
    clone_local = None
    if x.op == "call" and x.args[0] in ("util::data_vec::DataVec::<T, N>::as_mut_slice", "<util::data_vec::DataVec<T, N> as core::ops::DerefMut>::deref_mut"):
        r = x.args[1][0]
        if r.op == "ref" and r.args[0].op == "loc":
            clone_local = r.args[0].args[1]
            real = [d_ for d_ in fa.defs(clone_local) if d_[2] != "borrow"]
            if len(real) == 1:
                init = fa.defterm(clone_local, *real[0])
                if init.op == "call" and init.args[0].endswith("::clone"):
                    src = init.args[1][0]
                    y = src
                    while y.op in ("ref", "mem", "memval"):
                        y = y.args[0]
                    okc = y.op == "arg" and y.args[1] == 2
    res.ob("S-sort", "%s | the sort is applied to a clone of the caller's list" % tag, okc, d, f.loc)
    if clone_local is not None:
        # ... and nothing but the sort changes the clone: no pop / truncate / retain on it, no second pass (reverse, swap, dedup) over its slice
        import looprules
        asm_blocks = {b for b, t in f.calls() if callee_of(t) in ("util::data_vec::DataVec::<T, N>::as_mut_slice",
                                                                 "<util::data_vec::DataVec<T, N> as core::ops::DerefMut>::deref_mut")}
        okm, dm = looprules.only_mutated_by(f, clone_local, asm_blocks)
        if okm:
            # the &mut [T] handed out by as_mut_slice goes to the sort only (shared re-borrows for iteration are fine)
            rec = f.rec
            slices = {t["dest"]["local"] for b, t in f.calls() if b in asm_blocks and not t["dest"]["proj"]}
            muts = set(slices)
            grew = True
            while grew:
                grew = False
                for blk in rec["blocks"]:
                    for st_ in blk["stmts"]:
                        if st_["k"] != "assign" or st_["place"]["proj"]:
                            continue
                        rv = st_["rv"]
                        src_l = None
                        if rv["k"] in ("ref", "rawptr") and rv.get("mut") and rv["place"]["local"] in muts:
                            src_l = rv["place"]["local"]
                        if rv["k"] == "use" and rv["op"].get("k") in ("move", "copy") and not rv["op"]["place"]["proj"] and rv["op"]["place"]["local"] in muts:
                            src_l = rv["op"]["place"]["local"]
                        if src_l is not None and st_["place"]["local"] not in muts:
                            muts.add(st_["place"]["local"])
                            grew = True
            for b, t in f.calls():
                if b == sb:
                    continue
                for a_ in t.get("args", []):
                    if a_.get("k") in ("move", "copy") and not a_["place"]["proj"] and a_["place"]["local"] in muts:
                        okm, dm = False, "the sorted slice is also handed mutably to %s (line %s)" % (callee_of(t), t.get("line"))
        res.ob("S-sort", "%s | nothing but the sort changes the clone" % tag, okm, dm, f.loc)
    # every field write is dominated by the sort and iterates the sorted clone
    enc = [(b, t) for b, t in f.calls() if (callee_of(t) or "").startswith("df::dfs::") and (callee_of(t) or "").endswith("::encode")
           or callee_of(t) == "df::assembler::Assembler::put"]
    value_puts = []
    for b, t in enc:
        if callee_of(t) == "df::assembler::Assembler::put":
            # 1230 writes the mask (not element data) and the biases through put directly
            value_puts.append(b)
    okd = bool(enc) and all(f.dominates(sb, b) and b != sb for b, t in enc if callee_of(t) != "df::assembler::Assembler::put" or _mentions_elem(fa, b))
    res.ob("S-sort", "%s | every element write is dominated by the sort" % tag, okd, "%d writes" % len(enc), f.loc, sample={"writes": len(enc)})
    # the loops that write iterate the clone (or the sorted slice of it), not the original
    okl = True
    for b, t in enc:
        if callee_of(t) == "df::assembler::Assembler::put" and not _mentions_elem(fa, b):
            continue
        args = fa.call_args(b)
        v = args[1]
        root = _iter_root(fa, v)
        if root is None or not _is_clone_iter(fa, root, clone_local, x):
            okl = False
    res.ob("S-sort", "%s | the written elements are drawn from the sorted clone" % tag, okl, "", f.loc)
    # every row is written: in each write loop the element write dominates every back edge (an iteration ends by writing its element or by
    # returning the write's error; a `continue` or a filter in front of the write would leave out rows that the masks announce)
    loops = f.loops()
    backs = {}
    for (src_, h_) in f.back_edges():
        backs.setdefault(h_, []).append(src_)
    okw = True
    dw = ""
    for b, t in enc:
        if callee_of(t) == "df::assembler::Assembler::put" and not _mentions_elem(fa, b):
            continue
        inner = None
        for h_, body in loops.items():
            if b in body and (inner is None or len(body) < len(loops[inner])):
                inner = h_
        if inner is None:
            continue
        for l_ in backs.get(inner, []):
            if not f.dominates(b, l_):
                okw = False
                dw = "the write at line %s can be skipped within its loop (back edge from block %d)" % (t.get("line"), l_)
    res.ob("S-sort", "%s | every row of a write loop is written (the write dominates the loop's back edges)" % tag, okw, dw, f.loc)
    # comparator
    cmp = a[1]
    okk = False
    d = show(cmp, names)
    if callee_of(st) in SORTS_KEY and cmp.op == "closure" and cmp.args[0] in prog.fns:
        # sort_by_key(|e| key(e)) orders by key(a).cmp(&key(b)); for integer fields and tuples of Ord fields that is the field-wise order
        kf = prog.fn(cmp.args[0])
        kfa = FA(kf, prog)
        rets = kf.return_blocks()
        if len(rets) == 1:
            rv = kfa.end_val(0, rets[0])
            parts = list(rv.args[0]) if rv.op == "tuple" else [rv]
            got = []
            for p_ in parts:
                n_, i_ = _field_of_arg(p_, fields)
                got.append(fields[i_] if n_ == 2 and i_ is not None else None)
            okk = tuple(got) == tuple(keys)
            d = "key = (%s)" % ", ".join(str(g) for g in got)
    elif cmp.op == "closure" and cmp.args[0] in prog.fns:
        cm = comparator_model(prog, cmp.args[0])
        if cm is not None:
            cfa, paths = cm
            okk, d = _check_comparator(prog, cfa, paths, fields, keys)
    res.ob("S-sort", "%s | comparator orders by %s with arguments (a, b)" % (tag, " then ".join(keys)), okk, d, f.loc, sample=d)


def _read_loops_complete(prog, res, d):
    """S-read: in a fragment decoder every iteration of a loop that reads a field reads it (the field decode dominates the loop's back edges):
    the number of fields consumed is the number of rows, whatever the rows contain."""
    res.fn(d)
    loops = d.loops()
    backs = {}
    for (src_, h_) in d.back_edges():
        backs.setdefault(h_, []).append(src_)
    ok = True
    detail = ""
    n = 0
    for b, t in d.calls():
        c = callee_of(t) or ""
        if not ((c.startswith("df::dfs::") and c.endswith("::decode")) or c == "df::parser::Parser::parse"):
            continue
        inner = None
        for h_, body in loops.items():
            if b in body and (inner is None or len(body) < len(loops[inner])):
                inner = h_
        if inner is None:
            continue
        n += 1
        for l_ in backs.get(inner, []):
            if not d.dominates(b, l_):
                ok = False
                detail = "the read at line %s can be skipped within its loop (back edge from block %d)" % (t.get("line"), l_)
    res.ob("S-read", "%s | every row of a read loop is read (the field decode dominates the loop's back edges)" % d.path, ok, detail or "%d read loops" % n, d.loc)
    # the list returned is the one sized from the cell / satellite list and filled by the loops: nothing else changes it (no pop, truncate, sort ..)
    import looprules
    ret = None
    for blk in d.rec["blocks"]:
        for st_ in blk["stmts"]:
            if st_["k"] == "assign" and st_["place"] == {"local": 0, "proj": []} and st_["rv"]["k"] == "aggregate" and st_["rv"].get("vname") == "Ok" \
                    and st_["rv"]["ops"] and st_["rv"]["ops"][0].get("k") in ("move", "copy") and not st_["rv"]["ops"][0]["place"]["proj"]:
                ret = st_["rv"]["ops"][0]["place"]["local"]
    for _ in range(4):
        # `_0 = Ok(move tmp)` with `tmp = move value`
        mv = [st_ for blk in d.rec["blocks"] for st_ in blk["stmts"] if st_["k"] == "assign" and st_["place"] == {"local": ret, "proj": []}]
        if ret is not None and len(mv) == 1 and mv[0]["rv"]["k"] == "use" and mv[0]["rv"]["op"].get("k") in ("move", "copy") and not mv[0]["rv"]["op"]["place"]["proj"]:
            ret = mv[0]["rv"]["op"]["place"]["local"]
        else:
            break
    if ret is not None:
        allowed = {b for b, t in d.calls() if (callee_of(t) or "") in ("util::data_vec::DataVec::<T, N>::set_len", "util::data_vec::DataVec::<T, N>::iter_mut",
                                                                        "util::data_vec::DataVec::<T, N>::push")}
        okm, dm = looprules.only_mutated_by(d, ret, allowed)
        res.ob("S-read", "%s | the list returned is changed only by set_len / iter_mut / push" % d.path, okm, dm, d.loc)


def _mentions_elem(fa, b):
    """does the value argument of this put derive from an iterator item (element data)?"""
    a = fa.call_args(b)
    return _iter_root(fa, a[1]) is not None


def _iter_root(fa, v, depth=0):
    """If v is (derived from) a field of an item yielded by a next() call, return that call term."""
    st = [v]
    seen = set()
    while st:
        x = st.pop()
        if not isinstance(x, T) or x in seen:
            continue
        seen.add(x)
        if x.op == "call" and x.args[0].endswith("::next") and len(x.args) >= 4:
            return x
        if x.op == "phi":
            for pb, w in fa.phi_operands(x):
                st.append(w)
        st.extend(y for y in x.args if isinstance(y, T))
        for y in x.args:
            if isinstance(y, tuple):
                st.extend(z for z in y if isinstance(z, T))
    return None


def _is_clone_iter(fa, nxt, clone_local, sorted_slice_call):
    import libmodel
    src = libmodel.iterator_source(nxt, fa)
    if src is None:
        return False
    v = src[0]
    while v.op == "call" and v.args[0] in (libmodel.INTO_ITER, "util::data_vec::DataVec::<T, N>::iter", "core::slice::<impl [T]>::iter"):
        v = v.args[1][0]
    y = v
    while y.op in ("ref", "mem", "memval"):
        y = y.args[0]
    if y.op == "loc" and y.args[1] == clone_local:
        return True
    return y is sorted_slice_call


def _check_comparator(prog, cfa, paths, fields, keys):
    """paths: [(facts, ret)].  keys: ('satellite_id',) | ('satellite_id','signal_id') | ('signal_id',)"""
    names = cfa.names

    def cmp_on(t, field, callee_pred):
        if not (t.op == "call" and callee_pred(t.args[0]) and len(t.args[1]) == 2):
            return False
        n1, i1 = _field_of_arg(t.args[1][0], fields)
        n2, i2 = _field_of_arg(t.args[1][1], fields)
        return n1 == 2 and n2 == 3 and i1 == i2 == fields.index(field)
    is_u8 = lambda c: c == U8CMP
    is_sig = lambda c: c.endswith("::SigId as core::cmp::Ord>::cmp")
    if keys == ("satellite_id",):
        ok = len(paths) == 1 and cmp_on(paths[0][1], "satellite_id", is_u8)
        return ok, show(paths[0][1], names) if paths else ""
    if keys == ("signal_id",):
        ok = len(paths) == 1 and cmp_on(paths[0][1], "signal_id", is_sig)
        return ok, show(paths[0][1], names) if paths else ""
    # two keys: switch on u8::cmp(a.sat, b.sat): Less->Less, Greater->Greater, Equal->SigId::cmp(a.sig, b.sig)
    got = {}
    first = None
    for facts, rv in paths:
        key = None
        for t, (k, v) in facts.items():
            if t.op == "discr" and cmp_on(t.args[0], "satellite_id", is_u8):
                first = t.args[0]
                if k == "eq":
                    key = v
                elif k == "ne" and 0 in v:
                    key = "ne0"          # `match o { Equal => .., other => other }`: one arm for both Less and Greater
        got[key] = rv
    less = [k for k in got if k not in (0, 1, None, "ne0")]
    ok = len(got) == 3 and len(less) == 1 and got[less[0]].op == "agg" and got[less[0]].args[2] == "Less" \
        and 1 in got and got[1].op == "agg" and got[1].args[2] == "Greater" and 0 in got and cmp_on(got[0], "signal_id", is_sig)
    if not ok and first is not None and set(got) == {0, "ne0"}:
        # a.sat.cmp(&b.sat).then_with(|| a.sig.cmp(&b.sig)), desugared: the first comparison is returned unchanged unless it is Equal
        ok = got["ne0"] is first and cmp_on(got[0], "signal_id", is_sig)
    return ok, "; ".join("%s -> %s" % (k, show(v, names)) for k, v in got.items())
