"""C01: encode/decode normal form - what the encoder writes, the decoder reads back."""
import re
import grammar
import dispatch
import fieldmodel
import sorting
import msm
import lists
import ssr
import textrules
import engine

META = {
    "level": "other",
    "trusted_base": ["bit exactness of put/parse (C07's undecided part)", "the composition argument of DESIGN.md 5.1 is a paper argument over the rule sets below",
                     "rustc MIR construction", "mirfacts exporter"],
    "explanation": "Value-level round-trip equality is obtained by composition: (a) G-incl - for each of the 108 messages the wire-layout automaton of its "
                   "encoder (sequence of carrier.width events on Ok paths, fragment calls expanded, determinised and minimised) is included in the "
                   "decoder's automaton, so every layout the encoder can emit is one the decoder follows (inclusion, not equality: the 1059/1065 decoders "
                   "accept a strictly larger language); (a') D-rej - every direct rejection in the decode closure is one of the enumerated ones, so no extra "
                   "plausibility test can turn an encoder-produced frame into Corrupt; (b) every field codec is pattern-idempotent and both directions use the same constants (C08's "
                   "O-agree/O-err/O-int, run here); (c) list counts on the wire equal element counts and decoders rebuild exactly count elements (C15/C16 "
                   "rules, run here); (d) MSM rows and 1230 entries are written in the canonical order the decoder reconstructs (S-sort, S-asc, M-order); "
                   "(e) number <-> variant <-> codec dispatch is coherent, Err maps to Corrupt only (C14 tables, run here). Then for F = enc(M): dec(F) "
                   "has M's type, enc(dec(F)) = F, and dec(enc(dec(G))) = dec(G). Encoders propagate every error (E-prop on the encode closure: a swallowed Err would let a partly written element pass); the loop-completeness and list-integrity rules of C10 / C15 / C16 / C17 are part of the imported rule sets.",
    "assumptions": ["inputs with duplicate keys or unrecognised bias signals are outside the decided part (the property weakens the claim there too)"],
}


def run(ctx, res):
    prog = ctx.prog("K0")
    import bitio as _bitio
    _bitio.rule_bitsem(prog, res)
    _bitio.rule_signsem(prog, res)
    tabs = dispatch.coherence(prog, res, ctx.repo, dec_keys=dispatch.ROUNDTRIP_KEYS)
    memo = {}
    n = 0
    if tabs:
        for num in sorted(tabs["dec"]["table"]):
            e = tabs["dec"]["table"][num]
            dec = e.get("callee")
            enc = tabs["enc"]["table"].get(num, (None,))[0]
            if not dec or not enc:
                continue
            try:
                A = grammar.fn_dfa(prog, enc, memo)
                B = grammar.fn_dfa(prog, dec, memo)
            except Exception as ex:
                res.ob("G-incl", "msg%d | layout automata can be built" % num, False, repr(ex), prog.fn(enc).loc)
                continue
            res.fn(prog.fn(enc))
            res.fn(prog.fn(dec))
            ok, w = grammar.included(A, B)
            n += 1
            res.ob("G-incl", "msg%d | every layout the encoder can emit is a layout the decoder follows" % num, ok and bool(A.acc),
                   "encoder can emit ...%s which the decoder does not follow" % grammar.word_str(w) if not ok else "encoder automaton accepts nothing",
                   prog.fn(enc).loc, sample={"message": num, "encoder_states": A.n, "decoder_states": B.n} if num in (1005, 1059, 1077) else None)
            # the encoder must be able to emit something and the decoder to finish
            res.ob("G-incl", "msg%d | decoder has an accepting layout" % num, bool(B.acc), "", prog.fn(dec).loc)
    if "all_msgs" in set(prog.crate["features"]):
        res.floor("G-incl", "messages compared", n, 108)
    res.extra["codec_automata"] = len(memo)
    import rejects
    rejects.rule_reject_inventory(prog, res)
    # imported rule sets (composition)
    fieldmodel.check_fields(prog, res, prop="C08")
    fieldmodel.check_handwritten(prog, res, prop="C08")
    sorting.rule_sort(prog, res)
    msm.rule_decode(prog, res)
    msm.rule_guards(prog, res)
    lists.rule_lists(prog, res)
    # the encoders propagate every error too: a swallowed Err (out-of-range element, full buffer) would let build_message succeed with a
    # partly written element, and the frame would not decode to the message that was given
    import panics as _p
    import engine as _eng
    lists.rule_error_propagation(prog, _eng.Filtered(res, {"E-prop"}), _p.closure(prog, _p.ENC_ROOTS), side="encode", floor=1000 if "all_msgs" in set(prog.crate["features"]) else 1)
    ssr.rule_count_fields(prog, res)
    ssr.rule_tables(prog, res)
    ssr.rule_1230(prog, res)
    textrules.rule_char_maps(prog, res)
    textrules.rule_limits(prog, res)
    lists.rule_strings(prog, res)
    # the frame is a function of the message alone (C12's typestate): needed for 're-encoding reproduces the frame'
    import builder, engine
    builder.rules_new_clear(prog, res)
    bm = builder.BuildModel(prog, res)
    builder.rules_typestate(prog, res, bm)
    builder.rules_frame_shape(prog, engine.Filtered(res, {"T-writes", "T-pre", "W-win", "W-out"}), bm)
